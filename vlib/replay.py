"""./check <ID> --replay FILE"""
import json
import os
import shutil
import subprocess
import sys
import tempfile


def do_replay(pid, path):
    if path.endswith('.json'):
        rec = json.load(open(path))
        if rec.get('kind') == 'native-bounded':
            import importlib.machinery, importlib.util
            here = os.path.dirname(os.path.dirname(os.path.abspath(__file__)))
            loader = importlib.machinery.SourceFileLoader('check_mod', os.path.join(here, 'check'))
            spec = importlib.util.spec_from_loader('check_mod', loader)
            mod = importlib.util.module_from_spec(spec)
            loader.exec_module(mod)
            scratch = tempfile.mkdtemp(prefix='verif_replay_')
            try:
                r = (mod.run_crate_unit(rec['unit'][6:], scratch, 0, replay={'fn': rec['fn'], 'input': rec['input']}) if rec['unit'].startswith('crate:') else mod.run_native_unit(rec['unit'], scratch, 0, replay={'fn': rec['fn'], 'input': rec['input']}))
            finally:
                shutil.rmtree(scratch, ignore_errors=True)
            if r['error']:
                print('UNDECIDED replay: %s' % r['error'])
                return 2
            if r['panics']:
                print('REPLAYED: %s panics on %s against the code in /repo now' % (rec['fn'], rec['input_rust_literal']))
                print('VIOLATION property=%s replay=%s' % (pid, path))
                return 1
            print(r.get('stdout', '').strip())
            print('replay: %s does not panic on this input with the current /repo' % rec['fn'])
            return 0
    # deductive obligations have no concrete input: show the recorded verifier output
    print(open(path, encoding='utf-8').read())
    print('(no-failing-input-found: this replay file carries the failed obligation and the verifier output; re-run ./check %s to re-decide it)' % pid)
    return 0
