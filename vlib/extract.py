"""Mechanical extraction of items from /repo's working tree (DESIGN.md §3.1).

Everything here either copies source text verbatim or performs one of the named,
logged operations D1 (drop eprintln!/println! statements), D2 (drop attributes and
comments on type definitions), A1 (insert contract text), O1 (outline an expression
into an external_body function) — and records each in a manifest."""

import hashlib
import os
import re

from .rustlex import lex, sig, match_close, norm, OPEN, CLOSE


class ExtractError(Exception):
    """Lost anchor / item not found / unsupported shape: the check is UNDECIDED."""


class Source:
    def __init__(self, path, display):
        self.path = path
        self.display = display
        with open(path, encoding='utf-8') as f:
            self.text = f.read()
        self.all = lex(self.text)
        self.st = sig(self.all)

    def line_of(self, off):
        return self.text.count('\n', 0, off) + 1


_QUAL = {'pub', 'async', 'const', 'unsafe', 'extern', 'default'}


def _header_norm(st, i, j):
    return ' '.join(t.text for t in st[i:j])


def _skip_test_mod(st, i):
    """If st[i] starts `# [ cfg ( test ) ] mod name {`, return index after the module."""
    if st[i].text == '#' and i + 6 < len(st) and [t.text for t in st[i:i + 7]] == ['#', '[', 'cfg', '(', 'test', ')', ']']:
        k = i + 7
        # skip further attributes
        while st[k].text == '#':
            k = match_close(st, k + 1) + 1
        if st[k].text == 'pub':
            k += 1
        if st[k].text == 'mod':
            while st[k].text != '{':
                k += 1
            return match_close(st, k) + 1
    return None


def _iter_items(st, lo, hi):
    """Yield (kind, name_or_header, first_tok, body_open, body_close) for the items at
    nesting depth 0 inside st[lo:hi]."""
    i = lo
    while i < hi:
        t = st[i]
        skip = _skip_test_mod(st, i)
        if skip is not None:
            i = skip
            continue
        if t.text == '#' and i + 1 < hi and st[i + 1].text in ('[', '!'):
            k = i + 1
            if st[k].text == '!':
                k += 1
            i = match_close(st, k) + 1
            continue
        if t.kind == 'ident' and t.text in ('impl', 'trait', 'fn', 'struct', 'enum', 'mod'):
            # walk back over qualifiers
            first = i
            while first - 1 >= lo:
                p = st[first - 1]
                if p.kind == 'ident' and p.text in _QUAL:
                    first -= 1
                elif p.text == ')' and first - 4 >= lo and st[first - 4].text == 'pub':
                    first -= 4  # pub ( crate )
                elif p.kind == 'str' and first - 2 >= lo and st[first - 2].text == 'extern':
                    first -= 1
                else:
                    break
            # find `{` or `;` ending the header at delimiter depth 0
            k = i + 1
            depth = 0
            while k < hi:
                x = st[k]
                if x.kind == 'punct':
                    if x.text in '([':
                        depth += 1
                    elif x.text in ')]':
                        depth -= 1
                    elif depth == 0 and x.text in '{;':
                        break
                k += 1
            if k >= hi:
                return
            if st[k].text == ';':
                if t.text in ('struct',):
                    yield (t.text, st[i + 1].text, first, None, k)
                i = k + 1
                continue
            close = match_close(st, k)
            if t.text in ('impl', 'trait'):
                yield (t.text, _header_norm(st, i, k), first, k, close)
            elif t.text == 'mod':
                for it in _iter_items(st, k + 1, close):
                    yield it
            else:
                yield (t.text, st[i + 1].text, first, k, close)
            i = close + 1
            continue
        i += 1


def find_type(src, kind, name):
    for k, nm, first, bo, bc in _iter_items(src.st, 0, len(src.st)):
        if k == kind and nm == name:
            return first, bo, bc
    raise ExtractError('%s %s not found in %s' % (kind, name, src.display))


def find_fn(src, container, name):
    """container: None for a free fn, else the normalised impl/trait header,
    e.g. 'impl TypeDependencyGraph', 'trait TypeVisitor',
    'impl TypeVisitor for ZodVisitor'."""
    st = src.st
    want = norm(container) if container else None
    for k, nm, first, bo, bc in _iter_items(st, 0, len(st)):
        if want is None:
            if k == 'fn' and nm == name:
                return first, bo, bc
        elif k in ('impl', 'trait') and nm == want:
            for k2, nm2, first2, bo2, bc2 in _iter_items(st, bo + 1, bc):
                if k2 == 'fn' and nm2 == name:
                    return first2, bo2, bc2
    raise ExtractError('fn %s not found in %s of %s' % (name, container or 'module scope', src.display))


def list_fns(src, container):
    st = src.st
    want = norm(container)
    out = []
    for k, nm, first, bo, bc in _iter_items(st, 0, len(st)):
        if k in ('impl', 'trait') and nm == want:
            for k2, nm2, first2, bo2, bc2 in _iter_items(st, bo + 1, bc):
                if k2 == 'fn':
                    out.append(nm2)
    return out


def type_text(src, kind, name, manifest, keep_fields=None):
    """D2: the definition with attributes and comments removed, fields verbatim."""
    first, bo, bc = find_type(src, kind, name)
    st = src.st
    dropped = []
    skip = []          # (start, end) character ranges to drop: attributes
    i = first
    while i <= bc:
        t = st[i]
        if t.text == '#' and st[i + 1].text == '[':
            j = match_close(st, i + 1)
            dropped.append(src.text[t.start:st[j].end])
            skip.append((t.start, st[j].end))
            i = j + 1
            continue
        i += 1
    lo, hi = st[first].start, st[bc].end
    for t in src.all:
        if t.kind == 'comment' and lo <= t.start < hi:
            skip.append((t.start, t.end))
    skip.sort()
    parts, pos = [], lo
    for a, b in skip:
        if a < pos:
            continue
        parts.append(src.text[pos:a])
        pos = b
    parts.append(src.text[pos:hi])
    text = ''.join(parts)
    text = re.sub(r'\n\s*\n', '\n', text)
    dropped_fields = []
    if keep_fields is not None:
        # D2': keep only the named fields of a struct (the others have types that cannot be expressed)
        o = text.index('{')
        c = text.rindex('}')
        body = text[o + 1:c]
        fields, depth, cur = [], 0, ''
        for ch in body:
            if ch in '<([':
                depth += 1
            elif ch in '>)]':
                depth -= 1
            if ch == ',' and depth == 0:
                fields.append(cur)
                cur = ''
            else:
                cur += ch
        if cur.strip():
            fields.append(cur)
        kept = []
        for f in fields:
            nm = re.match(r'\s*(?:pub(?:\([^)]*\))?\s+)?(\w+)\s*:', f)
            if nm and nm.group(1) in keep_fields:
                kept.append(f.strip())
            elif nm:
                dropped_fields.append(nm.group(1))
        text = text[:o + 1] + '\n' + ',\n'.join(kept) + ',\n' + text[c:]
    raw = src.text[st[first].start:st[bc].end]
    manifest.append({
        'op': 'extract-type', 'file': src.display, 'item': '%s %s' % (kind, name),
        'line': src.line_of(st[first].start),
        'sha256': hashlib.sha256(raw.encode()).hexdigest(),
        'dropped_attributes(D2)': dropped,
        'dropped_fields(D2\')': dropped_fields,
    })
    return text


def raw_item_text(src, spec, manifest):
    """Verbatim text of an item (attributes included): 'impl HEADER', 'enum NAME', 'struct NAME',
    'static NAME', 'const NAME', 'fn NAME'."""
    st = src.st
    kind, _, name = spec.partition(' ')
    if kind in ('static', 'const'):
        for i, t in enumerate(st):
            if t.kind == 'ident' and t.text == kind and st[i + 1].text == name:
                j = i
                depth = 0
                while not (st[j].text == ';' and depth == 0):
                    if st[j].text in ('[', '(', '{'):
                        depth += 1
                    elif st[j].text in (']', ')', '}'):
                        depth -= 1
                    j += 1
                text = src.text[t.start:st[j].end]
                break
        else:
            raise ExtractError('%s %s not found in %s' % (kind, name, src.display))
    else:
        found = None
        want = norm(spec)
        for k, nm, first, bo, bc in _iter_items(st, 0, len(st)):
            if k in ('impl', 'trait') and nm == want:
                found = (first, bc)
                break
            if k == kind and nm == name:
                found = (first, bc)
                break
        if not found:
            raise ExtractError('%s not found in %s' % (spec, src.display))
        first, bc = found
        # include directly preceding attributes
        a = first
        while a - 1 >= 0 and st[a - 1].text == ']':
            depth, j = 0, a - 1
            while j >= 0:
                if st[j].text == ']':
                    depth += 1
                elif st[j].text == '[':
                    depth -= 1
                    if depth == 0:
                        break
                j -= 1
            if j - 1 >= 0 and st[j - 1].text == '#':
                a = j - 1
            else:
                break
        text = src.text[st[a].start:st[bc].end]
    manifest.append({'op': 'extract-raw (verbatim)', 'file': src.display, 'item': spec,
                     'sha256': hashlib.sha256(text.encode()).hexdigest()})
    return text


class FnText:
    """A function's token stream with a list of pending textual edits."""

    def __init__(self, src, container, name):
        self.src, self.container, self.name = src, container, name
        first, bo, bc = find_fn(src, container, name)
        if bo is None:
            raise ExtractError('fn %s has no body' % name)
        self.first, self.bo, self.bc = first, bo, bc
        self.st = src.st
        self.edits = []  # (start_off, end_off, replacement, tag)
        self.log = []

    # --- helpers -------------------------------------------------------
    def raw(self):
        return self.src.text[self.st[self.first].start:self.st[self.bc].end]

    def _body_range(self):
        return self.bo + 1, self.bc

    def insert_at(self, off, text, tag):
        self.edits.append((off, off, text, tag))

    def replace(self, a, b, text, tag):
        self.edits.append((a, b, text, tag))

    # --- D1 ------------------------------------------------------------
    def drop_prints(self):
        st = self.st
        i = self.bo
        while i < self.bc:
            t = st[i]
            if t.kind == 'ident' and t.text in ('eprintln', 'println', 'eprint', 'print') and st[i + 1].text == '!' \
                    and st[i + 2].text in OPEN:
                prev = st[i - 1].text
                if prev in ('{', ';', '}'):
                    j = match_close(st, i + 2)
                    end = st[j].end
                    if st[j + 1].text == ';':
                        end = st[j + 1].end
                        j += 1
                    self.replace(t.start, end, '', 'D1')
                    self.log.append({'op': 'D1 drop statement', 'line': self.src.line_of(t.start),
                                     'text': norm(self.src.text[t.start:end])})
                    i = j + 1
                    continue
            i += 1

    # --- A1: contract ----------------------------------------------------
    def add_contract(self, text):
        self.insert_at(self.st[self.bo].start, '\n' + text + '\n', 'A1 contract')
        self.log.append({'op': 'A1 insert contract', 'text': text})

    def name_return(self, name):
        """A1: `-> T` becomes `-> (name: T)` so that the contract can mention the result."""
        st = self.st
        depth = 0
        for k in range(self.first, self.bo):
            x = st[k]
            if x.kind == 'punct' and x.text in '([':
                depth += 1
            elif x.kind == 'punct' and x.text in ')]':
                depth -= 1
            elif depth == 0 and x.text == '-' and st[k + 1].text == '>':
                # return type runs to `where` or the body
                e = self.bo
                for j in range(k + 2, self.bo):
                    if st[j].kind == 'ident' and st[j].text == 'where':
                        e = j
                        break
                self.insert_at(st[k + 2].start, '(' + name + ': ', 'A1 name return value')
                self.insert_at(st[e - 1].end, ')', 'A1 name return value')
                self.log.append({'op': 'A1 name return value', 'name': name})
                return
        raise ExtractError('fn %s has no return type to name' % self.name)

    def add_first_stmt(self, text):
        self.insert_at(self.st[self.bo].end, '\n' + text + '\n', 'A1 first statement')
        self.log.append({'op': 'A1 insert first statement', 'text': text})

    def add_last_stmt(self, text):
        """proof text placed before the closing brace of the body (unit-returning functions only:
        there it is the last statement whatever the order of the statements before it)"""
        last = self.bc - 1
        if last > self.bo and self.st[last].text not in (';', '}'):
            # the body ends in a tail expression: the proof text goes in front of it
            a, _b = self._stmt_bounds(last, last)
            self.insert_at(self.st[a].start, '\n' + text + '\n', 'A1 last statement (before the tail expression)')
        else:
            self.insert_at(self.st[self.bc].start, '\n' + text + '\n', 'A1 last statement')
        self.log.append({'op': 'A1 insert last statement', 'text': text})

    # --- A1: loops -------------------------------------------------------
    def loops(self):
        out = []
        for i in range(self.bo + 1, self.bc):
            t = self.st[i]
            if t.kind == 'ident' and t.text in ('for', 'while', 'loop'):
                if t.text == 'for' and self.st[i + 1].text == '<':
                    continue  # HRTB
                out.append(i)
        return out

    def _loop_body_open(self, i):
        depth = 0
        for k in range(i + 1, self.bc):
            x = self.st[k]
            if x.kind == 'punct':
                if x.text in '([':
                    depth += 1
                elif x.text in ')]':
                    depth -= 1
                elif x.text == '{' and depth == 0:
                    return k
        raise ExtractError('loop body not found')

    def add_loop_invariant(self, ordinal, text, iter_name=None):
        ls = self.loops()
        if ordinal < 1 or ordinal > len(ls):
            raise ExtractError('fn %s: loop #%d not found (has %d)' % (self.name, ordinal, len(ls)))
        i = ls[ordinal - 1]
        k = self._loop_body_open(i)
        self.insert_at(self.st[k].start, '\n' + text + '\n', 'A1 loop invariant')
        entry = {'op': 'A1 insert loop spec', 'loop': ordinal, 'line': self.src.line_of(self.st[i].start), 'text': text}
        if iter_name:
            if self.st[i].text != 'for':
                raise ExtractError('ITER on a non-for loop')
            depth = 0
            for j in range(i + 1, k):
                x = self.st[j]
                if x.kind == 'punct' and x.text in '([':
                    depth += 1
                elif x.kind == 'punct' and x.text in ')]':
                    depth -= 1
                elif depth == 0 and x.kind == 'ident' and x.text == 'in':
                    self.insert_at(x.end, ' ' + iter_name + ':', 'A1 ghost iterator name')
                    entry['ghost_iterator_name'] = iter_name
                    break
            else:
                raise ExtractError('`in` not found in for loop')
        self.log.append(entry)

    def insert_after_loop(self, ordinal, text):
        ls = self.loops()
        if ordinal < 1 or ordinal > len(ls):
            raise ExtractError('fn %s: loop #%d not found (has %d)' % (self.name, ordinal, len(ls)))
        k = self._loop_body_open(ls[ordinal - 1])
        c = match_close(self.st, k)
        self.insert_at(self.st[c].end, '\n' + text + '\n', 'A1 proof block after loop')
        self.log.append({'op': 'A1 insert after loop', 'loop': ordinal, 'text': text})

    def insert_at_loop_end(self, ordinal, text):
        ls = self.loops()
        if ordinal < 1 or ordinal > len(ls):
            raise ExtractError('fn %s: loop #%d not found (has %d)' % (self.name, ordinal, len(ls)))
        k = self._loop_body_open(ls[ordinal - 1])
        c = match_close(self.st, k)
        self.insert_at(self.st[c].start, '\n' + text + '\n', 'A1 proof block at end of loop body')
        self.log.append({'op': 'A1 insert at end of loop body', 'loop': ordinal, 'text': text})

    # --- A1: anchors -----------------------------------------------------
    def find_anchor(self, anchor, occurrence=1):
        want = [t.text for t in sig(lex(anchor))]
        if not want:
            raise ExtractError('empty anchor')
        n = len(want)
        hits = []
        for i in range(self.bo, self.bc - n + 2):
            if self.st[i].text == want[0] and [t.text for t in self.st[i:i + n]] == want:
                hits.append(i)
        if len(hits) < occurrence:
            raise ExtractError('fn %s: anchor `%s` occurrence %d not found (%d hits)' % (self.name, anchor, occurrence, len(hits)))
        i = hits[occurrence - 1]
        return i, i + n - 1

    def _stmt_bounds(self, a, b):
        """Expand the token range [a, b] of an anchor to the statement that contains it."""
        st = self.st
        # backwards to the previous `;`, `{` or `}` at the anchor's nesting level
        i, depth = a - 1, 0
        while i > self.bo:
            t = st[i].text
            if st[i].kind == 'punct':
                if t in ')]':
                    depth += 1
                elif t in '([':
                    if depth == 0:
                        # the anchor sits inside a parenthesised group: keep going outwards
                        i -= 1
                        continue
                    depth -= 1
                elif depth == 0 and t in ';{}':
                    break
            i -= 1
        start = i + 1
        # forwards to the `;` that ends the statement (blocks of if/for/while/match are skipped)
        if st[b].text == ';':
            return start, b
        if st[b].text == '}' and b + 1 < len(st) and st[b + 1].text not in ('else', ';', '.', '?'):
            return start, b
        j, depth = b + 1, 0
        end = b
        while j < self.bc:
            t = st[j].text
            if st[j].kind == 'punct':
                if t in '([':
                    depth += 1
                elif t in ')]':
                    if depth == 0:
                        j += 1
                        continue      # leaving a group the anchor was inside of
                    depth -= 1
                elif t == '{' and depth == 0:
                    j = match_close(st, j)
                    end = j
                    if j + 1 < self.bc and st[j + 1].text == 'else':
                        j += 2
                        continue
                    if j + 1 < self.bc and st[j + 1].text == ';':
                        end = j + 1
                    break
                elif t == ';' and depth == 0:
                    end = j
                    break
                elif t == '}' and depth == 0:
                    end = j - 1
                    break
            end = j
            j += 1
        return start, end

    def insert_after(self, anchor, text, occurrence=1):
        a, b = self.find_anchor(anchor, occurrence)
        a, b = self._stmt_bounds(a, b)
        self.insert_at(self.st[b].end, '\n' + text + '\n', 'A1 proof block')
        self.log.append({'op': 'A1 insert after the statement containing the anchor', 'anchor': norm(anchor), 'occurrence': occurrence, 'text': text})

    def insert_before(self, anchor, text, occurrence=1):
        a, b = self.find_anchor(anchor, occurrence)
        a, b = self._stmt_bounds(a, b)
        self.insert_at(self.st[a].start, '\n' + text + '\n', 'A1 proof block')
        self.log.append({'op': 'A1 insert before the statement containing the anchor', 'anchor': norm(anchor), 'occurrence': occurrence, 'text': text})

    # --- A1: closures ------------------------------------------------------
    def closures(self):
        """Indices of the opening `|` of each closure in the body, in source order."""
        out = []
        st = self.st
        i = self.bo + 1
        while i < self.bc:
            t = st[i]
            if t.text == '|' and t.kind == 'punct':
                p = st[i - 1]
                if (p.kind == 'punct' and p.text in '(,={;>&!') or (p.kind == 'ident' and p.text in ('move', 'return', 'in')):
                    if p.text == '|':
                        i += 1
                        continue
                    out.append(i)
                    # skip to closing bar
                    j = i + 1
                    if st[j].text != '|':
                        depth = 0
                        while not (st[j].text == '|' and depth == 0):
                            if st[j].text in OPEN or st[j].text == '<':
                                depth += 1
                            elif st[j].text in CLOSE or st[j].text == '>':
                                depth -= 1
                            j += 1
                    i = j + 1
                    continue
            i += 1
        return out

    def annotate_closure(self, ordinal, header):
        """Replace the `|params|` header of the n-th closure by `header` (which must
        bind the same parameter names, in order) and brace an expression body."""
        cs = self.closures()
        if ordinal < 1 or ordinal > len(cs):
            raise ExtractError('fn %s: closure #%d not found (has %d)' % (self.name, ordinal, len(cs)))
        st = self.st
        i = cs[ordinal - 1]
        j = i + 1
        names = []
        depth = 0
        while not (st[j].text == '|' and depth == 0):
            if st[j].text in OPEN or st[j].text == '<':
                depth += 1
            elif st[j].text in CLOSE or st[j].text == '>':
                depth -= 1
            j += 1
        orig_header = self.src.text[st[i].start:st[j].end]
        # parameter names of original header: identifiers directly after `|` or `,` at depth 0
        def param_names(text):
            ts = sig(lex(text))
            res, d = [], 0
            # strip outer bars
            k = 1
            expect = True
            while k < len(ts):
                x = ts[k]
                if x.text == '|' and d == 0:
                    break
                if x.text in OPEN or x.text == '<':
                    d += 1
                elif x.text in CLOSE or x.text == '>':
                    d -= 1
                elif x.text == ',' and d == 0:
                    expect = True
                elif expect and x.kind == 'ident' and x.text not in ('mut', 'ref'):
                    res.append(x.text)
                    expect = False
                elif expect and x.text in ('&',):
                    pass
                k += 1
            return res
        have, want = param_names(orig_header), param_names(header)
        if have != want:
            if len(have) != len(want) or len(set(have)) != len(have):
                raise ExtractError('closure #%d of %s: parameter names %r differ from annotation %r'
                                   % (ordinal, self.name, have, want))
            # the parameters were renamed in the code: the annotation follows (same positions)
            ren = dict(zip(want, have))
            header = re.sub(r'\b(%s)\b' % '|'.join(re.escape(w) for w in want), lambda m: ren[m.group(1)], header)
            self.log.append({'op': 'A1 closure annotation follows renamed parameters', 'closure': ordinal, 'renamed': ren})
        body_first = j + 1
        if st[body_first].text == '{':
            self.replace(st[i].start, st[j].end, header + ' ', 'A1 closure signature')
        else:
            # expression body: up to the `,` or closing delimiter of the enclosing group
            k = body_first
            depth = 0
            while True:
                x = st[k]
                if x.kind == 'punct':
                    if x.text in OPEN:
                        depth += 1
                    elif x.text in CLOSE:
                        if depth == 0:
                            break
                        depth -= 1
                    elif x.text in ',;' and depth == 0:
                        break
                k += 1
            self.replace(st[i].start, st[j].end, header + ' { ', 'A1 closure signature')
            self.insert_at(st[k - 1].end, ' }', 'A1 closure brace')
        self.log.append({'op': 'A1 annotate closure', 'closure': ordinal, 'original_header': orig_header,
                         'header': header})

    # --- O1: outline -----------------------------------------------------
    def outline(self, anchor, call_text, occurrence=1):
        """Replace the expression `anchor` by `call_text`; returns the verbatim
        expression text (to become the body of an external_body function)."""
        a, b = self.find_anchor(anchor, occurrence)
        verb = self.src.text[self.st[a].start:self.st[b].end]
        self.replace(self.st[a].start, self.st[b].end, call_text, 'O1 outline')
        self.log.append({'op': 'O1 outline expression', 'expression': norm(verb), 'replaced_by': call_text})
        return verb

    # --- W1: wrap an expression in a trusted prelude function -----------------
    def wrap(self, anchor, fname, occurrence=1):
        """`anchor` may mark the part to wrap with << >> inside a longer context."""
        if '<<' in anchor:
            pre, rest = anchor.split('<<', 1)
            mid, post = rest.split('>>', 1)
            npre, nmid = len(sig(lex(pre))), len(sig(lex(mid)))
            a0, b0 = self.find_anchor(pre + ' ' + mid + ' ' + post, occurrence)
            a, b = a0 + npre, a0 + npre + nmid - 1
        else:
            a, b = self.find_anchor(anchor, occurrence)
        self.insert_at(self.st[a].start, fname + '(', 'W1 wrap')
        self.insert_at(self.st[b].end, ')', 'W1 wrap')
        self.log.append({'op': 'W1 wrap expression in trusted prelude function', 'expression': norm(anchor.replace('<<', ' ').replace('>>', ' ')),
                         'occurrence': occurrence, 'function': fname})

    # --- render ------------------------------------------------------------
    def render(self):
        base = self.st[self.first].start
        end = self.st[self.bc].end
        text = self.src.text
        # strip doc comments/attributes: we start at qualifiers, so none precede.
        edits = sorted(self.edits, key=lambda e: (e[0], e[1]))
        # check no overlap
        out, pos = [], base
        for a, b, rep, tag in edits:
            if a < pos:
                raise ExtractError('overlapping edits in fn %s (%s)' % (self.name, tag))
            out.append(text[pos:a])
            out.append(rep)
            pos = b
        out.append(text[pos:end])
        return ''.join(out)

    def manifest(self):
        raw = self.raw()
        return {
            'op': 'extract-fn', 'file': self.src.display,
            'item': ((self.container + ' :: ') if self.container else '') + self.name,
            'lines': [self.src.line_of(self.st[self.first].start), self.src.line_of(self.st[self.bc].end)],
            'sha256': hashlib.sha256(raw.encode()).hexdigest(),
            'edits': self.log,
        }


class BlockText(FnText):
    """B1: a contiguous statement block of a function (from the start of an anchor to the
    matching close of the first `{` at/after the anchor's last token), treated like a
    function body; the caller supplies the signature."""

    def __init__(self, src, container, name, anchor, occurrence=1):
        FnText.__init__(self, src, container, name)
        a, b = self.find_anchor(anchor, occurrence)
        k = b
        while self.st[k].text != '{':
            k += 1
        close = match_close(self.st, k)
        self.block_first = a
        self.first = a
        # body range for loop / anchor search = the whole block
        self.bo = a - 1 if a > 0 else a
        self.bc = close + 1 if close + 1 < len(self.st) else close
        self._blk = (a, close)
        self.block_anchor = anchor

    def raw(self):
        a, c = self._blk
        return self.src.text[self.st[a].start:self.st[c].end]

    def render_block(self):
        a, c = self._blk
        base, end = self.st[a].start, self.st[c].end
        if getattr(self, 'body_only', False):
            # only the statements inside the block's braces
            k = a
            while self.st[k].text != '{' or match_close(self.st, k) != c:
                k += 1
            base, end = self.st[k].end, self.st[c].start
        text = self.src.text
        edits = sorted([e for e in self.edits if base <= e[0] and e[1] <= end], key=lambda e: (e[0], e[1]))
        out, pos = [], base
        for s, e, rep, tag in edits:
            if s < pos:
                raise ExtractError('overlapping edits in block of %s' % self.name)
            out.append(text[pos:s])
            out.append(rep)
            pos = e
        out.append(text[pos:end])
        return ''.join(out)

    def manifest(self):
        m = FnText.manifest(self)
        m['op'] = 'extract-block(B1)'
        m['block_anchor'] = norm(self.block_anchor)
        a, c = self._blk
        m['lines'] = [self.src.line_of(self.st[a].start), self.src.line_of(self.st[c].end)]
        return m


FORMAT_RE = None


def format_templates(text):
    """All `format!("literal", ...)` templates occurring in `text` with their arity."""
    st = sig(lex(text))
    found = {}
    for i, t in enumerate(st):
        if t.kind == 'ident' and t.text == 'format' and i + 3 < len(st) and st[i + 1].text == '!' and st[i + 2].text == '(':
            lit = st[i + 3]
            if lit.kind != 'str' or not lit.text.startswith('"'):
                raise ExtractError('format! with a non-literal template: %s' % lit.text)
            found[lit.text] = True
    return list(found)


def split_format(lit):
    """Split a "…{}…" literal into its constant pieces; None if any placeholder is not bare {}."""
    body = lit[1:-1]
    pieces, cur, i = [], '', 0
    while i < len(body):
        c = body[i]
        if c == '\\':
            cur += body[i:i + 2]
            i += 2
            continue
        if c == '{':
            if body[i + 1] == '{':
                cur += '{{'
                i += 2
                continue
            if body[i + 1] == '}':
                pieces.append(cur)
                cur = ''
                i += 2
                continue
            return None
        if c == '}':
            if i + 1 < len(body) and body[i + 1] == '}':
                cur += '}}'
                i += 2
                continue
            return None
        cur += c
        i += 1
    pieces.append(cur)
    # `{{`/`}}` escapes become single braces in the constant pieces
    return [p.replace('{{', '{').replace('}}', '}') for p in pieces]
