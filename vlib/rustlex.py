"""Minimal Rust-aware lexer: enough to find item boundaries, statements, loops and
closures without being fooled by strings, raw strings, char literals, lifetimes or
(nested) comments.  No dependency beyond the standard library."""

import re

IDENT_START = re.compile(r'[A-Za-z_\u0080-\U0010ffff]')
IDENT_CONT = re.compile(r'[A-Za-z0-9_\u0080-\U0010ffff]')


class Tok:
    __slots__ = ('kind', 'text', 'start', 'end')

    def __init__(self, kind, text, start, end):
        self.kind, self.text, self.start, self.end = kind, text, start, end

    def __repr__(self):
        return 'Tok(%s,%r,%d)' % (self.kind, self.text, self.start)


def lex(src):
    """Return the full token list (including whitespace and comments) of `src`."""
    toks = []
    i, n = 0, len(src)
    while i < n:
        c = src[i]
        # whitespace
        if c.isspace():
            j = i + 1
            while j < n and src[j].isspace():
                j += 1
            toks.append(Tok('ws', src[i:j], i, j))
            i = j
            continue
        # comments
        if src.startswith('//', i):
            j = src.find('\n', i)
            if j < 0:
                j = n
            toks.append(Tok('comment', src[i:j], i, j))
            i = j
            continue
        if src.startswith('/*', i):
            depth, j = 1, i + 2
            while j < n and depth:
                if src.startswith('/*', j):
                    depth += 1
                    j += 2
                elif src.startswith('*/', j):
                    depth -= 1
                    j += 2
                else:
                    j += 1
            toks.append(Tok('comment', src[i:j], i, j))
            i = j
            continue
        # raw strings r"..", r#".."#, br#".."#
        m = re.match(r'(b|c)?r(#*)"', src[i:i + 40])
        if m:
            hashes = m.group(2)
            close = '"' + hashes
            j = src.find(close, i + m.end())
            if j < 0:
                raise ValueError('unterminated raw string at %d' % i)
            j += len(close)
            toks.append(Tok('str', src[i:j], i, j))
            i = j
            continue
        # strings "..", b"..", c".."
        if c == '"' or (c in 'bc' and i + 1 < n and src[i + 1] == '"'):
            j = i + (1 if c == '"' else 2)
            while j < n and src[j] != '"':
                if src[j] == '\\':
                    j += 1
                j += 1
            j += 1
            toks.append(Tok('str', src[i:j], i, j))
            i = j
            continue
        # char literal or lifetime; b'x'
        if c == "'" or (c == 'b' and i + 1 < n and src[i + 1] == "'"):
            k = i + (1 if c == "'" else 2)
            # char literal forms: 'x', '\n', '\'', '\u{1F600}', '\x41'
            if k < n and src[k] == '\\':
                j = k + 2
                while j < n and src[j] != "'":
                    j += 1
                j += 1
                toks.append(Tok('char', src[i:j], i, j))
                i = j
                continue
            if k + 1 < n and src[k + 1] == "'" and src[k] != "'":
                j = k + 2
                toks.append(Tok('char', src[i:j], i, j))
                i = j
                continue
            # lifetime
            j = k
            while j < n and IDENT_CONT.match(src[j]):
                j += 1
            toks.append(Tok('lifetime', src[i:j], i, j))
            i = j
            continue
        if IDENT_START.match(c):
            j = i + 1
            while j < n and IDENT_CONT.match(src[j]):
                j += 1
            # raw identifier r#name
            if src[i:j] == 'r' and j < n and src[j] == '#' and j + 1 < n and IDENT_START.match(src[j + 1]):
                j += 1
                while j < n and IDENT_CONT.match(src[j]):
                    j += 1
            toks.append(Tok('ident', src[i:j], i, j))
            i = j
            continue
        if c.isdigit():
            j = i + 1
            while j < n and (src[j].isalnum() or src[j] == '_' or
                             (src[j] == '.' and j + 1 < n and src[j + 1].isdigit())):
                j += 1
            toks.append(Tok('num', src[i:j], i, j))
            i = j
            continue
        toks.append(Tok('punct', c, i, i + 1))
        i += 1
    return toks


def sig(toks):
    """Significant tokens only (no whitespace, no comments)."""
    return [t for t in toks if t.kind not in ('ws', 'comment')]


OPEN = {'(': ')', '[': ']', '{': '}'}
CLOSE = {')': '(', ']': '[', '}': '{'}


def match_close(st, i):
    """st: significant tokens, st[i] an opening delimiter; index of its partner."""
    depth = 0
    for j in range(i, len(st)):
        t = st[j]
        if t.kind == 'punct':
            if t.text in OPEN:
                depth += 1
            elif t.text in CLOSE:
                depth -= 1
                if depth == 0:
                    return j
    raise ValueError('unbalanced delimiter at offset %d' % st[i].start)


def norm(text):
    """Whitespace/comment-insensitive normal form of a Rust fragment."""
    return ' '.join(t.text for t in sig(lex(text)))
