"""Assemble one Verus verification unit from a unit template (units/*.rs) and /repo's
working tree.  The template is Verus text with `//@` directives; see DESIGN.md §3.1."""

import json
import os
import re
import shlex

from .extract import Source, FnText, BlockText, ExtractError, type_text, format_templates, split_format, raw_item_text
from .rustlex import norm, sig

VERIF = os.path.dirname(os.path.dirname(os.path.abspath(__file__)))
REPO = os.environ.get('VERIF_REPO', '/repo')
try:
    PINNED = json.load(open(os.path.join(os.path.dirname(os.path.dirname(os.path.abspath(__file__))), 'pinned_fns.json')))
except Exception:
    PINNED = {}


def rename_map(old, now):
    """old/now: [(kind, text)] of a function's significant tokens.  If they differ only by a consistent, injective renaming
    of identifier tokens, return {old_name: new_name} (empty when equal); otherwise None."""
    if not old or len(old) != len(now):
        return None
    fwd, back = {}, {}
    for (k1, t1), (k2, t2) in zip(old, now):
        if k1 != k2:
            return None
        if k1 != 'ident':
            if t1 != t2:
                return None
            continue
        if fwd.setdefault(t1, t2) != t2 or back.setdefault(t2, t1) != t1:
            return None
    ren = {a: b for a, b in fwd.items() if a != b}
    # only plain variables may be renamed: never a method, path segment, macro, type, variant or field name — the
    # contract text is rewritten too, so a changed callee or constant must never look like a renaming
    def plain(toks, name):
        if not (name[0].islower() or name[0] == '_') or name in ('self', 'super', 'crate'):
            return False
        for i, (k, t) in enumerate(toks):
            if k == 'ident' and t == name:
                prev = toks[i - 1][1] if i else ''
                nxt = toks[i + 1][1] if i + 1 < len(toks) else ''
                prev2 = toks[i - 2][1] if i > 1 else ''
                if prev == '.' or (prev == ':' and prev2 == ':') or nxt in ('(', '!', '{') and prev not in ('for', 'in', 'let', 'mut', '=', '(', ',', 'return') \
                        or nxt == '(' or nxt == '!' or (nxt == ':' and i + 2 < len(toks) and toks[i + 2][1] == ':'):
                    return False
        return True
    for a, b in ren.items():
        if not plain(old, a) or not plain(now, b):
            return None
    return ren


def registry_crate_dir(name):
    """Directory of the version of `name` that /repo/Cargo.lock pins, in the cargo registry."""
    lock = open(os.path.join(REPO, 'Cargo.lock'), encoding='utf-8').read()
    m = re.search(r'name = "%s"\nversion = "([^"]+)"' % re.escape(name), lock)
    if not m:
        raise ExtractError('crate %s not in Cargo.lock' % name)
    ver = m.group(1)
    base = os.path.expanduser('~/.cargo/registry/src')
    for d in sorted(os.listdir(base)):
        p = os.path.join(base, d, '%s-%s' % (name, ver))
        if os.path.isdir(p):
            return p, ver
    raise ExtractError('crate %s-%s not in the cargo registry' % (name, ver))


def parse_kv(s):
    out = {}
    for part in shlex.split(s):
        if '=' in part:
            k, v = part.split('=', 1)
            out[k] = v
        else:
            out[part] = True
    return out


class Unit:
    def __init__(self, name, auto_external=False):
        self.name = name
        self.auto_external = auto_external   # auto-extracted callees as external_body (no contract)
        self.path = os.path.join(VERIF, 'units', name + '.rs')
        self.sources = {}
        self.manifest = []
        self.obligations = []   # dicts: name, kind, props, lines (output range)
        self.assumptions = []
        self.out_lines = []     # output text lines
        self.origin = []        # parallel: origin string per output line
        self.extracted_text = []

    def src(self, kv):
        if 'crate' in kv:
            d, ver = registry_crate_dir(kv['crate'])
            p = os.path.join(d, kv['file'])
            disp = '%s-%s/%s' % (kv['crate'], ver, kv['file'])
        else:
            p = os.path.join(REPO, kv['file'])
            disp = kv['file']
        if p not in self.sources:
            if not os.path.exists(p):
                raise ExtractError('source file %s not found' % disp)
            self.sources[p] = Source(p, disp)
        return self.sources[p]

    def emit(self, text, origin):
        for ln in text.split('\n'):
            self.out_lines.append(ln)
            self.origin.append(origin)

    def _auto_callees(self, src, container, text, depth=0):
        """Functions of the same impl/trait or file that `text` calls and that the unit does not
        define: extracted verbatim WITHOUT a contract (callers then see no postcondition)."""
        from .rustlex import lex, sig
        from .extract import list_fns
        out_methods, out_free = [], []
        if depth > 4:
            return out_methods, out_free
        st = sig(lex(text))
        same = set(list_fns(src, container)) if container else set()
        free = set()
        from .extract import _iter_items
        for k, nm, first, bo, bc in _iter_items(src.st, 0, len(src.st)):
            if k == 'fn':
                free.add(nm)
        for i, t in enumerate(st):
            if t.kind != 'ident' or i + 1 >= len(st) or st[i + 1].text != '(' or i == 0:
                continue
            name = t.text
            if name in self.defined or not (name[0].islower() or name[0] == '_'):
                continue
            prev = st[i - 1].text
            prev2 = st[i - 2].text if i >= 2 else ''
            prev3 = st[i - 3].text if i >= 3 else ''
            is_method = (prev == '.' and prev2 == 'self') or (prev == ':' and prev2 == ':' and prev3 == 'Self')
            if is_method and name in same:
                self.defined.add(name)
                ft = FnText(src, container, name)
                ft.drop_prints()
                txt = ('#[verifier::external_body]\n' if self.auto_external else '') + ft.render()
                self.manifest.append(dict(ft.manifest(), op='auto-extracted callee (no contract)'))
                self.auto_extracted.append('%s :: %s (%s)' % (container, name, src.display))
                out_methods.append(txt)
                m2, f2 = self._auto_callees(src, container, txt, depth + 1)
                out_methods += m2
                out_free += f2
            elif prev not in ('.', ':', 'fn') and (name in free or self._imported_from(src, name)):
                self.defined.add(name)
                fsrc = src if name in free else self._imported_from(src, name)
                ft = FnText(fsrc, None, name)
                ft.drop_prints()
                txt = ('#[verifier::external_body]\n' if self.auto_external else '') + ft.render()
                self.manifest.append(dict(ft.manifest(), op='auto-extracted callee (no contract)'))
                self.auto_extracted.append('%s (%s)' % (name, fsrc.display))
                out_free.append(txt)
                m2, f2 = self._auto_callees(fsrc, None, txt, depth + 1)
                out_free += m2 + f2
        return out_methods, out_free

    def _imported_from(self, src, name):
        """If `src` imports the free function `name` with `use crate::a::b::{.., name, ..}`, the Source of
        src/a/b.rs (or src/a/b/mod.rs); else None."""
        for m in re.finditer(r'use\s+crate::([\w:]+?)::(?:\{([^}]*)\}|(\w+))\s*;', src.text):
            names = [x.strip().split(' as ')[0].strip() for x in (m.group(2) or m.group(3) or '').split(',')]
            if name in names:
                rel = m.group(1).replace('::', '/')
                for cand in ('src/%s.rs' % rel, 'src/%s/mod.rs' % rel):
                    pth = os.path.join(REPO, cand)
                    if os.path.exists(pth):
                        try:
                            fs = self.src({'file': cand})
                            from .extract import _iter_items
                            if any(k == 'fn' and nm == name for k, nm, a, b, c in _iter_items(fs.st, 0, len(fs.st))):
                                return fs
                        except ExtractError:
                            pass
        return None

    def assemble(self):
        lines = open(self.path, encoding='utf-8').read().split('\n')
        self.defined = set(re.findall(r'\bfn\s+(\w+)', '\n'.join(lines)))
        self.defined |= set(re.findall(r'\bfn=(\w+)', '\n'.join(lines)))
        for inc in re.findall(r'//@ INCLUDE (\S+)', '\n'.join(lines)):
            try:
                self.defined |= set(re.findall(r'\bfn\s+(\w+)', open(os.path.join(VERIF, inc)).read()))
            except OSError:
                pass
        self.auto_extracted = []
        free_slot = None
        free_fns = []
        i = 0
        pending_props = None
        fmt_slot = None
        while i < len(lines):
            ln = lines[i]
            s = ln.strip()
            if s.startswith('//@ AUTO-FREE-FNS'):
                free_slot = len(self.out_lines)
                self.emit('', 'generated:auto-extracted free functions')
                i += 1
                continue
            if s.startswith('//@ FORMAT-MACRO'):
                fmt_slot = len(self.out_lines)
                self.emit('', 'generated:format-macro')
                i += 1
                continue
            if s.startswith('//@ INCLUDE'):
                rel = s.split()[2]
                inc = open(os.path.join(VERIF, rel), encoding='utf-8').read().split('\n')
                self.includes = getattr(self, 'includes', []) + [rel]
                lines[i:i + 1] = inc
                continue
            if s.startswith('//@ PROPS'):
                pending_props = s.split()[2:]
                i += 1
                continue
            if s.startswith('//@ EXTRACT-RAW'):
                kv = parse_kv(s[len('//@ EXTRACT-RAW'):])
                src = self.src(kv)
                rtxt = raw_item_text(src, kv['item'], self.manifest)
                if kv.get('static_lifetime'):
                    # D5: in the type of a const/static item an elided reference lifetime IS 'static; it is written
                    # out because verus! turns the const into a function, where elision is not allowed
                    head, eq, tail = rtxt.partition('=')
                    rtxt = re.sub(r"&\s*(?!')", "&'static ", head) + eq + tail
                    self.manifest.append({'op': 'normalise(D5)', 'item': kv['item'], 'what': "elided lifetime in the const's type written as 'static"})
                self.emit(rtxt, 'repo:%s:%s' % (src.display, kv['item']))
                i += 1
                continue
            if s.startswith('//@ EXTRACT-TYPE'):
                kv = parse_kv(s[len('//@ EXTRACT-TYPE'):])
                src = self.src(kv)
                kind = 'struct' if 'struct' in kv else 'enum'
                txt = type_text(src, kind, kv[kind], self.manifest, kv['fields'].split(',') if 'fields' in kv else None)
                if 'derive' in kv:
                    # D2 exception: the named std derives of a field-less enum are kept (Copy semantics)
                    txt = '#[derive(%s)]\n' % kv['derive'] + txt
                if 'clone' in kv:
                    # so that `.clone()` inside outlined (external_body) expressions type-checks;
                    # the impl is outside verus!{} (external, never verified, never executed)
                    self.clone_types = getattr(self, 'clone_types', []) + [kv[kind]]
                self.emit(txt, 'repo:%s:%s %s' % (src.display, kind, kv[kind]))
                i += 1
                continue
            if s.startswith('//@ EXTRACT-FN') or s.startswith('//@ EXTRACT-BLOCK'):
                is_block = s.startswith('//@ EXTRACT-BLOCK')
                kv = parse_kv(s.split(None, 2)[2])
                src = self.src(kv)
                # collect sub-directives until //@ END
                subs = []
                i += 1
                cur = None
                while i < len(lines):
                    t = lines[i].strip()
                    if t.startswith('//@ END'):
                        break
                    if t.startswith('//@|'):
                        if cur is None:
                            raise ExtractError('%s:%d: //@| outside a directive' % (self.path, i + 1))
                        cur[1].append(lines[i].split('//@|', 1)[1])
                    elif t.startswith('//@ '):
                        cur = [t[4:], []]
                        subs.append(cur)
                    elif t == '' or t.startswith('//'):
                        pass
                    else:
                        raise ExtractError('%s:%d: unexpected text inside EXTRACT' % (self.path, i + 1))
                    i += 1
                else:
                    raise ExtractError('%s: EXTRACT without END' % self.path)
                i += 1
                try:
                    if is_block:
                        ft = BlockText(src, kv.get('in'), kv['fn'], kv['anchor'], int(kv.get('occurrence', 1)))
                        ft.body_only = bool(kv.get('body'))
                    else:
                        ft = FnText(src, kv.get('in'), kv['fn'])
                except ExtractError as e:
                    if kv.get('optional'):
                        self.skipped = getattr(self, 'skipped', []) + ['%s (optional, not present: %s)' % (kv.get('as', kv['fn']), e)]
                        continue
                    raise
                key = kv.get('as', kv['fn'])
                if not is_block:
                    now = [(t.kind, t.text) for t in sig(ft.st[ft.first:ft.bc + 1])]
                    self.fn_tokens = getattr(self, 'fn_tokens', {})
                    self.fn_tokens[key] = now
                    ren = rename_map(PINNED.get(os.path.splitext(os.path.basename(self.path))[0], {}).get(key), now)
                    if ren:
                        # the code differs from the text the proof was written for only by a consistent renaming of
                        # identifiers (locals, closure parameters): anchors, invariants and hints follow the new names
                        pat = re.compile(r'(?<![A-Za-z0-9_])(%s)(?![A-Za-z0-9_])' % '|'.join(re.escape(o) for o in ren))
                        subs = [[pat.sub(lambda m: ren[m.group(1)], h), [pat.sub(lambda m: ren[m.group(1)], b) for b in body]] for h, body in subs]
                        self.manifest.append({'op': 'directives follow renamed identifiers', 'fn': key, 'renamed': ren})
                ft.drop_prints()
                outlined = []
                signature = None
                external_body = False
                annotated_closures = 0
                try:
                    total_closures = len(ft.closures())
                except Exception:
                    total_closures = 0
                for head, body in subs:
                    text = '\n'.join(body)
                    parts = head.split(None, 1)
                    op = parts[0]
                    rest = parts[1] if len(parts) > 1 else ''
                    if op == 'CONTRACT':
                        ft.add_contract(text)
                    elif op == 'EXTERNAL-BODY':
                        external_body = True
                    elif op == 'RETURNS':
                        ft.name_return(rest.strip())
                    elif op == 'SIGNATURE':
                        signature = text
                    elif op == 'FIRST':
                        ft.add_first_stmt(text)
                    elif op == 'LAST':
                        ft.add_last_stmt(text)
                    elif op == 'LOOP':
                        m = re.match(r'(\d+)(?:\s+ITER=(\w+))?', rest)
                        ft.add_loop_invariant(int(m.group(1)), text, m.group(2))
                    elif op == 'LOOP-END':
                        ft.insert_at_loop_end(int(rest.strip()), text)
                    elif op == 'AFTER-LOOP':
                        ft.insert_after_loop(int(rest.strip()), text)
                    elif op in ('AFTER', 'BEFORE'):
                        m = re.match(r'`(.*)`(?:\s+#(\d+|\*))?\s*$', rest)
                        if not m:
                            raise ExtractError('bad anchor directive: %s' % head)
                        if m.group(2) == '*':
                            # every occurrence (at least one): a jump statement the code gains later gets the same hint
                            k = 1
                            while True:
                                try:
                                    (ft.insert_after if op == 'AFTER' else ft.insert_before)(m.group(1), text, k)
                                except ExtractError:
                                    if k == 1:
                                        raise
                                    break
                                k += 1
                        else:
                            occ = int(m.group(2) or 1)
                            (ft.insert_after if op == 'AFTER' else ft.insert_before)(m.group(1), text, occ)
                    elif op == 'CLOSURE':
                        ft.annotate_closure(int(rest.strip()), text.strip())
                        annotated_closures += 1
                    elif op == 'WRAP':
                        m = re.match(r'`(.*)`(?:\s+#(\d+))?\s+WITH\s+(\w+)\s*$', rest)
                        if not m:
                            raise ExtractError('bad WRAP directive: %s' % head)
                        ft.wrap(m.group(1), m.group(3), int(m.group(2) or 1))
                        self.assumptions.append('W1: `%s` in %s is evaluated through the trusted prelude function %s' % (m.group(1), kv['fn'], m.group(3)))
                    elif op == 'OUTLINE':
                        m = re.match(r'`(.*)`(?:\s+#(\d+))?\s+AS\s+(.*)$', rest)
                        if not m:
                            raise ExtractError('bad OUTLINE directive: %s' % head)
                        verb = ft.outline(m.group(1), m.group(3), int(m.group(2) or 1))
                        outlined.append((m.group(3), verb, text))
                    else:
                        raise ExtractError('unknown directive %s' % op)
                if is_block:
                    if not signature:
                        raise ExtractError('EXTRACT-BLOCK needs a SIGNATURE')
                    txt = signature + '\n{\n' + ft.render_block() + '\n}'
                else:
                    txt = ft.render()
                start = len(self.out_lines) + 1
                # outlined helper functions come first
                for call, verb, sig_text in outlined:
                    helper = '#[verifier::external_body]\n' + sig_text + '\n{ ' + verb + ' }'
                    self.assumptions.append('O1 outline (assumed contract, body is the verbatim expression): ' + norm(sig_text))
                    self.emit(helper, 'generated:outline')
                    start = len(self.out_lines) + 1
                if external_body:
                    txt = '#[verifier::external_body]\n' + txt
                    self.assumptions.append('ASSUMED contract (external_body, body extracted verbatim but not verified): %s in %s' % (kv['fn'], src.display))
                self.emit(txt, 'repo:%s:%s' % (src.display, kv['fn']))
                end = len(self.out_lines)
                if not is_block or True:
                    am, af = self._auto_callees(src, kv.get('in'), txt)
                    for t2 in am:
                        if kv.get('in'):
                            self.emit(t2, 'repo:%s:auto-extracted callee' % src.display)
                            self.extracted_text.append(t2)
                        else:
                            af.append(t2)
                    for t2 in af:
                        free_fns.append(t2)
                        self.extracted_text.append(t2)
                self.extracted_text.append(txt)
                man = ft.manifest()
                self.manifest.append(man)
                props = kv.get('props', '').split(',') if kv.get('props') else []
                self.obligations.append({
                    'name': kv.get('as', kv['fn']), 'fn': kv['fn'], 'kind': 'assumed-contract' if external_body else 'contract-on-real-code',
                    'props': props, 'lines': [start, end], 'file': src.display,
                    'container': kv.get('in'), 'sha256': man['sha256'], 'vname': kv.get('vname'),
                    'opaque_closures': max(0, total_closures - annotated_closures),
                })
                continue
            # plain template line
            if pending_props is not None:
                m = re.search(r'\bfn\s+(\w+)', ln)
                if m:
                    self.obligations.append({'name': m.group(1), 'fn': m.group(1), 'kind': 'lemma',
                                             'props': pending_props, 'lines': [len(self.out_lines) + 1, None]})
                    pending_props = None
            self.emit(ln, 'unit:%s:%d' % (os.path.basename(self.path), i + 1))
            i += 1
        if free_fns:
            if free_slot is None:
                raise ExtractError('the code now calls free function(s) the unit does not define and the unit has no //@ AUTO-FREE-FNS slot')
            self.out_lines[free_slot] = ' '.join(t.replace('\n', ' ') for t in free_fns) if False else ''
            # keep line numbering stable: splice as ONE physical line per function is not possible (comments) — append at the slot
            # by replacing the slot line with the joined text of all free functions on one logical block
            self.out_lines[free_slot] = '\n'.join(free_fns)
        # format! arms (M1)
        if fmt_slot is not None:
            arms, notes = self.format_arms()
            self.out_lines[fmt_slot] = arms
            self.manifest.append({'op': 'M1 format! arms', 'templates': notes})
        # close open lemma ranges: up to the brace that closes the lemma's body
        for ob in self.obligations:
            if ob['lines'][1] is None:
                start = ob['lines'][0]
                depth, seen, end = 0, False, start
                for k in range(start - 1, len(self.out_lines)):
                    ln = re.sub(r'//.*', '', self.out_lines[k])
                    depth += ln.count('{') - ln.count('}')
                    if '{' in ln:
                        seen = True
                    if seen and depth <= 0:
                        end = k + 1
                        break
                ob['lines'][1] = end
        for t in getattr(self, 'clone_types', []):
            self.emit('impl Clone for %s { fn clone(&self) -> Self { unreachable!() } }' % t, 'generated:external Clone impl')
        text = '\n'.join(self.out_lines)
        return text

    def format_arms(self):
        temps = []
        for txt in self.extracted_text:
            for lit in format_templates(txt):
                if lit not in temps:
                    temps.append(lit)
        arms, notes = [], []
        for lit in temps:
            pieces = split_format(lit)
            if pieces is None:
                raise ExtractError('format! template with a non-bare placeholder: %s' % lit)
            n = len(pieces) - 1
            params = ', '.join('$a%d:expr' % k for k in range(n))
            args = []
            for k, p in enumerate(pieces):
                if p != '':
                    args.append('"%s"' % p)
                if k < n:
                    args.append('&vdisp(&$a%d)' % k)
            if not args:
                args = ['""']
            call = 'vcat%d(%s)' % (len(args), ', '.join(args))
            arms.append('    (%s%s%s) => { %s };' % (lit, ', ' if n else '', params, call))
            notes.append({'template': lit, 'expansion': call})
        if not arms:
            return '', notes
        text = 'macro_rules! format { ' + ' '.join(a.strip() for a in arms) + ' }'
        return text, notes

    def line_map(self, out_line):
        """Map a line of the assembled unit to (obligation name or None, origin)."""
        ob = None
        for o in self.obligations:
            if o['lines'][0] <= out_line <= o['lines'][1]:
                ob = o['name']
        origin = self.origin[out_line - 1] if 0 < out_line <= len(self.origin) else '?'
        return ob, origin
