"""Run Verus on an assembled unit and classify its output."""

import json
import os
import re
import subprocess
import time

VERUS = os.environ.get('VERIF_VERUS', 'verus')

# error headlines that mean "an obligation was refuted/not discharged"
SEMANTIC = [
    'postcondition not satisfied', 'precondition not satisfied', 'invariant not satisfied',
    'assertion failed', 'possible arithmetic underflow/overflow', 'decreases not satisfied',
    'possible division by zero', 'possible bit shift underflow/overflow', 'unreachable',
    'recommendation not met', 'loop invariant', 'cannot prove termination',
    'possible truncation', 'possible negative', 'assert_by', 'assertion failure',
    'could not prove termination', 'invariant not satisfied before loop', 'invariant not satisfied at end of loop body',
    'failed this postcondition', 'index out of bounds', 'possible', 'termination',
]
# error headlines that mean "the tool could not decide"
TOOL = ['is not supported', 'not supported', 'Resource limit (rlimit) exceeded', 'rlimit', 'internal error',
        'The verifier does not yet support', 'unsupported', 'panicked', 'cannot find', 'mismatched types',
        'expected ', 'unresolved', 'no method named', 'not yet supported', 'error[E']

ERR_RE = re.compile(r'^(error|warning|note)(\[E\d+\])?: (.*)$')
LOC_RE = re.compile(r'^\s*--> (.*?):(\d+):(\d+)')


def parse_stderr(text):
    """-> list of {level, msg, line, col, body} for each error block."""
    blocks, cur = [], None
    for ln in text.split('\n'):
        m = ERR_RE.match(ln)
        if m:
            cur = {'level': m.group(1), 'code': m.group(2), 'msg': m.group(3), 'line': None, 'body': [ln], 'lines': []}
            blocks.append(cur)
            continue
        if cur is not None:
            cur['body'].append(ln)
            m2 = LOC_RE.match(ln)
            if m2 and cur['line'] is None:
                cur['line'] = int(m2.group(2))
            m3 = re.match(r'^\s*(\d+)\s+\|', ln)
            if m3:
                cur['lines'].append(int(m3.group(1)))
    for b in blocks:
        b['body'] = '\n'.join(b['body']).rstrip()
    return blocks


def classify(msg, code):
    if code:
        return 'tool'
    low = msg.lower()
    for t in TOOL:
        if t.lower() in low:
            return 'tool'
    for s in SEMANTIC:
        if s in low:
            return 'semantic'
    if low.startswith('aborting due to') or low.startswith('could not compile'):
        return 'summary'
    return 'tool'


def run(path, extra=None, timeout=1800, rlimit=None, threads=8):
    cmd = [VERUS, path, '--output-json', '--time', '--multiple-errors', '50', '--triggers-mode', 'silent',
           '--num-threads', str(threads), '--rlimit', '60']
    if rlimit:
        cmd += ['--rlimit', str(rlimit)]
    if extra:
        cmd += extra
    t0 = time.time()
    try:
        p = subprocess.run(cmd, stdout=subprocess.PIPE, stderr=subprocess.PIPE, timeout=timeout,
                           cwd=os.path.dirname(path), universal_newlines=True)
        out, err, rc = p.stdout, p.stderr, p.returncode
    except subprocess.TimeoutExpired as e:
        return {'timeout': True, 'cmd': cmd, 'wall_s': time.time() - t0, 'stdout': '', 'stderr': str(e), 'rc': None}
    res = {'timeout': False, 'cmd': cmd, 'wall_s': time.time() - t0, 'stdout': out, 'stderr': err, 'rc': rc}
    try:
        js = json.loads(out[out.index('{'):])
    except Exception:
        js = None
    res['json'] = js
    res['errors'] = [b for b in parse_stderr(err) if b['level'] == 'error']
    for b in res['errors']:
        b['class'] = classify(b['msg'], b['code'])
    funcs = {}
    smt_ms = 0
    if js:
        try:
            for mod in js['times-ms']['smt']['smt-run-module-times']:
                for fb in mod.get('function-breakdown', []):
                    nm = fb['function']
                    e = funcs.setdefault(nm, {'success': True, 'time_us': 0, 'rlimit': 0, 'mode': fb.get('mode:')})
                    e['success'] = e['success'] and fb['success']
                    e['time_us'] += fb.get('time-micros', 0)
                    e['rlimit'] += fb.get('rlimit', 0)
            smt_ms = js['times-ms']['smt']['total']
        except Exception:
            pass
    res['functions'] = funcs
    res['smt_ms'] = smt_ms
    res['verified'] = js['verification-results'].get('verified') if js and 'verification-results' in js else None
    res['nerrors'] = js['verification-results'].get('errors') if js and 'verification-results' in js else None
    res['vir_error'] = js['verification-results'].get('encountered-vir-error') if js and 'verification-results' in js else None
    return res
