#!/usr/bin/env python3
"""Regenerate MANIFEST.json from props.json (claimed properties) and na.json (not applicable)."""
import json
import os

HERE = os.path.dirname(os.path.abspath(__file__))
props = json.load(open(os.path.join(HERE, 'props.json')))
na = json.load(open(os.path.join(HERE, 'na.json')))
all_ids = [json.loads(l)['id'] for l in open(os.path.join(HERE, 'properties.jsonl'))]

checks = []
for pid in all_ids:
    if pid not in props:
        continue
    p = props[pid]
    checks.append({
        'property_id': pid,
        'quick_cmd': './check %s --tier quick' % pid,
        'thorough_cmd': './check %s --tier thorough' % pid,
        'evidence_file': 'evidence/%s.json' % pid,
        'replay_cmd_template': './check %s --replay {path}' % pid,
        'engine': 'verus',
        'level_claimed': {
            'category': p.get('level', 'proof'),
            'text': p['explanation'],
            'design_ref': 'DESIGN.md §5 ' + pid,
        },
        'level_note': 'Trusted: Verus/z3/rustc, the /verif extractor (manifest in the evidence), '
                      + '; '.join(p.get('trusted_base', [])) + '. Not checked (named in evidence.assumptions): '
                      + '; '.join(p.get('unchecked', [])),
        'technique': p.get('technique', 'contract-based deductive verification (Verus) of functions extracted mechanically from /repo on every run'),
    })

not_applicable = []
for pid in all_ids:
    if pid in props:
        continue
    not_applicable.append({'property_id': pid, 'reason': na.get(pid, 'no check built')})

manifest = {
    'version': 1,
    'setup_cmd': './setup.sh',
    'hooks': {
        'guard': 'thwbh_tauri_typegen_verif',
        'enable': 'RUSTFLAGS="--cfg thwbh_tauri_typegen_verif" (set by ./check when it builds /verif/native against /repo); the Verus units need no hooks',
        'baseline_off_cmd': 'cd /repo && cargo test --workspace --no-fail-fast --offline',
        'source_commits': ['b7e8baf'],
        'add_only': True,
    },
    'engines': [
        {'name': 'verus', 'path': '/usr/local/bin/verus', 'serves_properties': [c['property_id'] for c in checks],
         'kind_free_text': 'deductive verifier (SMT, z3) run on one assembled file per verification unit'},
    ],
    'checks': checks,
    'notes': 'exit 2 + "UNDECIDED" lines mean the verifier could not decide (lost anchor, unsupported construct, rlimit); '
             'that is never reported as a VIOLATION. Known findings: known_findings.json.',
    'not_applicable': not_applicable,
}
json.dump(manifest, open(os.path.join(HERE, 'MANIFEST.json'), 'w'), indent=1)
print('MANIFEST.json: %d checks, %d not applicable' % (len(checks), len(not_applicable)))
