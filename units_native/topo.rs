// BOUNDED witness search / stand-in for unit topo (C20, C09, C13): the real
// TypeDependencyGraph::{topological_sort_types, topological_visit, sorted_names, add_dependency},
// extracted from /repo on every run, executed on EVERY directed graph with at most N labelled nodes
// (self-loops included; N = 3 at depth <= 3, N = 4 otherwise) and every non-empty requested subset,
// each built twice (fresh hash seeds, different insertion order).  The postcondition checked is the
// property statement itself, computed independently (Floyd–Warshall reachability).
#![allow(dead_code, unused_variables, unused_mut, unused_imports)]
use std::collections::{HashMap, HashSet};
use std::path::PathBuf;

mod models { pub use super::*; }
mod serde_rename_rule { pub use super::RenameRule; }
//@ EXTRACT-TYPE crate=serde-rename-rule file=src/lib.rs enum=RenameRule derive=Debug,Clone,Copy
//@ EXTRACT-TYPE file=src/models.rs enum=TypeStructure derive=Debug,Clone
//@ EXTRACT-TYPE file=src/models.rs struct=LengthConstraint derive=Debug,Clone
//@ EXTRACT-TYPE file=src/models.rs struct=RangeConstraint derive=Debug,Clone
//@ EXTRACT-TYPE file=src/models.rs struct=ValidatorAttributes derive=Debug,Clone
//@ EXTRACT-TYPE file=src/models.rs struct=FieldInfo derive=Debug,Clone
//@ EXTRACT-TYPE file=src/models.rs struct=StructInfo derive=Debug,Clone
//@ EXTRACT-TYPE file=src/analysis/dependency_graph.rs struct=TypeDependencyGraph derive=Debug,Default

impl TypeDependencyGraph {
//@ EXTRACT-FN file=src/analysis/dependency_graph.rs in="impl TypeDependencyGraph" fn=add_dependency props=C20
//@ END
//@ EXTRACT-FN file=src/analysis/dependency_graph.rs in="impl TypeDependencyGraph" fn=topological_sort_types props=C20
//@ END
//@ EXTRACT-FN file=src/analysis/dependency_graph.rs in="impl TypeDependencyGraph" fn=sorted_names props=C20 optional=1
//@ END
//@ EXTRACT-FN file=src/analysis/dependency_graph.rs in="impl TypeDependencyGraph" fn=topological_visit props=C20
//@ END
}

// ------------------------------------------------------------------ harness (hand-written)
use std::panic::{catch_unwind, AssertUnwindSafe};

const NAMES: [&str; 4] = ["A", "B", "C", "D"];

fn build(n: usize, edges: u32, reverse: bool) -> TypeDependencyGraph {
    let mut g = TypeDependencyGraph::default();
    let mut list = Vec::new();
    for u in 0..n { for v in 0..n { if edges & (1 << (u * n + v)) != 0 { list.push((u, v)); } } }
    if reverse { list.reverse(); }
    for (u, v) in list { g.add_dependency(NAMES[u].to_string(), NAMES[v].to_string()); }
    g
}

fn reach(n: usize, edges: u32) -> Vec<Vec<bool>> {
    let mut r = vec![vec![false; n]; n];
    for u in 0..n { r[u][u] = true; for v in 0..n { if edges & (1 << (u * n + v)) != 0 { r[u][v] = true; } } }
    for k in 0..n { for i in 0..n { for j in 0..n { if r[i][k] && r[k][j] { r[i][j] = true; } } } }
    r
}

/// the property statement, checked on one result; None = holds
fn violates(n: usize, edges: u32, req: u32, res: &[String]) -> Option<String> {
    let r = reach(n, edges);
    let idx = |name: &str| NAMES.iter().position(|x| *x == name);
    let mut pos = vec![usize::MAX; n];
    for (i, s) in res.iter().enumerate() {
        match idx(s) {
            None => return Some(format!("unknown name {} in result", s)),
            Some(k) => { if pos[k] != usize::MAX { return Some(format!("{} returned twice", s)); } pos[k] = i; }
        }
    }
    for v in 0..n {
        let should = (0..n).any(|t| req & (1 << t) != 0 && r[t][v]);
        if should && pos[v] == usize::MAX { return Some(format!("{} is requested or a transitive dependency but missing", NAMES[v])); }
        if !should && pos[v] != usize::MAX { return Some(format!("{} returned but not reachable from the requested set", NAMES[v])); }
    }
    for u in 0..n { for v in 0..n {
        if u != v && edges & (1 << (u * n + v)) != 0 && pos[u] != usize::MAX && pos[v] != usize::MAX {
            // u depends on v: v first unless they are on a common cycle
            if pos[v] > pos[u] && !r[v][u] {
                return Some(format!("{} depends on {} (no common cycle) but comes first", NAMES[u], NAMES[v]));
            }
        }
    } }
    None
}

fn describe(n: usize, edges: u32, req: u32) -> String {
    let mut e = Vec::new();
    for u in 0..n { for v in 0..n { if edges & (1 << (u * n + v)) != 0 { e.push(format!("{}->{}", NAMES[u], NAMES[v])); } } }
    let rq: Vec<&str> = (0..n).filter(|t| req & (1 << t) != 0).map(|t| NAMES[t]).collect();
    format!("n={} edges={} requested={} [{} ; {}]", n, edges, req, e.join(","), rq.join(","))
}

fn run_one(n: usize, edges: u32, req: u32, fails: &mut Vec<(String, String, String)>, counts: &mut HashMap<String, u64>, outputs: &mut HashSet<String>) {
    let types: HashSet<String> = (0..n).filter(|t| req & (1 << t) != 0).map(|t| NAMES[t].to_string()).collect();
    let mut results = Vec::new();
    for rev in [false, true] {
        let g = build(n, edges, rev);
        let t2: HashSet<String> = if rev { let mut v: Vec<_> = types.iter().cloned().collect(); v.reverse(); v.into_iter().collect() } else { types.clone() };
        match catch_unwind(AssertUnwindSafe(|| g.topological_sort_types(&t2))) {
            Ok(res) => {
                if let Some(why) = violates(n, edges, req, &res) {
                    let c = counts.entry("topological_sort_types".into()).or_insert(0); *c += 1;
                    if *c <= 3 { fails.push(("topological_sort_types".into(), describe(n, edges, req), format!("{} (result {:?})", why, res))); }
                    // C09 speaks about acyclic graphs only
                    let r = reach(n, edges);
                    let acyclic = (0..n).all(|u| edges & (1 << (u * n + u)) == 0 && (0..n).all(|v| u == v || !(r[u][v] && r[v][u])));
                    if acyclic {
                        let c = counts.entry("acyclic_order".into()).or_insert(0); *c += 1;
                        if *c <= 3 { fails.push(("acyclic_order".into(), describe(n, edges, req), format!("{} (result {:?})", why, res))); }
                    }
                    return;
                }
                results.push(res);
            }
            Err(_) => {
                let c = counts.entry("topological_sort_types".into()).or_insert(0); *c += 1;
                if *c <= 3 { fails.push(("topological_sort_types".into(), describe(n, edges, req), "panic".into())); }
                return;
            }
        }
    }
    if results.len() == 2 && results[0] != results[1] {
        let c = counts.entry("determinism".into()).or_insert(0); *c += 1;
        if *c <= 3 { fails.push(("determinism".into(), describe(n, edges, req), format!("two constructions of the same graph gave {:?} and {:?}", results[0], results[1]))); }
    }
    if outputs.len() < 100_000 { outputs.insert(format!("{}:{:?}", describe(n, edges, req), results.get(0))); }
}

fn main() {
    std::panic::set_hook(Box::new(|_| {}));
    let depth: usize = std::env::var("VERIF_DEPTH").ok().and_then(|s| s.parse().ok()).unwrap_or(4);
    let mut fails = Vec::new();
    let mut counts: HashMap<String, u64> = HashMap::new();
    let mut outputs = HashSet::new();
    let mut evals: u64 = 0;
    if let Ok(inp) = std::env::var("VERIF_REPLAY_INPUT") {
        // "n=.. edges=.. requested=.. [...]"
        let get = |k: &str| inp.split_whitespace().find_map(|p| p.strip_prefix(k).and_then(|v| v.parse::<u32>().ok())).unwrap_or(0);
        run_one(get("n=") as usize, get("edges="), get("requested="), &mut fails, &mut counts, &mut outputs);
        evals = 1;
        if fails.is_empty() { println!("REPLAY-OK input={:?}", inp); }
    } else {
        let maxn = if depth <= 3 { 3 } else { 4 };
        for n in 1..=maxn {
            for edges in 0..(1u32 << (n * n)) {
                for req in 1..(1u32 << n) {
                    run_one(n, edges, req, &mut fails, &mut counts, &mut outputs);
                    evals += 1;
                }
            }
        }
    }
    println!("EVALS {}", evals);
    println!("DISTINCT {}", outputs.len());
    for (f, c) in &counts { println!("PANICCOUNT fn={} count={}", f, c); }
    for (f, input, msg) in &fails { println!("FAIL fn={} input={:?} msg={:?}", f, input, msg); }
    std::process::exit(if fails.is_empty() { 0 } else { 1 });
}
