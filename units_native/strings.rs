// BOUNDED stand-in for C15 (never counted as proved): the string-slicing functions named in the
// property's anchors, extracted mechanically from /repo on every run, compiled with rustc and
// executed on EVERY input of a stated finite family; a panic is a violation with a concrete input.
// Bound: skeleton ++ every sequence of at most VERIF_DEPTH (default 4 quick / 5 thorough) tokens
// of the alphabets below (which include 2-, 3- and 4-byte characters and multi-byte whitespace).
#![allow(dead_code, unused_variables, unused_mut, unused_imports, non_snake_case, clippy::all)]
use std::collections::{HashMap, HashSet};

mod models {
    pub use super::*;
}
mod serde_rename_rule {
    pub use super::RenameRule;
}

//@ EXTRACT-RAW crate=serde-rename-rule file=src/lib.rs item="enum RenameRule"
//@ EXTRACT-RAW crate=serde-rename-rule file=src/lib.rs item="static RENAME_RULES"
//@ EXTRACT-RAW crate=serde-rename-rule file=src/lib.rs item="impl RenameRule"
//@ EXTRACT-RAW crate=serde-rename-rule file=src/lib.rs item="enum ParseError"

//@ EXTRACT-TYPE file=src/models.rs enum=TypeStructure derive=Debug,Clone
//@ EXTRACT-TYPE file=src/models.rs struct=LengthConstraint derive=Debug,Clone
//@ EXTRACT-TYPE file=src/models.rs struct=RangeConstraint derive=Debug,Clone

pub struct ValidatorParser;
impl ValidatorParser {
//@ EXTRACT-FN file=src/analysis/validator_parser.rs in="impl ValidatorParser" fn=parse_length_from_tokens props=C15
//@ END
//@ EXTRACT-FN file=src/analysis/validator_parser.rs in="impl ValidatorParser" fn=parse_range_from_tokens props=C15
//@ END
//@ EXTRACT-FN file=src/analysis/validator_parser.rs in="impl ValidatorParser" fn=parse_message_from_content props=C15
//@ END
}

pub struct SerdeParser;
impl SerdeParser {
//@ EXTRACT-FN file=src/analysis/serde_parser.rs in="impl SerdeParser" fn=parse_rename_all props=C15
//@ END
//@ EXTRACT-FN file=src/analysis/serde_parser.rs in="impl SerdeParser" fn=parse_rename props=C15
//@ END
}

//@ EXTRACT-RAW file=src/analysis/type_resolver.rs item="struct TypeResolver"
//@ EXTRACT-RAW file=src/analysis/type_resolver.rs item="impl TypeResolver"

pub struct CommandAnalyzer {
    type_resolver: TypeResolver,
}
impl CommandAnalyzer {
//@ EXTRACT-FN file=src/analysis/mod.rs in="impl CommandAnalyzer" fn=extract_type_names props=C15
//@ END
//@ EXTRACT-FN file=src/analysis/mod.rs in="impl CommandAnalyzer" fn=extract_type_names_recursive props=C15
//@ END
}

//@ EXTRACT-FN file=src/generators/base/templates.rs fn=add_types_prefix props=C15
//@ END

// ------------------------------------------------------------------ harness (hand-written)
use std::panic::{catch_unwind, AssertUnwindSafe};

const TEXT_ALPHABET: &[&str] = &[
    "a", "1", "\"", "'", "\\", "=", ",", "(", ")", " ", "_", "ß", "€", "\u{2003}", "😀", "-",
];
const TYPE_ALPHABET: &[&str] = &[
    "Option<", "Vec<", "Result<", "HashMap<", "HashSet<", "BTreeMap<", "(", ")", ">", ",", ", ", "&", "&'a ",
    "&mut ", "String", "i32", "T", "ß", "€", " ", "[", "]",
];
const TS_ALPHABET: &[&str] = &[
    "string", "User", "[]", " | null", " | undefined", "Record<", "Map<", "[", "]", "types.", ">", ", ", "ß", "€", "(", ")",
];

struct Stats { evals: u64, distinct_outputs: HashSet<String>, panics: Vec<(String, String, String)>, panic_counts: HashMap<String, u64> }

fn enumerate(alphabet: &[&str], depth: usize, f: &mut dyn FnMut(&str)) {
    fn rec(alphabet: &[&str], depth: usize, cur: &mut String, f: &mut dyn FnMut(&str)) {
        f(cur);
        if depth == 0 { return; }
        for tok in alphabet {
            let n = cur.len();
            cur.push_str(tok);
            rec(alphabet, depth - 1, cur, f);
            cur.truncate(n);
        }
    }
    let mut s = String::new();
    rec(alphabet, depth, &mut s, f);
}

fn run_family(name: &str, skeletons: &[(&str, &str)], alphabet: &[&str], depth: usize, stats: &mut Stats,
              call: &dyn Fn(&str) -> String) {
    eprintln!("family {}", name);
    if let Ok(f) = std::env::var("VERIF_REPLAY_FN") {
        // replay of one recorded input against the freshly extracted code
        if f != name { return; }
        let input = std::env::var("VERIF_REPLAY_INPUT").unwrap_or_default();
        stats.evals += 1;
        match catch_unwind(AssertUnwindSafe(|| call(&input))) {
            Ok(out) => println!("REPLAY-OK fn={} input={:?} output={}", name, input, out),
            Err(_) => { stats.panic_counts.insert(name.to_string(), 1); stats.panics.push((name.to_string(), input, "panic (replayed)".to_string())); }
        }
        return;
    }
    for (pre, post) in skeletons {
        enumerate(alphabet, depth, &mut |mid: &str| {
            let input = format!("{}{}{}", pre, mid, post);
            stats.evals += 1;
            match catch_unwind(AssertUnwindSafe(|| call(&input))) {
                Ok(out) => { if stats.distinct_outputs.len() < 100_000 { stats.distinct_outputs.insert(format!("{}:{}", name, out)); } }
                Err(e) => {
                    let msg = if let Some(s) = e.downcast_ref::<String>() { s.clone() }
                              else if let Some(s) = e.downcast_ref::<&str>() { s.to_string() } else { "panic".to_string() };
                    let c = stats.panic_counts.entry(name.to_string()).or_insert(0); *c += 1; if *c <= 3 { stats.panics.push((name.to_string(), input.clone(), msg)); }
                }
            }
        });
    }
}

fn main() {
    std::panic::set_hook(Box::new(|_| {}));
    let depth: usize = std::env::var("VERIF_DEPTH").ok().and_then(|s| s.parse().ok()).unwrap_or(4);
    let mut st = Stats { evals: 0, distinct_outputs: HashSet::new(), panics: Vec::new(), panic_counts: HashMap::new() };
    let vp = ValidatorParser;
    let sp = SerdeParser;
    let tr = TypeResolver::new();
    let ca = CommandAnalyzer { type_resolver: TypeResolver::new() };

    run_family("parse_message_from_content", &[("message = \"", "\""), ("message='", "'"), ("", ""), ("message", "")],
               TEXT_ALPHABET, depth, &mut st, &|s| format!("{:?}", vp.parse_message_from_content(s)));
    run_family("parse_length_from_tokens", &[("length(min = 1, max = ", ")"), ("length(", ")"), ("length", ""), ("length(min = 1, message = \"", "\")")],
               TEXT_ALPHABET, depth, &mut st, &|s| format!("{:?}", vp.parse_length_from_tokens(s)));
    run_family("parse_range_from_tokens", &[("range(min = 1, max = ", ")"), ("range(", ")"), ("range", ""), ("range(max = 2, message = '", "')")],
               TEXT_ALPHABET, depth, &mut st, &|s| format!("{:?}", vp.parse_range_from_tokens(s)));
    run_family("parse_rename", &[("rename", ""), ("rename = \"", "\""), ("", "rename_all = \"camelCase\""), ("rename ", "_all = \"x\", rename = \"y\"")],
               TEXT_ALPHABET, depth, &mut st, &|s| format!("{:?}", sp.parse_rename(s)));
    run_family("parse_rename_all", &[("rename_all", ""), ("rename_all = \"", "\""), ("", "")],
               TEXT_ALPHABET, depth, &mut st, &|s| format!("{:?}", sp.parse_rename_all(s).map(|r| r.to_rename_all_str())));
    run_family("parse_type_structure", &[("", ""), ("Result<", ", String>"), ("(", ")"), ("HashMap<", ">")],
               TYPE_ALPHABET, depth, &mut st, &|s| format!("{:?}", tr.parse_type_structure(s)));
    run_family("extract_type_names", &[("", ""), ("Result<", ">"), ("(", ")")],
               TYPE_ALPHABET, depth, &mut st, &|s| { let mut h = HashSet::new(); ca.extract_type_names(s, &mut h); let mut v: Vec<_> = h.into_iter().collect(); v.sort(); format!("{:?}", v) });
    run_family("add_types_prefix", &[("", "")],
               TS_ALPHABET, depth, &mut st, &|s| add_types_prefix(s));

    println!("EVALS {}", st.evals);
    println!("DISTINCT {}", st.distinct_outputs.len());
    for (f, c) in &st.panic_counts { println!("PANICCOUNT fn={} count={}", f, c); }
    for (f, input, msg) in &st.panics {
        println!("FAIL fn={} input={:?} msg={:?}", f, input, msg);
    }
    std::process::exit(if st.panics.is_empty() { 0 } else { 1 });
}
