use serde::{Deserialize, Serialize};
#[derive(Serialize, Deserialize, Clone)]
pub struct Entry { pub id: u32 }
#[derive(Serialize, Deserialize, Clone)]
pub struct Page<T> { pub items: Vec<T>, pub total: u32 }
#[tauri::command]
pub fn first_page() -> Page<Entry> { todo!() }
