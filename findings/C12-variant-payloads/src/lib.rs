use serde::{Serialize, Deserialize};
use tauri::Emitter;
#[derive(Serialize, Deserialize, Clone)]
pub enum Status { Running, Failed { code: u32 }, Done(u32) }
#[derive(Serialize, Deserialize, Clone)]
pub struct Progress { pub pct: u32 }
impl Progress { pub fn new(pct: u32) -> Self { Progress { pct } } pub const ZERO: Progress = Progress { pct: 0 }; }
#[tauri::command]
pub fn go(app: tauri::AppHandle) {
    app.emit("unit-variant", Status::Running).ok();
    app.emit("struct-variant", Status::Failed { code: 1 }).ok();
    app.emit("tuple-variant", Status::Done(3)).ok();
    app.emit("ctor-call", Progress::new(5)).ok();
    app.emit("assoc-const", Progress::ZERO).ok();
    app.emit("qualified-variant", crate::Status::Running).ok();
    app.emit("default-call", Progress::default()).ok();
}
pub mod models { use serde::{Serialize, Deserialize}; #[derive(Serialize, Deserialize, Clone)] pub struct Ping; #[derive(Serialize, Deserialize, Clone)] pub struct Pong { pub n: u32 } }
pub const MAX_RETRIES: u32 = 3;
pub fn more(app: &tauri::AppHandle) {
    app.emit("unit-struct-path", models::Ping).ok();
    app.emit("struct-path", models::Pong { n: 1 }).ok();
    app.emit("tuple-lit", (1u32, "x")).ok();
    app.emit("const-ident", MAX_RETRIES).ok();
    app.emit("self-variant", Self::Running).ok();
}
pub fn via_let(app: &tauri::AppHandle) {
    let s = Status::Running; app.emit("let-unit-variant", s).ok();
    let f = Status::Failed { code: 2 }; app.emit("let-struct-variant", f).ok();
    let d = Status::Done(1); app.emit("let-tuple-variant", d).ok();
    let p = models::Pong { n: 2 }; app.emit("let-struct-path", p).ok();
    let z = Progress::ZERO; app.emit("let-assoc-const", z).ok();
}
pub fn via_let2(app: &tauri::AppHandle) {
    let v = Vec::new(); app.emit("let-vec-new", v).ok();
    let m = std::collections::HashMap::new(); app.emit("let-map-new", m).ok();
    let p = models::Pong::default(); app.emit("let-path-ctor", p).ok();
    let q = crate::models::load(); app.emit("let-fn-call", q).ok();
    let n = Progress::new(3); app.emit("let-ctor", n).ok();
    let s = String::new(); app.emit("let-string-new", s).ok();
}
