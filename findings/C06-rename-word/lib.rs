use serde::{Serialize, Deserialize};
#[derive(Serialize, Deserialize)]
#[serde(rename_all = "camelCase")]
pub struct Rec {
    #[serde(skip_serializing_if = "is_rename", alias = "y")]
    pub with_rename_word: Option<u32>,
    #[serde(rename(deserialize = "in_name", serialize = "outName"))]
    pub de_first: u32,
    #[serde(rename(deserialize = "only_in"))]
    pub de_only: u32,
}
fn is_rename(_: &Option<u32>) -> bool { false }
#[tauri::command]
pub fn take(r: Rec) -> u32 { 0 }
