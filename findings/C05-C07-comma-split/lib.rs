use serde::{Serialize, Deserialize};
use std::collections::HashMap;
#[derive(Serialize, Deserialize)] pub struct Item { pub x: i32 }
#[derive(Serialize, Deserialize)] pub struct Stock { pub n: u32 }
#[derive(Serialize, Deserialize)] pub struct Label { pub s: String }
#[derive(Serialize, Deserialize)] pub struct Shelf { pub slots: HashMap<String, (Label, u32)> }
#[tauri::command] pub fn lookup() -> Result<HashMap<String, Item>, String> { todo!() }
#[tauri::command] pub fn pair() -> Result<(Stock, u32), String> { todo!() }
#[tauri::command] pub fn shelf() -> Shelf { todo!() }
