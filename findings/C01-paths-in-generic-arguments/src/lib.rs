use serde::{Deserialize, Serialize};
#[derive(Serialize, Deserialize, Clone)]
pub struct Item { pub id: u32 }
#[tauri::command]
pub fn cell() -> Option<std::sync::Arc<std::sync::Mutex<Vec<Option<crate::Item>>>>> { None }
#[tauri::command]
pub fn wrapped(p: Wrapped<Vec<crate::Item>>) -> Wrapped<crate::models::Item> { todo!() }
