use serde::{Serialize, Deserialize};
use validator::Validate;

#[derive(Serialize, Deserialize, Validate)]
pub struct Form {
    #[validate(length(min = 1, max = 3))]
    pub tags: Vec<Option<String>>,
    #[validate(length(min = 2))]
    pub name: Option<String>,
}

#[tauri::command]
pub fn submit(form: Form) -> bool { true }
