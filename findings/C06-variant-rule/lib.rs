use serde::{Serialize, Deserialize};

#[derive(Serialize, Deserialize)]
#[serde(rename_all = "snake_case")]
pub enum Mode { FastPath, SlowPath, #[serde(rename = "x")] Other }

#[derive(Serialize, Deserialize)]
#[serde(rename_all = "snake_case")]
pub struct Cfg { pub someField: i32 }

#[tauri::command]
pub fn set_mode(mode: Mode, cfg: Cfg) -> bool { true }
