use serde::{Serialize, Deserialize};
pub mod models;
#[derive(Serialize, Deserialize, Clone)]
pub enum Mode { Fast, Slow }
#[derive(Serialize, Deserialize, Clone)]
pub struct Rec { pub p: std::path::PathBuf, pub m: crate::Mode, pub u: Vec<crate::models::User>, pub map: std::collections::HashMap<String, crate::models::OnlyByPath>, pub o: core::option::Option<self::Mode> }
#[tauri::command]
pub fn get_rec(u: crate::models::User) -> std::result::Result<Option<Rec>, String> { Ok(None) }
