use serde::{Serialize, Deserialize};
#[derive(Serialize, Deserialize, Clone)]
pub struct User { pub id: u32 }
#[derive(Serialize, Deserialize, Clone)]
pub struct OnlyByPath { pub id: u32 }
