use serde::{Deserialize, Serialize};
use std::marker::PhantomData;
use tauri::Emitter;

// serialises as a plain string
#[derive(Serialize, Deserialize)]
#[serde(transparent)]
pub struct Id<T> { pub raw: String, #[serde(skip)] pub marker: PhantomData<T> }

#[derive(Serialize, Deserialize)]
pub struct User { pub id: Id<User>, pub friends: Vec<Id<User>>, pub name: String }

#[tauri::command]
pub fn get_user(id: Id<User>, feed: tauri::ipc::Channel<Id<User>>) -> User { todo!() }

#[tauri::command]
pub fn first_id() -> Id<User> { todo!() }

pub fn created(app: tauri::AppHandle, id: Id<User>) {
    app.emit("user-created", id).unwrap();
}
