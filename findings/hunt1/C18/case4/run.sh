#!/bin/sh
# regenerates the bindings for this case and greps the offending lines
HERE="$(cd "$(dirname "$0")" && pwd)"
BIN="${BIN:-/tmp/hunt1_C18/target/debug/cargo-tauri-typegen}"
gen() { rm -rf "$HERE/out_$1"; "$BIN" tauri-typegen generate --project-path "$HERE" --output-path "$HERE/out_$1" --validation "$1" --force --config "$HERE/cfg.json" >/dev/null 2>&1; }
gen none; gen zod
echo "--- commands.ts / events.ts: the mapped TypeScript type gets a 'types.' prefix glued to its first token:"
grep -n -E "types\.(string|\"low\"|Date)" "$HERE/out_none/commands.ts" "$HERE/out_none/events.ts" "$HERE/out_zod/commands.ts" "$HERE/out_zod/events.ts"
echo "--- types.ts: Vec<Quantity> becomes 'string | number[]' (= string | (number[])), not (string | number)[]:"
grep -n "samples" "$HERE/out_none/types.ts"
