use serde::{Deserialize, Serialize};
use tauri::Emitter;

#[derive(Serialize, Deserialize)]
pub struct Reading { pub value: Quantity, pub samples: Vec<Quantity>, pub at: Timestamp }

#[tauri::command]
pub fn read_one() -> Quantity { todo!() }
#[tauri::command]
pub fn read_many() -> Vec<Quantity> { todo!() }
#[tauri::command]
pub fn read_opt() -> Option<Level> { todo!() }
#[tauri::command]
pub fn now() -> Result<Timestamp, String> { todo!() }
#[tauri::command]
pub fn reading(q: Quantity, l: Level, t: Timestamp) -> Reading { todo!() }

pub fn push(app: tauri::AppHandle, q: Quantity, l: Level, t: Timestamp) {
    app.emit("quantity", q).unwrap();
    app.emit("level", l).unwrap();
    app.emit("tick", t).unwrap();
}
