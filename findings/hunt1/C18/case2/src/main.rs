use serde::{Deserialize, Serialize};
use std::collections::{HashMap, HashSet};

#[derive(Serialize, Deserialize)]
pub struct Stats {
    pub seen: HashMap<String, Timestamp, ahash::RandomState>,
    pub set: HashSet<Timestamp, ahash::RandomState>,
    pub plain: HashMap<String, Timestamp>,
}

#[tauri::command]
pub fn stats(index: HashMap<u32, Timestamp, fxhash::FxBuildHasher>) -> Stats { todo!() }
