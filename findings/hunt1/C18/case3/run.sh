#!/bin/sh
# regenerates the bindings for this case and greps the offending lines
HERE="$(cd "$(dirname "$0")" && pwd)"
BIN="${BIN:-/tmp/hunt1_C18/target/debug/cargo-tauri-typegen}"
gen() { rm -rf "$HERE/out_$1"; "$BIN" tauri-typegen generate --project-path "$HERE" --output-path "$HERE/out_$1" --validation "$1" --force --config "$HERE/cfg.json" >/dev/null 2>&1; }
gen none; gen zod
echo "--- field, parameter, channel and return of chrono::NaiveDate are mapped to string:"
grep -n -E "day|ch:" "$HERE/out_none/types.ts"; grep -n "function book" "$HERE/out_none/commands.ts"
echo "--- but the event payloads spelled the same way are not:"
grep -n "NaiveDate" "$HERE/out_none/events.ts" "$HERE/out_zod/events.ts"
