use serde::{Deserialize, Serialize};
use tauri::Emitter;

#[derive(Serialize, Deserialize)]
pub struct Booking { pub day: chrono::NaiveDate }

#[tauri::command]
pub fn book(day: chrono::NaiveDate, ch: tauri::ipc::Channel<chrono::NaiveDate>) -> Option<chrono::NaiveDate> { todo!() }

#[tauri::command]
pub fn booking() -> Booking { todo!() }

pub fn announce(app: tauri::AppHandle, day: chrono::NaiveDate, days: Vec<chrono::NaiveDate>) {
    let maybe: Option<chrono::NaiveDate> = None;
    app.emit("day-booked", day).unwrap();
    app.emit("days-booked", &days).unwrap();
    app.emit("maybe-booked", maybe).unwrap();
}
