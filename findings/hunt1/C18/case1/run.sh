#!/bin/sh
# regenerates the bindings for this case and greps the offending lines
HERE="$(cd "$(dirname "$0")" && pwd)"
BIN="${BIN:-/tmp/hunt1_C18/target/debug/cargo-tauri-typegen}"
gen() { rm -rf "$HERE/out_$1"; "$BIN" tauri-typegen generate --project-path "$HERE" --output-path "$HERE/out_$1" --validation "$1" --force --config "$HERE/cfg.json" >/dev/null 2>&1; }
gen none; gen zod
echo "--- mapping u64->bigint, i64->string, Vec<u8>->Uint8Array is ignored (UserId->string works):"
grep -n -E "balance|history|delta|blob|owner|id:|progress" "$HERE/out_none/types.ts" "$HERE/out_zod/types.ts"
grep -n -E "function total|function onBalanceChanged|payload:" "$HERE/out_none/commands.ts" "$HERE/out_none/events.ts"
