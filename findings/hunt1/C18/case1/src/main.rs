use serde::{Deserialize, Serialize};
use tauri::Emitter;

#[derive(Serialize, Deserialize)]
pub struct Account {
    pub balance: u64,
    pub history: Vec<Option<u64>>,
    pub delta: i64,
    pub blob: Vec<u8>,
    pub owner: UserId,
}

#[tauri::command]
pub fn get_account(id: u64, progress: tauri::ipc::Channel<u64>) -> Account { todo!() }

#[tauri::command]
pub fn total() -> Result<u64, String> { todo!() }

pub fn notify(app: tauri::AppHandle, amount: u64) {
    app.emit("balance-changed", amount).unwrap();
}
