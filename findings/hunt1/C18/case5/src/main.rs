use serde::{Deserialize, Serialize};
use tauri::Emitter;

#[derive(Serialize, Deserialize)]
pub struct Holder { pub at: r#Timestamp, pub all: Vec<r#Timestamp> }

#[tauri::command]
pub fn watch(since: r#Timestamp, ticks: tauri::ipc::Channel<r#Timestamp>, batches: tauri::ipc::Channel<Vec<r#Timestamp>>) -> Holder { todo!() }

pub fn tick(app: tauri::AppHandle, now: r#Timestamp, all: Vec<r#Timestamp>) {
    app.emit("tick", now).unwrap();
    app.emit("ticks", all).unwrap();
}
