#!/bin/sh
# regenerates the bindings for this case and greps the offending lines
HERE="$(cd "$(dirname "$0")" && pwd)"
BIN="${BIN:-/tmp/hunt1_C18/target/debug/cargo-tauri-typegen}"
gen() { rm -rf "$HERE/out_$1"; "$BIN" tauri-typegen generate --project-path "$HERE" --output-path "$HERE/out_$1" --validation "$1" --force --config "$HERE/cfg.json" >/dev/null 2>&1; }
gen none; gen zod
echo "--- r#Timestamp is the type Timestamp; fields and parameters are mapped, channels and events are not:"
grep -n -E "Timestamp|^  (at|all|since):" "$HERE/out_none/types.ts" "$HERE/out_zod/types.ts"
grep -n "Timestamp" "$HERE/out_none/events.ts" "$HERE/out_zod/events.ts"
