#!/bin/bash
source "$(dirname "$0")/../common.sh"
rm -rf "$HERE/out"; gen none --force
grep -n "export async function\|listen<" "$HERE/out/events.ts"
