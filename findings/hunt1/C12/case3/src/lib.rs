use tauri::{AppHandle, Emitter};

#[tauri::command]
pub fn ping() -> String { "x".into() }

pub fn t1(app: AppHandle) {
    // accepted by Tauri (is_event_name_valid: char::is_alphanumeric or - / : _); U+00B2 is alphanumeric
    // for Rust but is not ID_Continue for ECMAScript
    app.emit("x²", 1).unwrap();
    app.emit("½-done", 1).unwrap();
    // string literals Tauri rejects at run time, still string-literal names for the generator
    app.emit("a.b", 1).unwrap();
    app.emit("a b", 1).unwrap();
    app.emit("it's", 1).unwrap();
    app.emit("back\\slash", 1).unwrap();
}
