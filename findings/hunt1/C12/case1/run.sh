#!/bin/bash
source "$(dirname "$0")/../common.sh"
rm -rf "$HERE/out"; gen none --force
echo "listeners generated (13 distinct event names are emitted in src/lib.rs):"
grep -n "listen<" "$HERE/out/events.ts"
for n in if-let-cond returned match-scrutinee binary-left binary-right assigned let-else if-cond while-cond negated borrowed in-tuple; do
  grep -q "'$n'" "$HERE/out/events.ts" || echo "MISSING listener for '$n'"
done
