use serde::Serialize;
use tauri::{AppHandle, Emitter};

#[derive(Serialize, Clone)]
pub struct Progress { pub pct: u32 }

#[tauri::command]
pub fn ping() -> String { "x".into() }

// control: a plain statement is found
pub fn plain(app: AppHandle, p: Progress) {
    app.emit("plain", p).unwrap();
}
// the usual way to handle the error of emit
pub fn f1(app: AppHandle, p: Progress) {
    if let Err(e) = app.emit("if-let-cond", p) {
        eprintln!("{e}");
    }
}
pub fn f2(app: AppHandle, p: Progress) -> tauri::Result<()> {
    return app.emit("returned", p);
}
pub fn f3(app: AppHandle, p: Progress) {
    match app.emit("match-scrutinee", p) {
        Ok(_) => {}
        Err(_) => {}
    }
}
pub fn f4(app: AppHandle, p: Progress) -> bool {
    let ok = app.emit("binary-left", p.clone()).is_ok() && app.emit("binary-right", p).is_ok();
    ok
}
pub fn f5(app: AppHandle, p: Progress) {
    let r;
    r = app.emit("assigned", p);
    let _ = r;
}
pub fn f6(app: AppHandle, p: Option<Progress>) {
    let Some(q) = p else {
        app.emit("let-else", 1).unwrap();
        return;
    };
    let _ = q;
}
pub fn f7(app: AppHandle, p: Progress) {
    if app.emit("if-cond", p.clone()).is_err() {}
    while app.emit("while-cond", p.clone()).is_err() {}
}
pub fn f8(app: AppHandle, p: Progress) {
    let _n = !app.emit("negated", p.clone()).is_ok();
    let _r = &app.emit("borrowed", p.clone());
    let _t = (app.emit("in-tuple", p.clone()), 1);
}
