#!/bin/bash
source "$(dirname "$0")/../common.sh"
rm -rf "$HERE/out"; gen none --force
grep -n "export async function" "$HERE/out/commands.ts" "$HERE/out/events.ts"
grep -n "export \*" "$HERE/out/index.ts"
