use tauri::{AppHandle, Emitter};

// a command whose name starts with on_ ...
#[tauri::command]
pub fn on_progress(app: AppHandle) -> String {
    // ... and an event whose listener gets the same identifier
    app.emit("progress", 1).unwrap();
    "x".into()
}
