use serde::Serialize;
use std::collections::{BTreeMap, HashMap};
use tauri::{AppHandle, Emitter};

#[derive(Serialize, Clone)]
pub struct Progress { pub pct: u32 }

#[tauri::command]
pub fn ping() -> String { "x".into() }

pub fn t1(app: AppHandle, v: HashMap<String, Progress>) { app.emit("map", v).unwrap(); }
pub fn t2(app: AppHandle, v: BTreeMap<u32, Vec<Progress>>) { app.emit("btree", &v).unwrap(); }
pub fn t3(app: AppHandle, v: (i32, Progress)) { app.emit("pair", v).unwrap(); }
pub fn t4(app: AppHandle, v: Vec<(i32, Progress)>) { app.emit("vec-tuple", v.clone()).unwrap(); }
pub fn t5(app: AppHandle, v: Option<HashMap<String, Progress>>) { app.emit("opt-map", v).unwrap(); }
pub fn t6(app: AppHandle, v: Vec<Option<Progress>>) { app.emit("vec-opt", v).unwrap(); }
// control
pub fn t7(app: AppHandle, v: Option<Vec<Progress>>) { app.emit("opt-vec", v).unwrap(); }
