#!/bin/bash
source "$(dirname "$0")/../common.sh"
for v in none zod; do
  rm -rf "$HERE/out"; gen $v --force
  echo "== validation $v"
  grep -n "^import" "$HERE/out/events.ts"
  grep -n "listen<" "$HERE/out/events.ts"
done
