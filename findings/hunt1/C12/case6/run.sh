#!/bin/bash
# the same project at two points in time (run1: one emit, run2: the emit removed), generated into ONE output directory
BIN=/tmp/hunt1_C12/target/debug/cargo-tauri-typegen
HERE="$(cd "$(dirname "$0")" && pwd)"
cd "$HERE"; rm -rf proj out; mkdir -p proj
cp -r run1/src proj/src
"$BIN" tauri-typegen generate --project-path proj --output-path out --validation none >/dev/null 2>&1
echo "after run 1: $(ls out | tr '\n' ' ')"
rm -rf proj/src; cp -r run2/src proj/src
"$BIN" tauri-typegen generate --project-path proj --output-path out --validation none >/dev/null 2>&1
echo "after run 2 (no emit left, cache): $(ls out | tr '\n' ' ')"
"$BIN" tauri-typegen generate --project-path proj --output-path out --validation none --force >/dev/null 2>&1
echo "after run 3 (no emit left, --force): $(ls out | tr '\n' ' ')"
grep -n "export \*" out/index.ts
grep -n "listen<" out/events.ts
