#!/bin/bash
source "$(dirname "$0")/../common.sh"
rm -rf "$HERE/out"; gen none --force
echo "expected: unknown for rebinding/for-pattern/iflet-binding/closure-param, types.Progress for inner-leak"
grep -n "listen<" "$HERE/out/events.ts"
