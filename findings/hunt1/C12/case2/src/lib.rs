use serde::Serialize;
use tauri::{AppHandle, Emitter};

#[derive(Serialize, Clone)]
pub struct Progress { pub pct: u32 }
#[derive(Serialize, Clone)]
pub struct Other { pub name: String }

#[tauri::command]
pub fn ping() -> String { "x".into() }

fn summarize(_p: &Progress) -> Vec<String> { vec![] }

// the payload is a Vec<String>; its type is not syntactically evident -> `unknown`
pub fn s1(app: AppHandle, p: Progress) {
    let p = summarize(&p);
    app.emit("rebinding", p).unwrap();
}
// the payload is the String bound by the pattern -> `unknown`
pub fn s2(app: AppHandle, p: Progress, items: Vec<String>) {
    for p in items {
        app.emit("for-pattern", p).unwrap();
    }
}
pub fn s3(app: AppHandle, p: Progress, o: Option<String>) {
    if let Some(p) = o {
        app.emit("iflet-binding", p).unwrap();
    }
}
pub fn s4(app: AppHandle, p: Progress, items: Vec<u8>) {
    items.iter().for_each(|p| {
        app.emit("closure-param", p).unwrap();
    });
}
// the payload is the parameter `p: Progress`; the binding of the inner block is out of scope
pub fn s5(app: AppHandle, p: Progress, c: bool) {
    if c {
        let p: Other = Other { name: String::new() };
        let _ = p;
    }
    app.emit("inner-leak", p).unwrap();
}
