use serde::{Deserialize, Serialize};

// serde never writes "Two" (serialising Sk::Two is an error) and does not accept it
// ("unknown variant `Two`, expected `One` or `Three`")
#[derive(Serialize, Deserialize)]
pub enum Sk {
    One,
    #[serde(skip)]
    Two,
    Three,
}

#[tauri::command]
pub fn get(s: Sk) -> Sk {
    s
}
