use serde::{Deserialize, Serialize};

// serde_json writes {"back\\slash":0,"café":0,"say \"hi\"":0,"raw\\n":0}
// i.e. the keys are  back\slash  café  say "hi"  raw\n (backslash + n)
#[derive(Serialize, Deserialize)]
pub struct Esc {
    #[serde(rename = "back\\slash")]
    pub a: u8,
    #[serde(rename = "caf\u{e9}")]
    pub b: u8,
    #[serde(rename = "say \"hi\"")]
    pub c: u8,
    #[serde(rename = r"raw\n")]
    pub d: u8,
}

// serde writes the strings  raw\n (backslash + n)  and  say "hi"
#[derive(Serialize, Deserialize)]
pub enum EscE {
    #[serde(rename = r"raw\n")]
    A,
    #[serde(rename = "say \"hi\"")]
    B,
}

#[tauri::command]
pub fn get(e: EscE) -> Esc {
    unimplemented!()
}
