use serde::{Deserialize, Serialize};

// cfg_attr(all(), ..) is always on: serde writes {"userName":"..","zzz":".."}
#[derive(Serialize, Deserialize)]
#[cfg_attr(all(), serde(rename_all = "camelCase"))]
pub struct Cfg {
    pub user_name: String,
    #[cfg_attr(all(), serde(rename = "zzz"))]
    pub other_name: String,
    #[cfg_attr(all(), serde(skip))]
    pub hidden_one: String,
}

#[derive(Serialize, Deserialize)]
#[cfg_attr(all(), serde(rename_all = "snake_case"))]
pub enum CfgE {
    FirstOne,
    #[cfg_attr(all(), serde(rename = "two"))]
    SecondOne,
}

#[tauri::command]
pub fn get(e: CfgE) -> Cfg {
    unimplemented!()
}
