use serde::{Deserialize, Serialize};

// serde writes {"user_name": ..}: only the *deserialize* side is renamed
#[derive(Serialize, Deserialize)]
#[serde(rename_all(deserialize = "camelCase"))]
pub struct DeOnly {
    pub user_name: String,
}

// serde writes {"userName": ..}: the serialize rule is camelCase
#[derive(Serialize, Deserialize)]
#[serde(rename_all(deserialize = "SCREAMING_SNAKE_CASE", serialize = "camelCase"))]
pub struct Both {
    pub user_name: String,
}

// serde writes "HighPriority" / "LowPriority"
#[derive(Serialize, Deserialize)]
#[serde(rename_all(deserialize = "lowercase"))]
pub enum Level {
    HighPriority,
    LowPriority,
}

#[tauri::command]
pub fn get(level: Level) -> (DeOnly, Both) {
    unimplemented!()
}
