#!/bin/sh
# regenerates the bindings (plain TypeScript and zod) and prints the offending lines
HERE=$(cd "$(dirname "$0")" && pwd)
BIN=/tmp/hunt1_C06/target/debug/cargo-tauri-typegen
for v in none zod; do
  rm -rf "$HERE/out_$v"
  "$BIN" tauri-typegen generate --project-path "$HERE" --output-path "$HERE/out_$v" --validation $v --force >/dev/null 2>&1
  echo "== --validation $v: $HERE/out_$v/types.ts"
  grep -n -E 'userName|USER_NAME|highpriority' "$HERE/out_$v/types.ts"
done
