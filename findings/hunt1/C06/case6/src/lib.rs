use serde::{Deserialize, Serialize};

pub mod legacy {
    use super::*;
    #[derive(Serialize, Deserialize)]
    pub struct Opts {
        pub user_name: String,
    }
}

pub mod v2 {
    use super::*;
    // the type the command uses: serde writes {"userName": ".."}
    #[derive(Serialize, Deserialize)]
    #[serde(rename_all = "camelCase")]
    pub struct Opts {
        pub user_name: String,
        #[serde(skip)]
        pub cache_dir: String,
    }
}

#[tauri::command]
pub fn get(o: v2::Opts) -> v2::Opts {
    o
}
