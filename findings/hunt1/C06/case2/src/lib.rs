use serde::{Deserialize, Serialize};

// No rename_all here: "rename_all" is the *value* of `tag` (the name of the tag key) and
// "UPPERCASE" is the container's own name. serde writes
// {"rename_all":"UPPERCASE","user_name":"..","is_admin":false}
#[derive(Serialize, Deserialize)]
#[serde(tag = "rename_all", rename = "UPPERCASE")]
pub struct Tagged {
    pub user_name: String,
    pub is_admin: bool,
}

// serde writes "FirstOne" / "SecondOne"
#[derive(Serialize, Deserialize)]
#[serde(expecting = "one of the rename_all style names", rename = "snake_case")]
pub enum Pick {
    FirstOne,
    SecondOne,
}

#[tauri::command]
pub fn get(pick: Pick) -> Tagged {
    unimplemented!()
}
