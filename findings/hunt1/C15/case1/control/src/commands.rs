use serde::{Deserialize, Serialize};

#[derive(Serialize, Deserialize)]
pub struct User {
    pub id: u32,
    pub name: String,
}

#[tauri::command]
pub fn get_user(id: u32) -> Result<User, String> {
    Ok(User { id, name: String::new() })
}
