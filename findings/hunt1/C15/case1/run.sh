#!/bin/bash
# case1: a flat chain of 3000 binary operators (or 3000 chained method calls) in ANY file of the tree
# makes the tool abort with a stack overflow (SIGABRT, exit 134) instead of exit 0 / exit 1.
here=$(cd "$(dirname "$0")" && pwd)
BIN=${BIN:-/tmp/hunt1_C15/target/debug/cargo-tauri-typegen}
run() { # $1 = project dir, $2 = label
  rm -rf "$1/out"
  "$BIN" tauri-typegen generate --project-path "$1/src" --output-path "$1/out" --validation none --force >"$1/stdout.txt" 2>"$1/stderr.txt"
  echo "[$2] exit status: $?"
  grep -n "overflowed its stack\|stack overflow" "$1/stderr.txt"
  echo "[$2] generated files: $(ls "$1/out" 2>/dev/null | tr '\n' ' ')"
}
# control: the same project without the deep file generates normally
rm -rf "$here/control"; mkdir -p "$here/control/src"; cp "$here/src/commands.rs" "$here/control/src/"
run "$here/control" "control (commands.rs only)"
run "$here" "commands.rs + table.rs (sum of 3000 literals)"
run "$here/variant_method_chain" "commands.rs + builder.rs (3000 chained calls)"
# rustc accepts the offending file:
if command -v rustc >/dev/null; then
  rustc --edition 2021 --crate-type lib -A warnings --emit metadata "$here/src/table.rs" -o "$here/table.rmeta" && echo "rustc: table.rs compiles"
  rustc --edition 2021 --crate-type lib -A warnings --emit metadata "$here/variant_method_chain/src/builder.rs" -o "$here/builder.rmeta" && echo "rustc: builder.rs compiles"
  rm -f "$here"/*.rmeta
fi
