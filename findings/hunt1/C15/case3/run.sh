#!/bin/bash
# case3: --visualize-deps writes every dependency path of length <= 3 from every type: the text grows with the
# 4th power of the number of mutually referencing types. 60 types (84 KB of Rust) -> 221 MB file, 20 s;
# 110 types (283 KB of Rust) -> the process dies with "memory allocation of ... bytes failed" (SIGABRT, 134)
# under a 2 GB address-space limit (without a limit it needs > 2.5 GB; ~250 types exceed any machine).
here=$(cd "$(dirname "$0")" && pwd)
BIN=${BIN:-/tmp/hunt1_C15/target/debug/cargo-tauri-typegen}
rm -rf "$here/out"
( time "$BIN" tauri-typegen generate --project-path "$here/src" --output-path "$here/out" --validation none --force --visualize-deps >"$here/stdout.txt" 2>"$here/stderr.txt"; echo "[60 types] exit status: $?" ) 2>&1 | grep -E "exit status|real"
ls -la "$here/out/dependency-graph.txt" "$here/src/lib.rs"
if [ "$FULL" = 1 ]; then   # ~4 minutes
  rm -rf "$here/big110/out"
  ( ulimit -v 2000000; "$BIN" tauri-typegen generate --project-path "$here/big110/src" --output-path "$here/big110/out" --validation none --force --visualize-deps >"$here/big110/stdout.txt" 2>"$here/big110/stderr.txt"; echo "[110 types, ulimit -v 2000000] exit status: $?" )
  grep -n "memory allocation" "$here/big110/stderr.txt"
  ls "$here/big110/out"
fi
