# usage: gen.py N DIR  -- N serde structs, each with one field per struct (a dense type graph)
import sys, os
n = int(sys.argv[1]); d = sys.argv[2]
os.makedirs(d + "/src", exist_ok=True)
s = "use serde::Serialize;\n"
for i in range(n):
    s += "#[derive(Serialize)]\npub struct T%d {\n" % i + "".join("    pub f%d: Vec<T%d>,\n" % (j, j) for j in range(n)) + "}\n"
s += "#[tauri::command]\npub fn get() -> T0 { todo!() }\n"
open(d + "/src/lib.rs", "w").write(s)
