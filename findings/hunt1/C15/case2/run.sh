#!/bin/bash
# case2: syntactically nested (but rustc-accepted) code makes syn::parse_file, which the tool calls on
# the 8 MiB main thread without any depth / stack guard, overflow the stack: SIGABRT (exit 134),
# nothing is generated for the other files either. Expected: exit 0 (or at worst the file is
# reported as unparsable and skipped).
here=$(cd "$(dirname "$0")" && pwd)
BIN=${BIN:-/tmp/hunt1_C15/target/debug/cargo-tauri-typegen}
run() { # $1 = project dir, $2 = label
  rm -rf "$1/out"
  "$BIN" tauri-typegen generate --project-path "$1/src" --output-path "$1/out" --validation none --force >"$1/stdout.txt" 2>"$1/stderr.txt"
  echo "[$2] exit status: $?"
  grep -n "overflowed its stack\|stack overflow" "$1/stderr.txt"
  echo "[$2] generated files: $(ls "$1/out" 2>/dev/null | tr '\n' ' ')"
  if command -v rustc >/dev/null; then
    rustc --edition 2021 --crate-type lib -A warnings --emit metadata "$1/src/nested.rs" -o "$1/nested.rmeta" >/dev/null 2>&1 && echo "[$2] rustc: nested.rs compiles"
    rm -f "$1/nested.rmeta"
  fi
}
run "$here" "1000 nested parentheses in an expression"
run "$here/variant_refs" "parameter type with 300 '&'"
run "$here/variant_modules" "300 nested inline modules"
run "$here/variant_closures" "1000 nested closures"
run "$here/variant_tuple_type" "type alias: 300 nested 1-tuples"
# text that is not Rust (does not compile): expected "Failed to parse ... skipped", commands.rs still generated
run "$here/variant_not_rust" "not Rust: 1000 nested parentheses around plain words"
# control: the same text only 50 deep is reported and skipped as the property demands
rm -rf "$here/control_not_rust"; mkdir -p "$here/control_not_rust/src"
cp "$here/src/commands.rs" "$here/control_not_rust/src/"; cp "$here/variant_not_rust/shallow_control.rs" "$here/control_not_rust/src/nested.rs"
run "$here/control_not_rust" "control: same text, 50 deep"
grep -n "Failed to parse" "$here/control_not_rust/stderr.txt"
