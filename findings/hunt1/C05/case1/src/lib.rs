use serde::{Deserialize, Serialize};
use tauri::{ipc::Channel, AppHandle, Emitter};

#[derive(Serialize, Deserialize, Clone)]
pub struct User {
    pub id: u32,
}

#[derive(Serialize, Deserialize, Clone)]
pub struct Team {
    pub members: Vec<Option<User>>,
    pub scores: Option<Vec<Option<u8>>>,
    pub pair: (Option<User>, Vec<Option<u8>>),
    pub grid: Vec<Vec<Option<u8>>>,
}

#[tauri::command]
pub fn team(app: AppHandle, wanted: Vec<Option<User>>, ch: Channel<Vec<Option<User>>>) -> Result<Vec<Option<User>>, String> {
    let payload: Vec<Option<User>> = vec![];
    app.emit("team-changed", payload).unwrap();
    todo!()
}

#[tauri::command]
pub fn get_team() -> Team {
    todo!()
}
