use serde::{Deserialize, Serialize};

#[derive(Serialize, Deserialize, Clone)]
pub struct User {
    pub id: u32,
}

#[derive(Serialize, Deserialize, Clone)]
pub struct Profile {
    pub nick: Option<String>,
    pub friends: Vec<Option<User>>,
    pub best: (Option<User>, u8),
}

#[tauri::command]
pub fn profile(filter: Vec<Option<u8>>) -> Profile {
    todo!()
}
