use serde::{Deserialize, Serialize};
use std::collections::{BTreeSet, HashSet};

#[derive(Serialize, Deserialize, Clone)]
pub struct Tags {
    pub names: HashSet<String>,
    pub ids: BTreeSet<u32>,
    pub nested: Vec<HashSet<String>>,
}

#[tauri::command]
pub fn tags(wanted: HashSet<String>) -> Tags {
    todo!()
}
