use serde::{Deserialize, Serialize};
use std::collections::hash_map::RandomState;
use std::collections::HashMap;

#[derive(Serialize, Deserialize, Clone)]
pub struct Counts {
    pub by_name: HashMap<String, i32, RandomState>,
}

#[tauri::command]
pub fn counts(seed: HashMap<String, i32, RandomState>) -> Result<HashMap<String, Vec<u8>, RandomState>, String> {
    todo!()
}

#[tauri::command]
pub fn get_counts() -> Counts {
    todo!()
}
