use serde::{Deserialize, Serialize};
use std::collections::HashMap;
use tauri::{AppHandle, Emitter};

#[derive(Serialize, Deserialize, Clone)]
pub struct User {
    pub id: u32,
}

#[tauri::command]
pub fn by_name() -> HashMap<String, User> {
    todo!()
}

#[tauri::command]
pub fn pair() -> Result<(User, u32), String> {
    todo!()
}

#[tauri::command]
pub fn maps() -> Vec<HashMap<String, User>> {
    todo!()
}

#[tauri::command]
pub fn one(app: AppHandle) -> User {
    let m: HashMap<String, Option<User>> = HashMap::new();
    app.emit("users-changed", m).unwrap();
    todo!()
}
