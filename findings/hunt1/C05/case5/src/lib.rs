use serde::{Deserialize, Serialize};
use std::collections::HashMap;

#[derive(Serialize, Deserialize, Clone)]
pub struct Job {
    pub outcome: Result<u32, String>,
    pub detail: Result<(u8, HashMap<String, u8>), String>,
    pub all: Vec<Result<u32, String>>,
}

#[tauri::command]
pub fn job() -> Job {
    todo!()
}
