#!/bin/sh
# regenerates the bindings for this case and prints the offending line(s)
cd "$(dirname "$0")"
BIN=/tmp/hunt1_C05/target/debug/cargo-tauri-typegen
rm -rf out
$BIN tauri-typegen generate --project-path . --output-path out --validation zod --force >/dev/null 2>&1
grep -n -E '^ +(outcome|detail|all):|z\.infer' out/types.ts
