#!/bin/bash
# Two modules each define a serde struct `Config` (legal Rust). Which one is written as
# `export interface Config` depends on the file names (files_*: a_admin.rs renamed to z_admin.rs)
# and on the order of the items inside a file (order_*: inline `mod v1` before / after the struct).
cd "$(dirname "$0")"; BIN=/tmp/hunt1_C13/target/debug/cargo-tauri-typegen
for v in files_before files_after order_before order_after; do
  rm -rf $v/out
  $BIN tauri-typegen generate --project-path $v --output-path $v/out --validation none --force >/dev/null 2>&1
  echo "== $v"; grep -A2 "^export interface Config" $v/out/types.ts
done
