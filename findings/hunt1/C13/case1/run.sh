#!/bin/bash
# Reordering two command functions swaps which event the listener `onUserLogin` is bound to.
cd "$(dirname "$0")"; BIN=/tmp/hunt1_C13/target/debug/cargo-tauri-typegen
for v in before after; do
  rm -rf $v/out
  $BIN tauri-typegen generate --project-path $v --output-path $v/out --validation none --force >/dev/null 2>&1
  echo "== $v (the two functions of src/lib.rs are in the other order in 'after')"
  grep -A3 "^export async function onUserLogin" $v/out/events.ts
done
