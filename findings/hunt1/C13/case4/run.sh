#!/bin/bash
# Moving a command to another legal place removes declarations:
#  mod_*  : start_job (with its emit) moved into an inline `pub mod jobs { .. }` of the same file
#  dir_*  : src/deploy.rs moved to src/target/mod.rs (a module named `target`)
#  local_items : a serde struct declared inside the command body; an emit inside an impl method
cd "$(dirname "$0")"; BIN=/tmp/hunt1_C13/target/debug/cargo-tauri-typegen
for v in mod_before mod_after dir_before dir_after local_items; do
  rm -rf $v/out
  $BIN tauri-typegen generate --project-path $v --output-path $v/out --validation none --force >/dev/null 2>&1
  echo "== $v: files: $(ls $v/out | tr '\n' ' ')"
  grep -h "^export" $v/out/types.ts $v/out/commands.ts $v/out/events.ts 2>/dev/null
done
