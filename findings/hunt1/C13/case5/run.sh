#!/bin/bash
# Files written next to the bindings are not reproducible.
cd "$(dirname "$0")"; BIN=/tmp/hunt1_C13/target/debug/cargo-tauri-typegen
echo "== (a) dependency-graph.txt / .dot of 5 identical runs (md5), types.ts without timestamp for comparison"
for i in 1 2 3 4 5; do
  rm -rf viz/out
  $BIN tauri-typegen generate --project-path viz --output-path viz/out --validation none --force --visualize-deps >/dev/null 2>&1
  echo "run $i: txt=$(md5sum < viz/out/dependency-graph.txt | cut -c1-8) dot=$(md5sum < viz/out/dependency-graph.dot | cut -c1-8) types.ts=$(grep -v 'Generated at' viz/out/types.ts | md5sum | cut -c1-8)"
done
sed -n '/Discovered Types/,/Dependency Chains/p' viz/out/dependency-graph.txt
echo "== (b) the text graph also carries the line number of the command (a comment line above moves it)"
grep "get_alpha (" viz/out/dependency-graph.txt
echo "== (c) --visualize-deps after a cached run adds nothing"
rm -rf viz/out2
$BIN tauri-typegen generate --project-path viz --output-path viz/out2 --validation none >/dev/null 2>&1
$BIN tauri-typegen generate --project-path viz --output-path viz/out2 --validation none --visualize-deps 2>&1 | grep "up to date"
ls -a viz/out2
echo "== (d) .typecache with four type mappings: 5 identical runs WITHOUT --force: config_hash changes from run to run, so 'up to date' is reported only by chance"
rm -rf mappings/out
for i in 1 2 3 4 5; do
  $BIN tauri-typegen generate --config mappings/typegen.json 2>&1 | grep -o "up to date\|Generation complete"
  grep config_hash mappings/out/.typecache
done
