#!/bin/bash
# Adding a file with a NON-serde item (#[derive(BorshSerialize, BorshDeserialize)] struct Settings)
# replaces the fields of the serde type Settings that the command returns.
cd "$(dirname "$0")"; BIN=/tmp/hunt1_C13/target/debug/cargo-tauri-typegen
for v in before after; do
  rm -rf $v/out
  $BIN tauri-typegen generate --project-path $v --output-path $v/out --validation none --force >/dev/null 2>&1
  echo "== $v"; grep -A3 "^export interface Settings" $v/out/types.ts
done
