#!/bin/bash
# step1/src emits 'job-started'; step2/src is the same project with the emit line removed.
# Generating step2 into the directory that holds step1's output leaves events.ts behind;
# generating step2 into a fresh directory does not write it.
cd "$(dirname "$0")"; BIN=/tmp/hunt1_C13/target/debug/cargo-tauri-typegen
rm -rf out fresh
$BIN tauri-typegen generate --project-path step1 --output-path out --validation none --force >/dev/null 2>&1
$BIN tauri-typegen generate --project-path step2 --output-path out --validation none --force >/dev/null 2>&1
$BIN tauri-typegen generate --project-path step2 --output-path fresh --validation none --force >/dev/null 2>&1
echo "== reused directory: $(ls out | tr '\n' ' ')"; echo "== fresh directory:  $(ls fresh | tr '\n' ' ')"
grep -n "listen<" out/events.ts; echo "-- index.ts of the reused directory:"; grep "^export" out/index.ts
