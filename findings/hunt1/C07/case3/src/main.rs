use serde::{Deserialize, Serialize};
#[cfg_attr(feature = "ipc", derive(Serialize, Deserialize))]
#[derive(Debug)]
pub struct Settings { pub theme: String }

#[derive(Debug, Serialize)]
pub struct Wrapper { pub settings: Settings }

#[tauri::command]
pub fn load() -> Wrapper { todo!() }
#[tauri::command]
pub fn save(settings: Settings) {}
fn main() {}
