#!/bin/bash
# Regenerates the bindings for this case and shows the offending lines.
HERE="$(cd "$(dirname "$0")" && pwd)"
BIN="${BIN:-/tmp/hunt1_C07/target/debug/cargo-tauri-typegen}"
V="${1:-none}"
rm -rf "$HERE/out"
"$BIN" tauri-typegen generate --project-path "$HERE" --output-path "$HERE/out" --validation "$V" --force >/dev/null 2>&1
echo "references to Settings (cfg_attr(feature, derive(Serialize, Deserialize))):"
grep -n "Settings" "$HERE/out/types.ts"
echo "declarations of Settings (expected 1): $(grep -c "export interface Settings\|export type Settings " "$HERE/out/types.ts")"
