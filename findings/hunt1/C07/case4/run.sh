#!/bin/bash
# Regenerates the bindings for this case and shows the offending lines.
HERE="$(cd "$(dirname "$0")" && pwd)"
BIN="${BIN:-/tmp/hunt1_C07/target/debug/cargo-tauri-typegen}"
V="${1:-none}"
rm -rf "$HERE/out"
"$BIN" tauri-typegen generate --project-path "$HERE" --output-path "$HERE/out" --validation "$V" --force 2>&1 | grep -i "bindings for"
echo "exported declarations in types.ts:"
grep -n "^export" "$HERE/out/types.ts"
echo "declarations of Note (expected 1, parameter and return type of commands::add_note): $(grep -c "export interface Note\|export type Note " "$HERE/out/types.ts")"
echo "add_note in commands.ts (expected present): $(grep -c "add_note" "$HERE/out/commands.ts")"
