use serde::{Deserialize, Serialize};
#[derive(Serialize, Deserialize)]
pub struct Note { pub text: String }
#[derive(Serialize, Deserialize)]
pub struct Top { pub n: u8 }
pub mod commands {
    use super::Note;
    #[tauri::command]
    pub fn add_note(note: Note) -> Note { note }
}
#[tauri::command]
pub fn top() -> Top { todo!() }
fn main() {}
