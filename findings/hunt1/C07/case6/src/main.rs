use borsh::BorshSerialize;
use serde::Serialize;

#[derive(Debug, Clone, BorshSerialize)]
pub struct Digest { pub bytes: Vec<u8>, pub algo: u8 }

impl serde::Serialize for Digest {
    fn serialize<S: serde::Serializer>(&self, s: S) -> Result<S::Ok, S::Error> { s.serialize_str("hex") }
}

#[derive(Serialize)]
pub struct FileInfo { pub name: String, pub digest: Digest }

#[tauri::command]
pub fn info() -> FileInfo { todo!() }
fn main() {}
