#!/bin/bash
# Regenerates the bindings for this case and shows the offending lines.
HERE="$(cd "$(dirname "$0")" && pwd)"
BIN="${BIN:-/tmp/hunt1_C07/target/debug/cargo-tauri-typegen}"
V="${1:-none}"
rm -rf "$HERE/out"
"$BIN" tauri-typegen generate --project-path "$HERE" --output-path "$HERE/out" --validation "$V" --force >/dev/null 2>&1
echo "Digest derives only borsh's BorshSerialize (serde::Serialize is a manual impl writing a string), yet it is declared from its fields:"
grep -n -A4 "export interface Digest\|export const DigestSchema" "$HERE/out/types.ts"
