use serde::{Deserialize, Serialize};
#[derive(Serialize, Deserialize)]
pub struct SaveParams { pub path: String, pub overwrite: bool }
#[tauri::command]
pub fn save(params: SaveParams) -> bool { todo!() }
fn main() {}
