#!/bin/bash
# Regenerates the bindings for this case and shows the offending lines.
HERE="$(cd "$(dirname "$0")" && pwd)"
BIN="${BIN:-/tmp/hunt1_C07/target/debug/cargo-tauri-typegen}"
V="${1:-none}"
rm -rf "$HERE/out"
"$BIN" tauri-typegen generate --project-path "$HERE" --output-path "$HERE/out" --validation "$V" --force >/dev/null 2>&1
echo "declarations of SaveParams in types.ts (expected exactly 1 for the struct; the command's parameter object needs another name):"
grep -n "export interface SaveParams\|export const SaveParamsSchema\|export type SaveParams " "$HERE/out/types.ts"
echo "count: $(grep -c "export interface SaveParams\|export type SaveParams " "$HERE/out/types.ts")"
