use serde::{Deserialize, Serialize};
#[derive(Serialize, Deserialize)]
pub struct Zone { pub offset: i32 }
#[derive(Serialize, Deserialize)]
pub struct Timestamp { pub secs: i64, pub zone: Zone }
#[derive(Serialize, Deserialize)]
pub struct Entry { pub at: Timestamp, pub text: String }
#[tauri::command]
pub fn entries() -> Vec<Entry> { todo!() }
fn main() {}
