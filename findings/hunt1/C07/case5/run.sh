#!/bin/bash
# Regenerates the bindings for this case and shows the offending lines.
HERE="$(cd "$(dirname "$0")" && pwd)"
BIN="${BIN:-/tmp/hunt1_C07/target/debug/cargo-tauri-typegen}"
V="${1:-none}"
rm -rf "$HERE/out"
"$BIN" tauri-typegen generate --project-path "$HERE" --output-path "$HERE/out" --validation "$V" --force --config "$HERE/cfg.json" >/dev/null 2>&1
echo "Timestamp is mapped to string, so Zone (only a field of Timestamp) is unreachable, yet it is declared:"
grep -n -A3 "export interface Zone\|export const ZoneSchema" "$HERE/out/types.ts"
echo "every mention of Zone in types.ts (only its own declaration):"
grep -n "Zone" "$HERE/out/types.ts"
grep -n "^  at:" "$HERE/out/types.ts"
