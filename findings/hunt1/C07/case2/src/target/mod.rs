use serde::{Deserialize, Serialize};
#[derive(Serialize, Deserialize)]
pub struct DeployTarget { pub host: String, pub port: u16 }
