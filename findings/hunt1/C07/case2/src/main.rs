mod target;
use serde::{Deserialize, Serialize};
use target::DeployTarget;

#[derive(Serialize, Deserialize)]
pub struct Plan { pub name: String, pub target: DeployTarget }

#[tauri::command]
pub fn get_plan() -> Plan { todo!() }
fn main() {}
