#!/bin/bash
# Regenerates the bindings for this case and shows the offending lines.
HERE="$(cd "$(dirname "$0")" && pwd)"
BIN="${BIN:-/tmp/hunt1_C07/target/debug/cargo-tauri-typegen}"
V="${1:-none}"
rm -rf "$HERE/out"
"$BIN" tauri-typegen generate --project-path "$HERE" --output-path "$HERE/out" --validation "$V" --force >/dev/null 2>&1
echo "reference to DeployTarget (defined in src/target/mod.rs):"
grep -n "DeployTarget" "$HERE/out/types.ts"
echo "declarations of DeployTarget (expected 1): $(grep -c "export interface DeployTarget\|export type DeployTarget " "$HERE/out/types.ts")"
