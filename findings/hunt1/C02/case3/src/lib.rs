use serde::{Deserialize, Serialize};

#[derive(Serialize, Deserialize)]
pub struct CreateUserParams {
    pub name: String,
    pub email: String,
}

#[derive(Serialize, Deserialize)]
pub struct User {
    pub id: u32,
    pub name: String,
}

#[tauri::command]
pub fn create_user(params: CreateUserParams) -> Result<User, String> {
    todo!()
}
