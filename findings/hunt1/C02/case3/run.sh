#!/bin/sh
# a project struct named <Command>Params collides with the parameter interface generated for that command
HERE=$(cd "$(dirname "$0")" && pwd)
BIN="$HERE/../../target/debug/cargo-tauri-typegen"
for v in none zod; do
  rm -rf "$HERE/out_$v"
  "$BIN" tauri-typegen generate --project-path "$HERE" --output-path "$HERE/out_$v" --validation $v --force >/dev/null 2>&1
  echo "== validation=$v: types.ts declares the same exported name more than once"
  grep -nE '^export .*CreateUserParams' "$HERE/out_$v/types.ts"
done
