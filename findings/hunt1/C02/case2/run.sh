#!/bin/sh
# a type mapping whose target is a TypeScript built-in object type (Date, Uint8Array) is looked up in the types namespace
HERE=$(cd "$(dirname "$0")" && pwd)
BIN="$HERE/../../target/debug/cargo-tauri-typegen"
for v in none zod; do
  rm -rf "$HERE/out_$v"
  "$BIN" tauri-typegen generate --config "$HERE/typegen.json" --project-path "$HERE" --output-path "$HERE/out_$v" --validation $v --force >/dev/null 2>&1
  echo "== validation=$v: offending lines"
  grep -nE 'types\.(Date|Uint8Array)' "$HERE/out_$v/commands.ts" "$HERE/out_$v/events.ts"
  echo "-- exports of types.ts (no Date, no Uint8Array):"
  grep -nE '^export' "$HERE/out_$v/types.ts"
done
