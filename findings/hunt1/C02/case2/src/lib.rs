use chrono::{DateTime, Utc};
use serde::{Deserialize, Serialize};

#[derive(Clone, Serialize, Deserialize)]
pub struct Doc {
    pub title: String,
    pub saved_at: DateTime<Utc>,
    pub body: Bytes,
}

#[tauri::command]
pub fn last_saved() -> Option<DateTime<Utc>> {
    None
}

#[tauri::command]
pub fn read_raw(path: String) -> Bytes {
    todo!()
}

#[tauri::command]
pub fn save(app: tauri::AppHandle, doc: Doc) -> Result<DateTime<Utc>, String> {
    let now: DateTime<Utc> = Utc::now();
    app.emit("saved", now).unwrap();
    let raw: Bytes = doc.body.clone();
    app.emit("raw-written", raw).unwrap();
    Ok(now)
}
