use serde::{Deserialize, Serialize};

#[derive(Clone, Serialize, Deserialize)]
pub struct BuildTarget {
    pub triple: String,
    pub arch: Arch,
}

#[derive(Clone, Serialize, Deserialize)]
pub enum Arch {
    X86_64,
    Aarch64,
}
