pub mod target;

use target::BuildTarget;

#[tauri::command]
pub fn list_targets() -> Vec<BuildTarget> {
    vec![]
}

#[tauri::command]
pub fn select_target(app: tauri::AppHandle, target: BuildTarget) {
    app.emit("target-selected", target).unwrap();
}
