#!/bin/sh
# the sources of a module called `target` (src/target/mod.rs) are skipped as build artefacts
HERE=$(cd "$(dirname "$0")" && pwd)
BIN="$HERE/../../target/debug/cargo-tauri-typegen"
for v in none zod; do
  rm -rf "$HERE/out_$v"
  "$BIN" tauri-typegen generate --project-path "$HERE" --output-path "$HERE/out_$v" --validation $v --force >/dev/null 2>&1
  echo "== validation=$v: references"
  grep -nE 'BuildTarget' "$HERE/out_$v/commands.ts" "$HERE/out_$v/events.ts" "$HERE/out_$v/types.ts" | grep -v '^\s*\*'
  echo "-- declarations of BuildTarget in types.ts (none):"
  grep -nE '^export (interface|type|const) BuildTarget' "$HERE/out_$v/types.ts" || echo "(none)"
done
