#!/bin/sh
# serde derives written through #[cfg_attr(.., derive(Serialize, Deserialize))] are not seen: the types are referenced but never declared
HERE=$(cd "$(dirname "$0")" && pwd)
BIN="$HERE/../../target/debug/cargo-tauri-typegen"
for v in none zod; do
  rm -rf "$HERE/out_$v"
  "$BIN" tauri-typegen generate --project-path "$HERE" --output-path "$HERE/out_$v" --validation $v --force >/dev/null 2>&1
  echo "== validation=$v: references"
  grep -nE 'types\.(Settings|Theme)\b|theme: Theme|ThemeSchema' "$HERE/out_$v/commands.ts" "$HERE/out_$v/events.ts" "$HERE/out_$v/types.ts"
  echo "-- declarations of Settings / Theme in types.ts (none):"
  grep -nE '^export (interface|type|const) (Settings|Theme)' "$HERE/out_$v/types.ts" || echo "(none)"
done
