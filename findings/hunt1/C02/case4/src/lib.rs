use serde::{Deserialize, Serialize};

#[cfg_attr(feature = "ipc", derive(Serialize, Deserialize))]
#[derive(Clone, Debug)]
pub struct Settings {
    pub dark_mode: bool,
    pub theme: Theme,
}

#[derive(Clone, Debug)]
#[cfg_attr(any(feature = "ipc", not(test)), derive(serde::Serialize, serde::Deserialize))]
pub enum Theme {
    Light,
    Dark,
}

#[tauri::command]
pub fn get_settings() -> Settings {
    todo!()
}

#[tauri::command]
pub fn set_theme(app: tauri::AppHandle, theme: Theme) {
    app.emit("theme-changed", theme).unwrap();
}
