use serde::{Deserialize, Serialize};
use std::collections::HashMap;

#[derive(Clone, Serialize, Deserialize)]
pub struct User {
    pub id: u32,
    pub name: String,
}

#[derive(Clone, Serialize, Deserialize)]
pub enum Role {
    Admin,
    Guest,
}

#[tauri::command]
pub fn users_by_name() -> Result<HashMap<String, User>, String> {
    Ok(HashMap::new())
}

#[tauri::command]
pub fn user_with_role(id: u32) -> (User, Role) {
    todo!()
}

#[tauri::command]
pub fn members() -> Option<Vec<(User, Role)>> {
    None
}

#[tauri::command]
pub fn broadcast(app: tauri::AppHandle) {
    let index: HashMap<String, User> = HashMap::new();
    app.emit("index-rebuilt", index).unwrap();
    let pair: (User, Role) = todo!();
    app.emit("role-assigned", pair).unwrap();
}
