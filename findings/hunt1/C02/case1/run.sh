#!/bin/sh
# compound types (maps, tuples) reach commands.ts / events.ts without the `types.` namespace
HERE=$(cd "$(dirname "$0")" && pwd)
BIN="$HERE/../../target/debug/cargo-tauri-typegen"
for v in none zod; do
  rm -rf "$HERE/out_$v"
  "$BIN" tauri-typegen generate --project-path "$HERE" --output-path "$HERE/out_$v" --validation $v --force >/dev/null 2>&1
  echo "== validation=$v: offending lines (User / Role are not in scope in these modules)"
  grep -nE 'Record<string, User>|\[User, Role\]' "$HERE/out_$v/commands.ts" "$HERE/out_$v/events.ts"
  echo "-- imports of the two modules:"
  grep -n '^import' "$HERE/out_$v/commands.ts" "$HERE/out_$v/events.ts"
done
