#!/bin/sh
# an enum variant that was imported (use Status::*) and emitted by its bare name is taken for a type
HERE=$(cd "$(dirname "$0")" && pwd)
BIN="$HERE/../../target/debug/cargo-tauri-typegen"
for v in none zod; do
  rm -rf "$HERE/out_$v"
  "$BIN" tauri-typegen generate --project-path "$HERE" --output-path "$HERE/out_$v" --validation $v --force >/dev/null 2>&1
  echo "== validation=$v: offending lines"
  grep -nE 'types\.(Running|Failed)' "$HERE/out_$v/events.ts"
  echo "-- exports of types.ts:"
  grep -nE '^export' "$HERE/out_$v/types.ts"
done
