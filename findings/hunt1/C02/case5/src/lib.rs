use serde::{Deserialize, Serialize};

#[derive(Clone, Serialize, Deserialize)]
pub enum Status {
    Idle,
    Running,
    Failed { code: i32 },
}

use Status::*;

#[tauri::command]
pub fn current_status() -> Status {
    Idle
}

#[tauri::command]
pub fn start(app: tauri::AppHandle) {
    app.emit("status", Running).unwrap();
    app.emit("status-failed", Failed { code: 2 }).unwrap();
}
