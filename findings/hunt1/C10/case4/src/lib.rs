use serde::{Deserialize, Serialize};
use std::collections::HashMap;

#[derive(Serialize, Deserialize)]
pub struct Cell {
    pub v: i32,
}

#[derive(Serialize, Deserialize)]
pub struct Grid {
    pub row: Vec<Option<Cell>>,
    pub rows: Vec<Vec<Option<Cell>>>,
    pub maybe_row: Option<Vec<Option<String>>>,
    pub pair: (Option<Cell>, Vec<Option<i32>>),
    pub by_name: HashMap<String, Vec<Option<Cell>>>,
}

#[tauri::command]
pub fn put_grid(grid: Grid, sparse: Vec<Option<u32>>) {
    let _ = (grid, sparse);
}
