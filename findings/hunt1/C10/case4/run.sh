#!/bin/sh
. "$(dirname "$0")/../run_common.sh"
echo "--- plain mode: 'T | null[]' is T or an array of nulls, not an array:"
grep -n "null\[\]" "$HERE/out_none/types.ts"
echo "--- zod mode: an array whose elements are optional:"
grep -n "row\|rows\|pair\|by_name\|sparse" "$HERE/out_zod/types.ts"
