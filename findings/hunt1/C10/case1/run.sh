#!/bin/sh
. "$(dirname "$0")/../run_common.sh"
echo "--- plain mode (arrays):"
grep -n "tags\|ids\|labels" "$HERE/out_none/types.ts"
echo "--- zod mode (z.set):"
grep -n "z\.set(" "$HERE/out_zod/types.ts"
