use serde::{Deserialize, Serialize};
use std::collections::{BTreeSet, HashSet};

#[derive(Serialize, Deserialize, Clone)]
pub struct Filter {
    pub tags: HashSet<String>,
    pub ids: BTreeSet<u32>,
}

#[tauri::command]
pub fn search(labels: HashSet<String>, filter: Filter) -> Filter {
    let _ = labels;
    filter
}
