#!/bin/sh
. "$(dirname "$0")/../run_common.sh"
echo "--- plain mode: Result<T, E> is written as T:"
grep -n "outcome\|history\|last" "$HERE/out_none/types.ts"
echo "--- zod mode: a union of T and { error: string }:"
grep -n "z\.union" "$HERE/out_zod/types.ts"
