use serde::{Deserialize, Serialize};

#[derive(Serialize, Deserialize)]
pub struct Step {
    pub name: String,
    pub outcome: Result<u32, String>,
    pub history: Vec<Result<String, String>>,
}

#[tauri::command]
pub fn record(step: Step, last: Result<bool, String>) -> Result<Step, String> {
    let _ = last;
    Ok(step)
}
