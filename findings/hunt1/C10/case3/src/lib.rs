use serde::{Deserialize, Serialize};

#[derive(Serialize, Deserialize)]
pub struct Address {
    pub street: String,
}

#[derive(Serialize, Deserialize)]
pub struct Profile {
    pub nickname: Option<String>,
    pub age: Option<u8>,
    pub newsletter: Option<bool>,
    pub address: Option<Address>,
}

#[tauri::command]
pub fn update_profile(profile: Profile, note: Option<String>, limit: Option<u32>) {
    let _ = (profile, note, limit);
}
