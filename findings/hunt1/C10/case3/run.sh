#!/bin/sh
. "$(dirname "$0")/../run_common.sh"
echo "--- plain mode declares '| null':"
grep -n "| null" "$HERE/out_none/types.ts"
echo "--- zod mode: .optional() only (undefined, never null); z.coerce turns null into 0 / false:"
grep -n "optional()" "$HERE/out_zod/types.ts"
