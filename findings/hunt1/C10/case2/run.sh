#!/bin/sh
. "$(dirname "$0")/../run_common.sh"
echo "--- plain mode (interfaces, order irrelevant):"
grep -n "children\|named\|entries\|sub" "$HERE/out_none/types.ts"
echo "--- zod mode: a const used inside its own initializer / before its declaration:"
grep -n "export const \(Tree\|Folder\|Entry\)Schema\|TreeSchema)\|FolderSchema)\|EntrySchema)" "$HERE/out_zod/types.ts"
grep -n "Circular" "$HERE/log_zod.txt"
