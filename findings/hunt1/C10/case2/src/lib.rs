use serde::{Deserialize, Serialize};
use std::collections::HashMap;

// direct recursion, no Box needed
#[derive(Serialize, Deserialize)]
pub struct Tree {
    pub label: String,
    pub children: Vec<Tree>,
    pub named: HashMap<String, Tree>,
}

// mutual recursion
#[derive(Serialize, Deserialize)]
pub struct Folder {
    pub entries: Vec<Entry>,
}
#[derive(Serialize, Deserialize)]
pub struct Entry {
    pub name: String,
    pub sub: Option<Vec<Folder>>,
}

#[tauri::command]
pub fn save(tree: Tree, root: Folder) {
    let _ = (tree, root);
}
