#!/bin/sh
. "$(dirname "$0")/../run_common.sh"
echo "--- plain mode:"
grep -n "Record<number" "$HERE/out_none/types.ts"
echo "--- zod mode: key schema z.number() (object keys are strings at run time):"
grep -n "z\.record(z\.number()" "$HERE/out_zod/types.ts"
