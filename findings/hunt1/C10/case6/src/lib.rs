use serde::{Deserialize, Serialize};
use std::collections::{BTreeMap, HashMap};

#[derive(Serialize, Deserialize)]
pub struct Scores {
    pub by_player: HashMap<u32, i64>,
    pub by_round: BTreeMap<i64, Vec<String>>,
}

#[tauri::command]
pub fn set_scores(scores: Scores, weights: HashMap<u8, f64>) {
    let _ = (scores, weights);
}
