// Channel<T> reached through a renamed import or a re-export: legal Rust, same type
use tauri::ipc as tipc;
pub use tauri::ipc::Channel;

#[tauri::command]
pub fn download(url: String, on_progress: tipc::Channel<u32>) {}

#[tauri::command]
pub fn watch(on_event: crate::Channel<String>) {}

// reference spelling the tool handles
#[tauri::command]
pub fn reference(url: String, on_progress: tauri::ipc::Channel<u32>) {}
