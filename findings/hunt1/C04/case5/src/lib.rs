// neither parameter is an Option: tauri rejects the call when the key is missing
#[tauri::command]
pub fn store(key: String, value: serde_json::Value, meta: Meta, unit: ()) {}
