#!/bin/sh
# regenerate both output modes for this case and show the offending lines
HERE=$(cd "$(dirname "$0")" && pwd)
BIN=${BIN:-/tmp/hunt1_C04/target/debug/cargo-tauri-typegen}
CFG=""
[ -f "$HERE/typegen.json" ] && CFG="--config $HERE/typegen.json"
for m in none zod; do
  rm -rf "$HERE/out_$m"
  "$BIN" tauri-typegen generate --project-path "$HERE" --output-path "$HERE/out_$m" --validation $m --force $CFG >/dev/null 2>&1 || echo "generation failed ($m)"
done
echo "--- types.ts (none): value, meta, unit are required keys"
grep -n -A6 "interface StoreParams" "$HERE/out_none/types.ts"
echo "--- types.ts (zod): z.custom(() => true) and z.void() accept undefined, so the keys may be left out"
grep -n -A3 "StoreParamsSchema = " "$HERE/out_zod/types.ts"
grep -n "StoreParams = " "$HERE/out_zod/types.ts"
grep -n "invoke<.*>('store'" "$HERE/out_zod/commands.ts"
