use tauri::ipc::{self, Request};

// the spelling of the tauri documentation: `use tauri::ipc::Request;`
#[tauri::command]
pub fn upload(request: Request<'_>, name: String) {}

#[tauri::command]
pub fn upload2(request: ipc::Request<'_>, name: String) {}

// reference spelling the tool handles
#[tauri::command]
pub fn upload3(request: tauri::ipc::Request<'_>, name: String) {}

// other injected arguments (CommandArg impls of tauri that take nothing from the payload)
#[tauri::command]
pub fn inspect(webview: tauri::Webview, scope: tauri::ipc::CommandScope<String>, name: String) {}
