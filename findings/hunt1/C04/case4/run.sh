#!/bin/sh
# regenerate both output modes for this case and show the offending lines
HERE=$(cd "$(dirname "$0")" && pwd)
BIN=${BIN:-/tmp/hunt1_C04/target/debug/cargo-tauri-typegen}
CFG=""
[ -f "$HERE/typegen.json" ] && CFG="--config $HERE/typegen.json"
for m in none zod; do
  rm -rf "$HERE/out_$m"
  "$BIN" tauri-typegen generate --project-path "$HERE" --output-path "$HERE/out_$m" --validation $m --force $CFG >/dev/null 2>&1 || echo "generation failed ($m)"
done
echo "--- types.ts (none): a 'request' key for the injected Request (Upload3Params is the reference)"
grep -n -A5 "interface UploadParams\|interface Upload2Params\|interface Upload3Params\|interface InspectParams" "$HERE/out_none/types.ts"
echo "--- types.ts (zod)"
grep -n -A2 "UploadParamsSchema = \|Upload2ParamsSchema = \|Upload3ParamsSchema = \|InspectParamsSchema = " "$HERE/out_zod/types.ts"
