#!/bin/sh
# regenerate both output modes for this case and show the offending lines
HERE=$(cd "$(dirname "$0")" && pwd)
BIN=${BIN:-/tmp/hunt1_C04/target/debug/cargo-tauri-typegen}
CFG=""
[ -f "$HERE/typegen.json" ] && CFG="--config $HERE/typegen.json"
for m in none zod; do
  rm -rf "$HERE/out_$m"
  "$BIN" tauri-typegen generate --project-path "$HERE" --output-path "$HERE/out_$m" --validation $m --force $CFG >/dev/null 2>&1 || echo "generation failed ($m)"
done
echo "--- types.ts (none): MoveToParams lacks point, RemoveParams does not exist"
grep -n -A4 "interface MoveToParams\|interface RemoveParams" "$HERE/out_none/types.ts"
echo "--- commands.ts (none)"
grep -n -B1 "invoke('move_to'\|invoke('remove'" "$HERE/out_none/commands.ts"
echo "--- types.ts (zod)"
grep -n -A3 "MoveToParamsSchema = \|RemoveParamsSchema = " "$HERE/out_zod/types.ts"
echo "--- commands.ts (zod)"
grep -n "invoke<.*>('move_to'\|invoke<.*>('remove'" "$HERE/out_zod/commands.ts"
