use serde::{Deserialize, Serialize};

#[derive(Serialize, Deserialize)]
pub struct Point { pub x: i32, pub y: i32 }

#[derive(Serialize, Deserialize)]
pub struct Id(pub u32);

// tauri's command macro accepts struct and tuple-struct patterns and names the argument after
// the type: key "point" / "id" (tauri-macros command/wrapper.rs, parse_arg)
#[tauri::command]
pub fn move_to(Point { x, y }: Point, speed: u32) {}

#[tauri::command]
pub fn remove(Id(id): Id) {}
