use tauri::ipc::Channel;

// rename_all = "snake_case": tauri applies heck::ToSnakeCase to the argument name,
// which drops leading / trailing underscores and collapses doubled ones
#[tauri::command(rename_all = "snake_case")]
pub fn open_window(_window_label: String, max__size: u32, on_event_: Channel<u32>) {}
