#!/bin/sh
# regenerate both output modes for this case and show the offending lines
HERE=$(cd "$(dirname "$0")" && pwd)
BIN=${BIN:-/tmp/hunt1_C04/target/debug/cargo-tauri-typegen}
CFG=""
[ -f "$HERE/typegen.json" ] && CFG="--config $HERE/typegen.json"
for m in none zod; do
  rm -rf "$HERE/out_$m"
  "$BIN" tauri-typegen generate --project-path "$HERE" --output-path "$HERE/out_$m" --validation $m --force $CFG >/dev/null 2>&1 || echo "generation failed ($m)"
done
echo "--- types.ts (none): tauri reads window_label, max_size, on_event"
grep -n -A6 "interface OpenWindowParams" "$HERE/out_none/types.ts"
echo "--- types.ts (zod)"
grep -n -A3 "OpenWindowParamsSchema = " "$HERE/out_zod/types.ts"
grep -n -A3 "interface OpenWindowParams" "$HERE/out_zod/types.ts"
grep -n "invoke<.*>('open_window'" "$HERE/out_zod/commands.ts"
