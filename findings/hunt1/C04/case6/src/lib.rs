// default argument case: tauri applies heck::ToLowerCamelCase
//   nom_élève -> nomÉlève, größe_änderung -> größeÄnderung, userID -> userId, HTTP_port -> httpPort
#[tauri::command]
pub fn inscrire(nom_élève: String, größe_änderung: u32) {}

#[allow(non_snake_case)]
#[tauri::command]
pub fn connect(userID: String, HTTP_port: u16) {}
