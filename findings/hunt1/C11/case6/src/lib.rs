use serde::{Deserialize, Serialize};
use validator::Validate;

#[derive(Serialize, Deserialize, Validate)]
pub struct Codes {
    #[validate(length(equal = 5))]
    pub code: String,
    #[validate(length(equal = 4, message = "exactly 4 digits"))]
    pub pin: String,
    #[validate(length(equal = 32))]
    pub digest: Vec<u8>,
    // min/max are rendered, equal is not
    #[validate(length(min = 1, max = 5, equal = 3))]
    pub mixed: String,
}

#[tauri::command]
pub fn codes(c: Codes) -> Codes { c }
