#!/bin/sh
# regenerates the bindings for this case and prints the offending lines
HERE=$(cd "$(dirname "$0")" && pwd)
ROOT=$(cd "$HERE/../.." && pwd)
rm -rf "$HERE/out"
"$ROOT/target/debug/cargo-tauri-typegen" tauri-typegen generate --project-path "$HERE" --output-path "$HERE/out" --validation zod --force >/dev/null 2>&1
grep -n -E '^  (code|pin|digest|mixed):' "$HERE/out/types.ts"
