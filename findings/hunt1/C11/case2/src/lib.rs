use serde::{Deserialize, Serialize};
use validator::Validate;

#[derive(Serialize, Deserialize, Validate)]
pub struct Limits {
    // 10 itself is NOT allowed
    #[validate(range(min = 1, exclusive_max = 10))]
    pub percent: u8,
    // neither 0.0 nor 10.0 is allowed
    #[validate(range(exclusive_min = 0.0, exclusive_max = 10.0))]
    pub ratio: f64,
    // 0 is NOT allowed
    #[validate(range(exclusive_min = 0))]
    pub positive: f64,
}

#[tauri::command]
pub fn limits(l: Limits) -> Limits { l }
