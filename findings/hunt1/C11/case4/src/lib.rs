use serde::{Deserialize, Serialize};
use validator::Validate;

#[derive(Serialize, Deserialize, Validate)]
pub struct RawMsgs {
    #[validate(length(min = 1, message = r"use C:\dir"))]
    pub f_raw: String,
    #[validate(length(min = 1, max = 3, message = r#"say "hi" (now)"#))]
    pub f_rawhash: String,
    // raw string with ONE double quote inside: message and BOTH bounds vanish
    #[validate(length(min = 1, max = 3, message = r#"max 3" wide"#))]
    pub f_rawquote: String,
    #[validate(length(message = r#"max 3" wide"#, min = 1, max = 3))]
    pub f_rawquote_first: String,
}

#[tauri::command]
pub fn raw_msgs(m: RawMsgs) -> RawMsgs { m }
