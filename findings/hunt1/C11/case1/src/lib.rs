use serde::{Deserialize, Serialize};
use validator::Validate;

fn validate_email_domain(_v: &str) -> Result<(), validator::ValidationError> { Ok(()) }

static url_pattern: once_cell::sync::Lazy<regex::Regex> =
    once_cell::sync::Lazy::new(|| regex::Regex::new("^/[a-z]+$").unwrap());

#[derive(Serialize, Deserialize, Validate)]
pub struct Signup {
    // a custom validator whose function name happens to contain "email"; no `email` validator declared
    #[validate(custom(function = validate_email_domain))]
    pub contact: String,
    // must_match against a sibling field called email_confirmation; no `email` validator declared
    #[validate(must_match(other = email_confirmation))]
    pub password: String,
    pub email_confirmation: String,
    // a regex validator whose static contains "url"; no `url` validator declared
    #[validate(regex(path = *url_pattern))]
    pub homepage: String,
    pub plain: String,
}

#[tauri::command]
pub fn signup(s: Signup) -> Signup { s }
