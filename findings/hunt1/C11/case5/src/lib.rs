use serde::{Deserialize, Serialize};
use std::collections::{BTreeMap, BTreeSet, HashMap, HashSet};
use validator::Validate;

// validator implements ValidateLength for HashSet, BTreeSet, HashMap, BTreeMap (and others)
#[derive(Serialize, Deserialize, Validate)]
pub struct Tagged {
    #[validate(length(min = 1, max = 3))]
    pub tags: HashSet<String>,
    #[validate(length(min = 1, max = 3, message = "1 to 3 labels"))]
    pub labels: HashMap<String, String>,
    #[validate(length(min = 1, max = 3))]
    pub sorted: BTreeSet<String>,
    #[validate(length(max = 3))]
    pub index: BTreeMap<String, u8>,
    // for comparison: the same constraint on a Vec is rendered
    #[validate(length(min = 1, max = 3))]
    pub list: Vec<String>,
}

#[tauri::command]
pub fn tagged(t: Tagged) -> Tagged { t }
