use serde::{Deserialize, Serialize};
use validator::Validate;

#[derive(Serialize, Deserialize, Validate)]
pub struct Msgs {
    // message is: line1 CR LF line2
    #[validate(length(min = 1, message = "line1\r\nline2"))]
    pub f_crlf: String,
    // message is: café ✓
    #[validate(length(min = 1, message = "caf\u{e9} \u{2713}"))]
    pub f_unicode: String,
    // message is: A-Z
    #[validate(length(min = 1, message = "\x41-\x5a"))]
    pub f_hex: String,
    // message is: nul NUL
    #[validate(length(min = 1, message = "nul\0"))]
    pub f_nul: String,
    // message is: "two lines" (string continuation: backslash-newline and the following indentation are not part of the value)
    #[validate(length(min = 1, message = "two \
        lines"))]
    pub f_cont: String,
}

#[tauri::command]
pub fn msgs(m: Msgs) -> Msgs { m }
