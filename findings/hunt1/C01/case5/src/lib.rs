// The usual way to give a command a desktop and a mobile implementation
#[cfg(desktop)]
#[tauri::command]
pub fn open_settings(section: String) -> bool {
    true
}

#[cfg(mobile)]
#[tauri::command]
pub fn open_settings(section: String) -> bool {
    false
}
