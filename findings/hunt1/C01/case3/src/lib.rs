use serde::{Deserialize, Serialize};

#[derive(Serialize, Deserialize)]
pub struct Settings {
    pub theme: ui::Theme,
    pub origin: geo::Point,
}

#[tauri::command]
pub fn get_settings() -> Settings {
    todo!()
}

#[tauri::command]
pub fn get_theme() -> ui::Theme {
    todo!()
}

#[tauri::command]
pub fn get_origin() -> Option<geo::Point> {
    todo!()
}

pub fn notify(app: tauri::AppHandle, theme: ui::Theme) {
    app.emit("theme-changed", theme).unwrap();
}
