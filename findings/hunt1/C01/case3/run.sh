#!/bin/sh
# Regenerates the bindings of this case in both output modes and prints the offending lines.
cd "$(dirname "$0")"
BIN=${BIN:-/tmp/hunt1_C01/target/debug/cargo-tauri-typegen}
NODE22=${NODE22:-/root/.nvm/versions/node/v22.22.2/bin/node}
rm -rf out_none out_zod
for mode in none zod; do
  "$BIN" tauri-typegen generate --config typegen.json --project-path . --output-path ./out_$mode --validation $mode --force >/dev/null 2>&1 || echo "generation failed ($mode)"
done
echo "--- offending lines"
grep -n -E "types\.['{]" out_none/*.ts out_zod/*.ts
# optional: syntax check with the type stripper built into node >= 22.13 (swc)
if [ -x "$NODE22" ]; then
  echo "--- parser verdict"
  "$NODE22" --no-warnings  ../tscheck.js out_none/*.ts out_zod/*.ts
fi
exit 0
