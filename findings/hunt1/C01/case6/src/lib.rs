// Tauri accepts an event name made of alphanumeric characters (char::is_alphanumeric, which
// includes '²'), '-', '/', ':' and '_'. "m²-changed" is therefore a legal event name.
// The other two names are refused by Tauri at run time only; the tool accepts them.
pub fn notify(app: tauri::AppHandle) {
    app.emit("m²-changed", 12.5).unwrap();
    app.emit("it's-done", true).unwrap();
    app.emit("dir\\changed", true).unwrap();
}

#[tauri::command]
pub fn ping() {}
