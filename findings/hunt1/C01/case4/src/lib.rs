use serde::{Deserialize, Serialize};
use tauri::ipc::Channel;

#[derive(Serialize, Deserialize, Clone)]
pub struct r#Update {
    pub done: u32,
}

// r#Update as a plain parameter / return type is written `Update` (command_parser unraws),
// as the message type of a channel and as the declared type of an emitted variable it is not.
#[tauri::command]
pub fn start(on_progress: Channel<r#Update>, first: r#Update) -> r#Update {
    todo!()
}

pub fn notify(app: tauri::AppHandle, payload: r#Update) {
    app.emit("updated", payload).unwrap();
}
