use serde::{Deserialize, Serialize};

// An enum that is serialised as the quote character itself
#[derive(Serialize, Deserialize)]
pub enum QuoteStyle {
    #[serde(rename = "\"")]
    Double,
    #[serde(rename = "'")]
    Single,
    #[serde(rename = "none")]
    None,
}

#[tauri::command]
pub fn quote_style() -> QuoteStyle {
    QuoteStyle::Double
}
