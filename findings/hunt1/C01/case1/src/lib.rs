use serde::{Deserialize, Serialize};
use std::collections::{HashMap, HashSet};
use std::hash::BuildHasherDefault;

// The standard collections take a hasher as an extra type argument; this is how projects
// that use ahash / fxhash spell their sets and maps.
#[derive(Serialize, Deserialize)]
pub struct Inventory {
    pub tags: HashSet<String, ahash::RandomState>,
    pub counts: HashMap<String, Vec<u8>, BuildHasherDefault<rustc_hash::FxHasher>>,
}

#[tauri::command]
pub fn get_inventory() -> Inventory {
    todo!()
}

#[tauri::command]
pub fn all_tags() -> HashSet<String, ahash::RandomState> {
    todo!()
}
