use serde::{Serialize, Deserialize};

/// A span of time with a label for the UI
#[derive(Serialize, Deserialize)]
pub struct Duration {
    pub label: String,
    pub inner: std::time::Duration,
}

#[tauri::command]
pub fn elapsed() -> Duration { todo!() }
