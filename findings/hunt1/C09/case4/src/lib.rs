use serde::{Serialize, Deserialize};
use std::collections::HashMap;

pub type SaveParams = HashMap<String, String>;

#[derive(Serialize, Deserialize)]
pub struct Job {
    pub name: String,
    pub params: SaveParams,
}

#[tauri::command]
pub fn save(job: Job) -> bool { todo!() }
