#!/bin/sh
# Regenerates the Zod bindings for this case and shows the offending line(s)
HERE=$(cd "$(dirname "$0")" && pwd)
BIN=${BIN:-/tmp/hunt1_C09/target/debug/cargo-tauri-typegen}
cd "$HERE"
rm -rf "$HERE/out"
"$BIN" tauri-typegen generate --project-path "$HERE" --output-path "$HERE/out" --validation zod  --force 2>&1 | grep -i "circular" 
echo "--- order of the schema constants in out/types.ts"
grep -n "export const" "$HERE/out/types.ts"
echo "--- offending line(s)"
grep -n -E 'params: SaveParamsSchema|export const SaveParamsSchema' "$HERE/out/types.ts"
if command -v node >/dev/null 2>&1; then
  echo "--- evaluating the module top to bottom with a stub z"
  node "$HERE/../eval.js" "$HERE/out/types.ts"
fi
exit 0
