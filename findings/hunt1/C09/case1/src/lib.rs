use serde::{Serialize, Deserialize};

/// A point in time as the backend stores it; `origin` says who produced it
#[derive(Serialize, Deserialize)]
pub struct Timestamp {
    pub origin: Origin,
    pub millis: u64,
}

/// `seen_at` comes from the protobuf layer and goes over the wire as an RFC 3339 string
#[derive(Serialize, Deserialize)]
pub struct Origin {
    pub host: String,
    pub seen_at: prost_types::Timestamp,
}

#[tauri::command]
pub fn now() -> Timestamp { todo!() }
