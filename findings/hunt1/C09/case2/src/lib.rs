use serde::{Serialize, Deserialize};

pub mod api {
    use serde::{Serialize, Deserialize};
    /// what the frontend gets: the stored item plus display data
    #[derive(Serialize, Deserialize)]
    pub struct Item {
        pub label: String,
        pub stored: crate::db::Item,
    }
}

pub mod db {
    use serde::{Serialize, Deserialize};
    #[derive(Serialize, Deserialize)]
    pub struct Item {
        pub id: u32,
    }
}

#[tauri::command]
pub fn load() -> api::Item { todo!() }
