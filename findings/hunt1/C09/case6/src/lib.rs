use serde::{Serialize, Deserialize};

#[derive(Serialize, Deserialize)]
pub struct Unit {
    pub symbol: String,
}

#[derive(Serialize, Deserialize)]
pub struct Amount {
    pub value: f64,
    // legal Rust: a parenthesised type (rustc only warns about the unneeded parentheses)
    pub unit: (Unit),
}

#[tauri::command]
pub fn total(unit: Unit) -> Amount { todo!() }
