use serde::{Serialize, Deserialize};

pub type UserId = u32;

#[derive(Serialize, Deserialize)]
pub struct User {
    pub id: UserId,
    pub name: String,
}

#[tauri::command]
pub fn get_user(id: UserId) -> User { todo!() }
