#!/bin/sh
# One and the same src-tauri/tauri.conf.json (paths as the README / lib.rs docs show them, relative to
# src-tauri): run from app/ (the CLI itself looks for src-tauri/tauri.conf.json there) the relative
# outputPath is resolved against cwd, not against the config file -> files land OUTSIDE the app.
cd "$(dirname "$0")" || exit 1
BIN="$PWD/../../target/debug/cargo-tauri-typegen"
rm -rf work && cp -r workspace work
(cd work/app/src-tauri && $BIN tauri-typegen generate --force >/dev/null; echo "run from app/src-tauri rc=$?")
(cd work/app           && $BIN tauri-typegen generate --force >/dev/null; echo "run from app rc=$?")
echo "--- all generated files:"
(cd work && find . -type f \( -name '*.ts' -o -name .typecache \) | sort)
echo "--- offending: files outside app/ :"
(cd work && find . -type f -path './src/generated/*' | sort)
