#!/bin/bash
# Output directory whose name is not valid UTF-8 (legal on Linux, e.g. Latin-1 "gén" = gen\xe9):
# the CLI converts the PathBuf with to_string_lossy() and writes into a DIFFERENT, newly created
# sibling directory "gen\xEF\xBF\xBD" (U+FFFD); the configured directory gets nothing.
cd "$(dirname "$0")" || exit 1
BIN=../../target/debug/cargo-tauri-typegen
rm -rf work && mkdir -p work
OUT=work/$'gen\xe9'
mkdir "$OUT" && echo keep > "$OUT/readme.txt"
$BIN tauri-typegen generate --project-path proj --output-path "$OUT" --validation none --force >/dev/null
echo "rc=$?"
echo "--- directories under work/ (configured: gen\\351):"
ls -a --quoting-style=escape work
echo "--- configured directory:"; ls -A --quoting-style=escape "$OUT"
echo "--- offending: files created in the sibling directory gen\\357\\277\\275:"
ls -A --quoting-style=escape work/$'gen\xef\xbf\xbd' | grep -E 'types.ts|commands.ts|index.ts|typecache'
