#!/bin/sh
# --output-path web/tmpdir/../generated : create_dir_all leaves the stray directory web/tmpdir behind,
# which is outside the output directory web/generated.
cd "$(dirname "$0")" || exit 1
BIN=../../target/debug/cargo-tauri-typegen
rm -rf work && mkdir -p work/web
$BIN tauri-typegen generate --project-path proj --output-path work/web/tmpdir/../generated --validation none --force >/dev/null
echo "rc=$?"
find work | sort
echo "--- offending: entry created outside work/web/generated:"
find work -name tmpdir
