#!/bin/sh
# Reserved-name entries in the output directory that are links: the tool writes THROUGH them.
cd "$(dirname "$0")" || exit 1
BIN=../../target/debug/cargo-tauri-typegen
rm -rf work && mkdir -p work/proj/src work/out work/shared
cp proj/src/lib.rs work/proj/src/lib.rs
echo "// hand-written shared file" > work/shared/api.ts
echo "precious cache" > work/shared/cache.txt
ln -s ../proj/src/lib.rs     work/out/types.ts      # symlink to a PROJECT SOURCE
ln    work/shared/api.ts     work/out/commands.ts   # hard link to a file outside the output dir
ln -s ../shared/brand_new.ts work/out/index.ts      # dangling symlink -> new file outside
ln -s ../shared/cache.txt    work/out/.typecache    # symlink to a file outside
echo "--- before"; sha256sum work/proj/src/lib.rs work/shared/*
$BIN tauri-typegen generate --project-path work/proj --output-path work/out --validation none --force >/dev/null
echo "rc=$?"
echo "--- after"; sha256sum work/proj/src/lib.rs work/shared/*
echo "--- offending content (project source and outside files now hold generated text):"
grep -H -m1 "Auto-generated" work/proj/src/lib.rs work/shared/api.ts work/shared/brand_new.ts
grep -H -m1 "combined_hash" work/shared/cache.txt
