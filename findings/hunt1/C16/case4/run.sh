#!/bin/sh
# init pointed at ./tauri.conf.json (bare name, in cwd) modifies <project-path>/tauri.conf.json instead.
cd "$(dirname "$0")" || exit 1
BIN="$PWD/../../target/debug/cargo-tauri-typegen"
rm -rf work && cp -r app work && cd work
echo "--- before"; sha256sum tauri.conf.json src-tauri/tauri.conf.json
$BIN tauri-typegen init --project-path src-tauri --generated-path gen --output tauri.conf.json | grep "Updated typegen configuration"
echo "--- after"; sha256sum tauri.conf.json src-tauri/tauri.conf.json
echo "--- offending: the file that was NOT pointed at now carries the plugin section:"
grep -n '"typegen"' src-tauri/tauri.conf.json
grep -c '"typegen"' tauri.conf.json
