#!/bin/sh
# output_path "" : FileWriter builds "<output>/<name>" = "/types.ts" (filesystem root!), while the
# cache uses Path::join = "./.typecache" (cwd). Run inside a throw-away chroot (needs root + python3)
# so that the real / is not touched. cwd inside the chroot is /work.
cd "$(dirname "$0")" || exit 1
BIN=../../target/debug/cargo-tauri-typegen
R="$PWD/_root"
rm -rf "$R" && mkdir -p "$R/bin" "$R/work"
cp "$BIN" "$R/bin/"
for l in $(ldd "$BIN" | grep -o '/[^ ]*'); do mkdir -p "$R$(dirname $l)"; cp "$l" "$R$l"; done
cp -r work/proj work/typegen.json "$R/work/"
python3 - "$R" <<'PY'
import os, sys
os.chroot(sys.argv[1]); os.chdir("/work")
os.execv("/bin/cargo-tauri-typegen", ["cargo-tauri-typegen", "tauri-typegen", "generate", "--config", "typegen.json", "--force"])
PY
echo "rc=$?"
echo "--- files created, relative to the chroot's / (cwd of the run was /work):"
(cd "$R" && find . -type f \( -name '*.ts' -o -name '.typecache' \) | sort)
echo "--- offending: generated files at the filesystem root, outside cwd:"
ls -la "$R/types.ts" "$R/commands.ts" "$R/index.ts"
