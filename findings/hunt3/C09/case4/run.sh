#!/bin/sh
# regenerates the Zod bindings of this case and shows the offending line(s)
here=$(cd "$(dirname "$0")" && pwd)
bin=/tmp/hunt3_C09/target/debug/cargo-tauri-typegen
rm -rf "$here/out"
"$bin" tauri-typegen generate --project-path "$here" --output-path "$here/out" --validation zod --force >/dev/null 2>"$here/stderr.txt"
echo "--- export const lines of out/types.ts (order of definition):"
grep -n "^export const" "$here/out/types.ts"
echo "--- offending reads:"
grep -nE '℘Schema|℮Schema' "$here/out/types.ts"

echo "--- evaluating out/types.ts (zod replaced by a stand-in):"
node "$here/../eval_types.js" "$here/out/types.ts"
