use serde::{Deserialize, Serialize};

// U+2118 SCRIPT CAPITAL P and U+212E ESTIMATED SYMBOL are XID_Start (legal first characters of a
// Rust identifier, rustc only warns `uncommon_codepoints`) but do not have the Alphabetic property
#[derive(Serialize, Deserialize)]
pub struct ℘ {
    pub v: f64,
}

#[derive(Serialize, Deserialize)]
pub struct ℮ {
    pub grams: f64,
}

#[derive(Serialize, Deserialize)]
pub struct Alpha {
    pub a: ℘,
    pub b: Vec<℮>,
}

#[tauri::command]
pub fn go(a: Alpha, w: ℘) -> Alpha {
    a
}
