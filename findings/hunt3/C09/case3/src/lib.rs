use serde::{Deserialize, Serialize};

// bitflags 2.x: the derive is written inside the macro invocation
bitflags::bitflags! {
    #[derive(Serialize, Deserialize, Clone, Copy)]
    pub struct Perms: u32 {
        const READ = 1;
        const WRITE = 2;
    }
}

// a project macro that stamps out serde types
macro_rules! id_type {
    ($name:ident) => {
        #[derive(Serialize, Deserialize)]
        pub struct $name {
            pub raw: u64,
        }
    };
}
id_type!(PluginId);

#[derive(Serialize, Deserialize)]
pub struct Plugin {
    pub id: PluginId,
    pub name: String,
    pub perms: Perms,
}

#[tauri::command]
pub fn install(plugin: Plugin) -> Plugin {
    plugin
}
