use serde::{Deserialize, Serialize};

pub trait Plugin {
    type Config;
}

pub struct Updater;

#[derive(Serialize, Deserialize)]
pub struct UpdaterOptions {
    pub endpoint: String,
}

impl Plugin for Updater {
    type Config = UpdaterOptions;
}

// the application's configuration file
#[derive(Serialize, Deserialize)]
pub struct Config {
    pub name: String,
    pub updater: Section,
}

// `<Updater as Plugin>::Config` is UpdaterOptions, not the struct Config above
#[derive(Serialize, Deserialize)]
pub struct Section {
    pub enabled: bool,
    pub options: <Updater as Plugin>::Config,
}

#[tauri::command]
pub fn load_config() -> Config {
    todo!()
}

#[tauri::command]
pub fn save_config(config: Config) {}
