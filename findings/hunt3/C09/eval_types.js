// Evaluates a generated Zod types.ts top to bottom with a stand-in for zod and reports the first
// ReferenceError. Type-only lines are dropped (they are erased by the TypeScript compiler).
const fs = require('fs');
const src = fs.readFileSync(process.argv[2], 'utf8');
const js = src
  .split('\n')
  .filter((l) => !/^export type |^import /.test(l))
  .join('\n')
  .replace(/^export interface [\s\S]*?^}/gm, '')
  .replace(/^export const /gm, 'const ');
const stub = () => new Proxy(function () {}, { get: (_t, k) => (k === Symbol.toPrimitive ? () => 'z' : stub()), apply: () => stub() });
try {
  new Function('z', js)(stub());
  console.log('evaluated without error');
} catch (e) {
  console.log(e.name + ': ' + e.message);
}
