use serde::{Deserialize, Serialize};
use serde_repr::{Deserialize_repr, Serialize_repr};
use serde_with::{DeserializeFromStr, SerializeDisplay};

// serde_repr: the usual way to send a C-like enum as its number
#[derive(Serialize_repr, Deserialize_repr, Clone, Copy)]
#[repr(u8)]
pub enum Level {
    Low = 1,
    High = 2,
}

// serde_with: serialised through Display / FromStr ("1.4")
#[derive(SerializeDisplay, DeserializeFromStr)]
pub struct Version {
    major: u8,
    minor: u8,
}

#[derive(Serialize, Deserialize)]
pub struct Task {
    pub title: String,
    pub level: Level,
    pub since: Version,
}

#[tauri::command]
pub fn add_task(task: Task, min_level: Level) -> Vec<Task> {
    vec![task]
}
