#!/bin/bash
# N small serde structs in ONE file, all reachable from a command: the run time grows with N^2,
# because resolve_types_lazily clones the AST of the whole file once per resolved type
# (ast_cache.get_cloned) and then walks all its items again to find the one type.
# Seen with the debug binary: 1000 types -> 3.5 s, 2000 -> 13.8 s, 4000 (a 240 KB file) -> 63.5 s.
cd "$(dirname "$0")"
B=${B:-/tmp/hunt3_C15/target/debug/cargo-tauri-typegen}
for n in ${SIZES:-500 1000 2000}; do
  python3 gen.py $n > project/src/main.rs
  rm -rf project/out
  s=$(date +%s.%N)
  timeout ${LIMIT:-300} $B tauri-typegen generate --project-path project/src --output-path project/out --validation none --force > project/log.txt 2>&1
  echo "$n types: exit status $? after $(echo "$(date +%s.%N) - $s" | bc) s; interfaces declared: $(grep -c 'export interface' project/out/types.ts)"
done
