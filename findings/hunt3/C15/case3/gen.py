import sys
n = int(sys.argv[1])
print('use serde::Serialize;')
print('#[derive(Serialize)] pub struct Root {' + ''.join(' pub f%d: T%d,' % (i, i) for i in range(n)) + ' }')
for i in range(n):
    print('#[derive(Serialize)] pub struct T%d { pub a: u8, pub b: String }' % i)
print('#[tauri::command] pub fn root() -> Root { todo!() }')
