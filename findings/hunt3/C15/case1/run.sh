#!/bin/bash
# 10000 nested parentheses inside an attribute. syn keeps attribute arguments as a raw token stream,
# so syn::parse_file succeeds (control: the same nesting inside #[foo(..)] generates normally).
# Inside #[serde(..)] the tool prints the tokens with to_string() (recursive Display) and aborts.
cd "$(dirname "$0")"
B=${B:-/tmp/hunt3_C15/target/debug/cargo-tauri-typegen}
for p in control project; do
  rm -rf $p/out
  $B tauri-typegen generate --project-path $p/src --output-path $p/out --validation none --force > $p/log.txt 2>&1
  echo "$p: exit status $? ; output files: $(ls $p/out 2>/dev/null | tr '\n' ' ')"
  grep -a 'overflowed its stack\|Failed to parse' $p/log.txt
done
