import sys
n = int(sys.argv[1])
print('#[tauri::command]\npub fn good(n: u8) -> u8 {\n    n\n}\n\n// one integer literal with %d digits (any expression position will do)\npub const BIG: u128 = %s;' % (n, '9' * n))
