#!/bin/bash
# One integer literal with N digits in any .rs file of the tree: the run time grows with N^2
# (syn converts every integer literal to a big number digit by digit inside syn::parse_file).
# Seen with the debug binary: 5000 -> 0.4 s, 10000 -> 1.4 s, 20000 -> 5.8 s, 40000 -> 22.5 s,
# 100000 digits (a 100 KB file) -> killed by `timeout 120`; release binary: 40000 -> 4.2 s,
# 80000 -> 14.2 s, 160000 -> 56.8 s.
cd "$(dirname "$0")"
B=${B:-/tmp/hunt3_C15/target/debug/cargo-tauri-typegen}
for n in ${SIZES:-5000 10000 20000 40000}; do
  python3 gen.py $n > project/src/main.rs
  rm -rf project/out
  s=$(date +%s.%N)
  timeout ${LIMIT:-120} $B tauri-typegen generate --project-path project/src --output-path project/out --validation none --force > project/log.txt 2>&1
  echo "$n digits: exit status $? after $(echo "$(date +%s.%N) - $s" | bc) s"
done
