use serde::{Deserialize, Serialize};
use std::f64::INFINITY; // deprecated alias of f64::INFINITY, still legal
use validator::Validate;

const INF: f64 = 1.0e9; // a project constant that merely happens to be called INF
const NAN: u32 = 7;     // "not a number" id; any spelling of nan / inf / infinity works

#[derive(Serialize, Deserialize, Validate)]
pub struct Limits {
    // validator >= 0.18 takes paths for min / max without quotes
    #[validate(range(min = 0.0, max = INFINITY))]
    pub ratio: f64,
    #[validate(range(min = -INF, max = INF, message = "out of range"))]
    pub offset: f64,
    #[validate(range(min = NAN))]
    pub id: u32,
}

#[tauri::command]
pub fn set_limits(limits: Limits) {}
