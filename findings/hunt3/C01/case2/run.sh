#!/bin/sh
# Regenerates the Zod bindings for case2 and greps the bounds that are printed as Rust prints
# a non-finite f64 (inf, -inf, NaN).
cd "$(dirname "$0")"
BIN=../../target/debug/cargo-tauri-typegen
rm -rf out
$BIN tauri-typegen generate --project-path . --output-path out --validation zod --force >/dev/null 2>&1
grep -n -E "\((-?inf|NaN)" out/types.ts
