#!/bin/sh
# Regenerates the bindings for case3 (plain mode) and greps the declaration of the project type
# `Record` next to the uses of TypeScript's utility type Record<K, V> in the same module.
cd "$(dirname "$0")"
BIN=../../target/debug/cargo-tauri-typegen
rm -rf out
$BIN tauri-typegen generate --project-path . --output-path out --validation none --force >/dev/null 2>&1
grep -n -E "interface Record|Record<" out/types.ts
