use serde::{Deserialize, Serialize};
use std::collections::HashMap;

/// A database record - an everyday name for a project type
#[derive(Serialize, Deserialize)]
pub struct Record {
    pub id: u32,
    pub tags: HashMap<String, String>,
}

#[derive(Serialize, Deserialize)]
pub struct Page {
    pub by_id: HashMap<String, u32>,
    pub first: Option<Record>,
}

#[tauri::command]
pub fn load(id: u32) -> Record { todo!() }

#[tauri::command]
pub fn page() -> Page { todo!() }
