// Legal Rust identifiers: `_` followed by characters that are XID_Continue but not XID_Start
// (an Arabic-Indic digit, the Catalan middle dot, a combining accent, the undertie).
// rustc accepts all four names (at most a non_snake_case / uncommon_codepoints warning).

#[tauri::command]
pub fn _٣(x: u8) -> u8 { x }

#[tauri::command]
pub fn _·a(x: u8) -> u8 { x }

#[tauri::command]
pub fn _‿b(x: u8) -> u8 { x }

#[tauri::command]
pub fn _́c(x: u8) -> u8 { x }
