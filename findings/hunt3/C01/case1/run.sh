#!/bin/sh
# Regenerates the bindings for case1 in both modes and greps the declarations whose names are no identifiers.
cd "$(dirname "$0")"
BIN=../../target/debug/cargo-tauri-typegen
for m in none zod; do
  rm -rf out_$m
  $BIN tauri-typegen generate --project-path . --output-path out_$m --validation $m --force >/dev/null 2>&1
done
echo "--- out_none/commands.ts"; grep -n "^export async function" out_none/commands.ts
echo "--- out_none/types.ts";    grep -n "^export interface" out_none/types.ts
echo "--- out_zod/types.ts";     grep -n -E "^export (const|type)" out_zod/types.ts
echo "--- out_zod/commands.ts";  grep -n "^export async function" out_zod/commands.ts
# node confirms that such a name is no identifier:
printf 'export async function \331\243(){ return 1 }\n' > out_none/_probe.mjs
node --check out_none/_probe.mjs 2>&1 | grep -m1 SyntaxError; rm -f out_none/_probe.mjs
