#!/bin/sh
cd "$(dirname "$0")"
BIN=../../target/debug/cargo-tauri-typegen
rm -rf out
$BIN tauri-typegen generate --project-path . --output-path out --validation zod --force >/dev/null 2>&1
grep -n -E '^  emoji:' out/types.ts
# z.string().max(n) compares the JavaScript .length (UTF-16 code units):
node -e 'const s="\u{1F600}"; console.log("JS length of one emoji:", s.length, " Rust chars().count(): 1")'
