use serde::{Deserialize, Serialize};
use validator::Validate;

#[derive(Serialize, Deserialize, Validate)]
pub struct Reaction {
    // validator counts characters (chars().count()): one emoji has length 1
    #[validate(length(min = 1, max = 1))]
    pub emoji: String,
}

#[tauri::command]
pub fn react(reaction: Reaction) {}
fn main() {}
