#!/bin/sh
# regenerates the bindings and shows the fields whose declared bounds are missing
cd "$(dirname "$0")"
BIN=../../target/debug/cargo-tauri-typegen
rm -rf out
$BIN tauri-typegen generate --project-path . --output-path out --validation zod --force >/dev/null 2>&1
grep -n -E '^  (control|name|level|tag):' out/types.ts
