use serde::{Deserialize, Serialize};
use validator::Validate;

mod checks {
    pub mod length { pub fn not_blank(_: &str) -> Result<(), validator::ValidationError> { Ok(()) } }
    pub mod range { pub fn even(_: &u32) -> Result<(), validator::ValidationError> { Ok(()) } }
}

#[derive(Serialize, Deserialize, Validate)]
pub struct Form {
    // control: same bounds, no second attribute
    #[validate(length(min = 1, max = 5))]
    pub control: String,
    // a custom validator that lives in a module called `length`, in an attribute of its own
    #[validate(length(min = 1, max = 5))]
    #[validate(custom(function = checks::length::not_blank))]
    pub name: String,
    #[validate(range(min = 1, max = 5))]
    #[validate(custom(function = crate::checks::range::even))]
    pub level: u32,
    // one attribute: the path comes first and another list stands between it and length(..)
    #[validate(custom(function = checks::length::not_blank), contains(pattern = "x"), length(max = 64))]
    pub tag: String,
}

#[tauri::command]
pub fn submit(form: Form) {}
fn main() {}
