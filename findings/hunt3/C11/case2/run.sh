#!/bin/sh
# src/main.rs has CRLF line endings (check: file src/main.rs). rustc replaces every CR LF of the
# source by LF before it reads tokens, so both messages are "line1\nline2" for the compiler.
cd "$(dirname "$0")"
BIN=../../target/debug/cargo-tauri-typegen
rm -rf out
$BIN tauri-typegen generate --project-path . --output-path out --validation zod --force >/dev/null 2>&1
grep -n -E '^  (raw|cooked):' out/types.ts
