use serde::{Deserialize, Serialize};
use validator::Validate;

#[derive(Serialize, Deserialize, Validate)]
pub struct Form {
    // raw string that spans two lines; this file has CRLF line endings
    #[validate(length(min = 1, message = r"line1
line2"))]
    pub raw: String,
    // control: ordinary string literal spanning two lines
    #[validate(length(min = 1, message = "line1
line2"))]
    pub cooked: String,
}

#[tauri::command]
pub fn submit(form: Form) {}
fn main() {}
