#![allow(overflowing_literals)]
use serde::{Deserialize, Serialize};
use validator::Validate;

#[derive(Serialize, Deserialize, Validate)]
pub struct Form {
    // 1e400 is beyond f64::MAX: with the lint allowed the literal has the value infinity
    #[validate(range(min = 0, max = 1e400))]
    pub upper: f64,
    #[validate(range(min = -1e400, max = 0))]
    pub lower: f64,
}

#[tauri::command]
pub fn submit(form: Form) {}
fn main() {}
