#!/bin/sh
cd "$(dirname "$0")"
BIN=../../target/debug/cargo-tauri-typegen
rm -rf out
$BIN tauri-typegen generate --project-path . --output-path out --validation zod --force >/dev/null 2>&1
grep -n -E '^  (control|name|level|outer_only):' out/types.ts
