use serde::{Deserialize, Serialize};
use validator::Validate;

#[derive(Serialize, Deserialize, Validate)]
pub struct Form {
    // control
    #[validate(length(min = 1, max = 5))]
    pub control: String,
    // attribute argument lists may be delimited by (), [] or {} (syn::MetaList, MacroDelimiter)
    #[validate(length[min = 1, max = 5])]
    pub name: String,
    #[validate{range{min = 1, max = 5}}]
    pub level: u8,
    #[validate[length(min = 1, max = 5)]]
    pub outer_only: String,
}

#[tauri::command]
pub fn submit(form: Form) {}
fn main() {}
