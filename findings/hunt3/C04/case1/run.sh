#!/bin/sh
# The app's command save_note(note_id, body, on_progress) is replaced by the same-named command of examples/demo.rs
cd "$(dirname "$0")"
BIN=/tmp/hunt3_C04/target/debug/cargo-tauri-typegen
for m in none zod; do
  rm -rf out_$m
  $BIN tauri-typegen generate --project-path . --output-path out_$m --validation $m --force >log_$m.txt 2>&1
done
echo "--- out_none/types.ts (expected keys noteId, body, onProgress)"
grep -A4 "interface SaveNoteParams" out_none/types.ts
echo "--- out_zod/types.ts"
grep -A3 "SaveNoteParamsSchema = " out_zod/types.ts
echo "--- out_zod/commands.ts"
grep -n "invoke<" out_zod/commands.ts
