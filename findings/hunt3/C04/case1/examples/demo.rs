// a stand-alone example binary of the same package (cargo run --example demo)
#[tauri::command]
fn save_note(text: String) {}
fn main() {}
