use std::option::Option as Maybe;

pub type OptName = Option<String>;

#[tauri::command]
pub fn rename_item(id: u32, new_name: OptName, position: Maybe<u32>, plain: Option<u32>) {}
