#!/bin/sh
# Option reached through a type alias / a renamed import: the key is declared required
cd "$(dirname "$0")"
BIN=/tmp/hunt3_C04/target/debug/cargo-tauri-typegen
for m in none zod; do
  rm -rf out_$m
  $BIN tauri-typegen generate --project-path . --output-path out_$m --validation $m --force >log_$m.txt 2>&1
done
grep -A7 "interface RenameItemParams" out_none/types.ts
grep -A3 "RenameItemParamsSchema = " out_zod/types.ts
