use serde::Deserialize;
#[derive(Deserialize)]
pub struct HTTPConfig { pub host: String, pub port: u16 }
#[derive(Deserialize)]
pub struct DBOptions { pub url: String }
#[derive(Deserialize)]
pub struct UserPoint { pub x: i32 }

#[tauri::command]
pub fn connect(HTTPConfig { host, port }: HTTPConfig, DBOptions { url }: DBOptions, UserPoint { x }: UserPoint) {}

#[tauri::command(rename_all = "snake_case")]
pub fn connect_snake(HTTPConfig { host, port }: HTTPConfig, DBOptions { url }: DBOptions, UserPoint { x }: UserPoint) {}
