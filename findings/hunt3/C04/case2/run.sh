#!/bin/sh
# Destructured arguments: Tauri derives the key from the struct name with heck (HTTPConfig -> httpConfig / http_config)
cd "$(dirname "$0")"
BIN=/tmp/hunt3_C04/target/debug/cargo-tauri-typegen
for m in none zod; do
  rm -rf out_$m
  $BIN tauri-typegen generate --project-path . --output-path out_$m --validation $m --force >log_$m.txt 2>&1
done
grep -n "hTTPConfig\|dBOptions\|h_t_t_p_config\|d_b_options" out_none/types.ts out_zod/types.ts
