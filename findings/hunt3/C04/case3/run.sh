#!/bin/sh
# Parenthesised parameter types: injected parameters get keys, the channel is no channel, the Option is required
cd "$(dirname "$0")"
BIN=/tmp/hunt3_C04/target/debug/cargo-tauri-typegen
for m in none zod; do
  rm -rf out_$m
  $BIN tauri-typegen generate --project-path . --output-path out_$m --validation $m --force >log_$m.txt 2>&1
done
grep -A8 "interface ParenTypesParams" out_none/types.ts
grep -A3 "ParenTypesParamsSchema = " out_zod/types.ts
grep -n "invoke<" out_zod/commands.ts
