use serde::Deserialize;
use tauri::{ipc::Channel, AppHandle, State};

#[derive(Deserialize)]
pub struct Db {
    pub n: u32,
}

// Parenthesised types are legal Rust (rustc only warns `unused_parens`); the command macro
// hands the type to CommandArg as it is, so (AppHandle) is AppHandle.
#[tauri::command]
pub fn paren_types(
    app: (AppHandle),
    db: (State<'_, Db>),
    on_event: (Channel<String>),
    label: (Option<String>),
    count: u8,
) {
}
