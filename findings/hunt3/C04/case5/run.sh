#!/bin/sh
# Parameter case configured in the typegen section of tauri.conf.json is not read; the same setting in a stand-alone file is
cd "$(dirname "$0")"
BIN=/tmp/hunt3_C04/target/debug/cargo-tauri-typegen
rm -rf out_conf out_standalone
$BIN tauri-typegen generate --force >log_conf.txt 2>&1
$BIN tauri-typegen generate --config standalone.json --force >log_standalone.txt 2>&1
echo "--- configured in src-tauri/tauri.conf.json (plugins.typegen)"
grep -A4 "interface SaveNoteParams" out_conf/types.ts
echo "--- configured in standalone.json (--config)"
grep -A4 "interface SaveNoteParams" out_standalone/types.ts
