#[tauri::command]
pub fn save_note(note_id: u32, on_progress: tauri::ipc::Channel<u32>) {}
