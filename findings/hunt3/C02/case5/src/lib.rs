use serde::{Deserialize, Serialize};

pub const WIDTH: usize = 8;

/// No type parameter, only a const parameter: the tool declares this struct as `Grid`
#[derive(Serialize, Deserialize, Clone)]
pub struct Grid<const W: usize> {
    pub cells: Vec<u8>,
}

#[derive(Serialize, Deserialize, Clone)]
pub struct Level {
    pub name: String,
    pub board: Grid<WIDTH>,   // named constant as const argument (legal without braces)
    pub preview: Grid<4>,     // literal: handled
}

#[tauri::command]
pub fn load_level(name: String) -> Level {
    Level { name, board: Grid { cells: vec![] }, preview: Grid { cells: vec![] } }
}

#[tauri::command]
pub fn empty_board() -> Grid<WIDTH> {
    Grid { cells: vec![] }
}

#[tauri::command]
pub fn save_board(board: Grid<WIDTH>) {
    let _ = board;
}
