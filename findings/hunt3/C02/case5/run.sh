#!/bin/bash
# A const-generic struct (declared, as `Grid`) used with a named constant as argument, Grid<WIDTH>:
# the constant is taken for a type argument and copied into the bindings
cd "$(dirname "$0")"
BIN=../../target/debug/cargo-tauri-typegen
for mode in none zod; do
  rm -rf out_$mode
  $BIN tauri-typegen generate --project-path . --output-path out_$mode --validation $mode --force > log_$mode.txt 2>&1
  echo "== --validation $mode"
  grep -n "WIDTH" out_$mode/types.ts out_$mode/commands.ts
  echo "-- declaration of Grid / WIDTH in types.ts:"
  grep -n "export.* Grid\|export.*WIDTH" out_$mode/types.ts
done
