#!/bin/bash
# struct named `Record` + any map field: the built-in Record<K, V> the generator writes is captured
# by the project's own `Record` declaration in types.ts
cd "$(dirname "$0")"
BIN=../../target/debug/cargo-tauri-typegen
for mode in none zod; do
  rm -rf out_$mode
  $BIN tauri-typegen generate --project-path . --output-path out_$mode --validation $mode --force > log_$mode.txt 2>&1
  echo "== --validation $mode: declarations of Record and uses of Record<..> in types.ts"
  grep -n "Record" out_$mode/types.ts
done
