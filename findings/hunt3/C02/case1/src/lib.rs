use serde::{Deserialize, Serialize};
use std::collections::HashMap;
use tauri::ipc::Channel;

/// A database record - a perfectly ordinary name for a project type
#[derive(Serialize, Deserialize, Clone)]
pub struct Record {
    pub id: u32,
    pub fields: HashMap<String, String>,
}

#[derive(Serialize, Deserialize)]
pub struct Stats {
    pub counts: HashMap<String, u32>,
}

#[tauri::command]
pub fn get_record(id: u32) -> Record {
    Record { id, fields: HashMap::new() }
}

#[tauri::command]
pub fn get_stats() -> Stats {
    Stats { counts: HashMap::new() }
}

#[tauri::command]
pub fn watch(on_batch: Channel<HashMap<String, Record>>) {
    let _ = on_batch;
}
