mod shared;   // src/shared      -> ../../shared_src     (symbolic link to a DIRECTORY, holds mod.rs)
mod profile;  // src/profile.rs  -> ../../profile_src.rs (symbolic link to a FILE)

use profile::Profile;
use shared::Settings;

#[tauri::command]
pub fn load_settings() -> Settings {
    Settings { theme: "dark".into() }
}

#[tauri::command]
pub fn load_profile() -> Profile {
    Profile { name: "x".into() }
}
