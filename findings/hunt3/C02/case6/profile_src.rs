use serde::{Deserialize, Serialize};

#[derive(Serialize, Deserialize)]
pub struct Profile {
    pub name: String,
}
