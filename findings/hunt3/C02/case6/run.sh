#!/bin/bash
# A module directory that is a symbolic link (code shared between two crates of a repository) is
# compiled by rustc like any other module, but the tool's directory walk does not descend into it:
# its serde types are referenced and never declared. A symbolic link to a single FILE is read.
cd "$(dirname "$0")"
BIN=../../target/debug/cargo-tauri-typegen
ln -sfn ../../shared_src app/src/shared
ln -sfn ../../profile_src.rs app/src/profile.rs
for mode in none zod; do
  rm -rf out_$mode
  $BIN tauri-typegen generate --project-path app --output-path out_$mode --validation $mode --force > log_$mode.txt 2>&1
  echo "== --validation $mode: references in commands.ts"
  grep -n "Promise<types\." out_$mode/commands.ts
  echo "-- exported by types.ts:"
  grep -n "^export" out_$mode/types.ts || echo "(no export at all)"
done
