#!/bin/bash
# Payloads written with the variants of std's Option / Result (None::<T>, Option::<T>::None,
# Option::Some(x), Result::<T, E>::Ok(x)): the variant or the std enum is taken for a project type
cd "$(dirname "$0")"
BIN=../../target/debug/cargo-tauri-typegen
for mode in none zod; do
  rm -rf out_$mode
  $BIN tauri-typegen generate --project-path . --output-path out_$mode --validation $mode --force > log_$mode.txt 2>&1
  echo "== --validation $mode: payload types in events.ts"
  grep -n "listen<" out_$mode/events.ts
  echo "-- exported by types.ts:"
  grep -n "^export" out_$mode/types.ts || echo "(no export at all)"
done
