use serde::{Deserialize, Serialize};
use tauri::{AppHandle, Emitter};

#[derive(Serialize, Deserialize, Clone)]
pub struct Selection {
    pub id: u32,
}

#[tauri::command]
pub fn clear_selection(app: AppHandle) {
    // "nothing selected": null on the wire
    let _ = app.emit("selection-cleared", None::<Selection>);
    let _ = app.emit("selection-reset", Option::<Selection>::None);
}

#[tauri::command]
pub fn select(app: AppHandle, id: u32) {
    let _ = app.emit("selection-changed", Option::Some(Selection { id }));
    let _ = app.emit("selection-checked", Result::<Selection, String>::Ok(Selection { id }));
}
