#!/bin/bash
# `let x = Default::default();` (or <T as Default>::default(), From::from(..)): the TRAIT in front of
# the constructor is taken for the type of x, and events.ts refers to types.Default / types.From
cd "$(dirname "$0")"
BIN=../../target/debug/cargo-tauri-typegen
for mode in none zod; do
  rm -rf out_$mode
  $BIN tauri-typegen generate --project-path . --output-path out_$mode --validation $mode --force > log_$mode.txt 2>&1
  echo "== --validation $mode: payload types in events.ts"
  grep -n "listen<" out_$mode/events.ts
  echo "-- exported by types.ts:"
  grep -n "^export" out_$mode/types.ts || echo "(no export at all)"
done
