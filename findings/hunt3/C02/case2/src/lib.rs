use serde::{Deserialize, Serialize};
use tauri::{AppHandle, Emitter};

#[derive(Serialize, Deserialize, Clone, Default)]
pub struct Stats {
    pub files: u32,
    pub bytes: u64,
}

impl From<u32> for Stats {
    fn from(files: u32) -> Self {
        Stats { files, bytes: 0 }
    }
}

fn collect(stats: &mut Stats) {
    stats.files += 1;
}

#[tauri::command]
pub fn scan(app: AppHandle) -> Result<(), String> {
    // the type of `stats` is fixed by the call below, so no annotation is needed
    let mut stats = Default::default();
    collect(&mut stats);
    app.emit("scan-finished", &stats).map_err(|e| e.to_string())?;

    let again = <Stats as Default>::default();
    app.emit("scan-reset", again).map_err(|e| e.to_string())?;

    let seeded = From::from(3u32);
    collect_ref(&seeded);
    app.emit("scan-seeded", seeded).map_err(|e| e.to_string())?;
    Ok(())
}

fn collect_ref(_: &Stats) {}
