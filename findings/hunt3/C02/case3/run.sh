#!/bin/bash
# A serde struct declared inside a nested block of a function (the async block handed to spawn,
# the closure handed to Builder::setup) is referenced as types.<Name> but never declared.
# Only structs declared as direct statements of the function body are found.
cd "$(dirname "$0")"
BIN=../../target/debug/cargo-tauri-typegen
for mode in none zod; do
  rm -rf out_$mode
  $BIN tauri-typegen generate --project-path . --output-path out_$mode --validation $mode --force > log_$mode.txt 2>&1
  echo "== --validation $mode: payload types in events.ts"
  grep -n "listen<" out_$mode/events.ts
  echo "-- exported by types.ts:"
  grep -n "^export" out_$mode/types.ts || echo "(no export at all)"
done
