use serde::Serialize;
use tauri::{AppHandle, Emitter};

#[tauri::command]
pub async fn start_ticker(app: AppHandle) -> Result<(), String> {
    // payload type declared where it is used: inside the spawned task
    tauri::async_runtime::spawn(async move {
        #[derive(Clone, Serialize)]
        struct Tick {
            n: u32,
        }
        let mut n = 0;
        loop {
            n += 1;
            let _ = app.emit("tick", Tick { n });
        }
    });
    Ok(())
}

pub fn run() {
    tauri::Builder::default()
        .setup(|app| {
            #[derive(Clone, Serialize)]
            struct Ready {
                version: String,
            }
            let app = app.handle().clone();
            app.emit("ready", Ready { version: "1.0".into() })?;
            Ok(())
        })
        .invoke_handler(tauri::generate_handler![start_ticker])
        .run(tauri::generate_context!())
        .expect("error while running tauri application");
}

#[tauri::command]
pub fn top_level_of_body(app: AppHandle) {
    // for comparison: declared as a statement of the function body itself - this one IS declared
    #[derive(Clone, Serialize)]
    struct Plain {
        ok: bool,
    }
    let _ = app.emit("plain", Plain { ok: true });
}
