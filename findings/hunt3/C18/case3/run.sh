#!/bin/bash
# The same tauri.conf.json is honoured when the tool finds it by itself (cwd = app root) and
# silently ignored when it is named with --config (needed as soon as the cwd is another directory)
cd "$(dirname "$0")"
BIN=$PWD/../../target/debug/cargo-tauri-typegen
rm -rf out out_explicit
$BIN tauri-typegen generate --force >/dev/null 2>&1
echo "== auto-discovered src-tauri/tauri.conf.json: Stamp in out/ (expected and observed: no line)"
grep -n "Stamp" out/types.ts out/commands.ts
$BIN tauri-typegen generate --force --config src-tauri/tauri.conf.json --project-path ./src-tauri --output-path ./out_explicit 2>&1 | grep -i "error\|warn"
echo "== --config src-tauri/tauri.conf.json: Stamp in out_explicit/ (expected: no line)"
grep -n "Stamp" out_explicit/types.ts out_explicit/commands.ts
