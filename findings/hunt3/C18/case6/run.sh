#!/bin/bash
# `None::<Stamp>` is the usual way to emit a typed null. Its type is Option<Stamp>; the listener
# gets types.None / types.Option (names nothing declares) instead of `number | null`
cd "$(dirname "$0")"
BIN=../../target/debug/cargo-tauri-typegen
for mode in none zod; do
  rm -rf out_$mode
  $BIN tauri-typegen generate --project-path . --output-path out_$mode --validation $mode --force --config config.json >/dev/null 2>&1
  echo "== $mode: payloads in events.ts (expected: number | null three times)"
  grep -n "listen<" out_$mode/events.ts
  echo "== $mode: declarations of None / Option in types.ts (there are none)"
  grep -n "None\|Option" out_$mode/types.ts || true
done
