use serde::{Deserialize, Serialize};

pub struct Stamp(u64);

#[derive(Serialize, Deserialize)]
pub struct Selection {
    pub at: Option<Stamp>,
}

#[tauri::command]
pub fn clear(app: tauri::AppHandle, current: Option<Stamp>, sel: Selection) -> Option<Stamp> {
    app.emit("selected", current).ok();                    // Option<Stamp>, declared type
    app.emit("cleared", None::<Stamp>).ok();               // Option<Stamp>, typed null
    app.emit("cleared-long", Option::<Stamp>::None).ok();  // the same, long spelling
    None
}
