#!/bin/bash
# A string literal payload has the type &'static str. The event parser calls it "String":
#  - with a mapping for String only, the literal gets the mapping although str is not mapped
#    (every other &str of the project stays `string`)
#  - with a mapping for str only, every other &str becomes Slug but the literal stays `string`
cd "$(dirname "$0")"
BIN=../../target/debug/cargo-tauri-typegen
for cfg in map_string map_str; do
  for mode in none zod; do
    rm -rf out_${cfg}_$mode
    $BIN tauri-typegen generate --project-path . --output-path out_${cfg}_$mode --validation $mode --force --config $cfg.json >/dev/null 2>&1
  done
  echo "== $cfg: fields / parameters (types.ts, plain mode)"
  grep -n "owned\|borrowed" out_${cfg}_none/types.ts
  echo "== $cfg: payloads (events.ts, same in both modes)"
  grep -n "listen<" out_${cfg}_none/events.ts
  diff <(grep "listen<" out_${cfg}_none/events.ts) <(grep "listen<" out_${cfg}_zod/events.ts) && echo "(zod mode: identical)"
done
