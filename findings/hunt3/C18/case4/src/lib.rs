use serde::{Deserialize, Serialize};

#[derive(Serialize, Deserialize)]
pub struct Note {
    pub owned: String,
    pub borrowed: &'static str,
}

#[tauri::command]
pub fn notify(app: tauri::AppHandle, note: Note, owned: String, borrowed: &str) -> String {
    app.emit("owned-var", owned).ok();          // String
    app.emit("borrowed-var", borrowed).ok();    // &str
    app.emit("literal", "ready").ok();          // &'static str
    app.emit_to("main", "literal-to", "ready").ok();
    String::new()
}
