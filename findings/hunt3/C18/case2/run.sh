#!/bin/bash
# run 1: generate with the configuration (Stamp -> number is honoured)
# run 2: `init` on the same tauri.conf.json ("we always update/merge"), e.g. to switch to zod
# observe: init rewrites plugins.typegen with "typeMappings": null and its own generation
#          (and every later `generate`) declares nothing for Stamp but refers to it by name
cd "$(dirname "$0")"
BIN=$PWD/../../target/debug/cargo-tauri-typegen
rm -rf app && cp -r app_template app && cd app
$BIN tauri-typegen generate >/dev/null 2>&1
echo "== run 1 (generate): Stamp in out/ (expected and observed: no line)"
grep -n "Stamp" out/types.ts out/commands.ts
$BIN tauri-typegen init --generated-path ./out --validation zod >/dev/null 2>&1
echo "== run 2 (init --validation zod): typeMappings in tauri.conf.json afterwards"
grep -n "typeMappings" src-tauri/tauri.conf.json
echo "== run 2: Stamp in out/ (expected: no line)"
grep -n "Stamp" out/types.ts out/commands.ts
$BIN tauri-typegen generate --force >/dev/null 2>&1
echo "== run 3 (generate again): Stamp in out/ (expected: no line)"
grep -n "Stamp" out/types.ts out/commands.ts
