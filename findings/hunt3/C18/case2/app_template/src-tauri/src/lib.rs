use serde::{Deserialize, Serialize};

// a foreign-style newtype the frontend sees as a number
pub struct Stamp(u64);

#[derive(Serialize, Deserialize)]
pub struct Holder {
    pub at: Stamp,
}

#[tauri::command]
pub fn touch(s: Stamp, h: Holder) -> Stamp {
    s
}
