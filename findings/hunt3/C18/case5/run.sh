#!/bin/bash
# One entry of typeMappings whose value is not a string ("Legacy": null, also 1 or true) makes the
# tool drop the WHOLE table without a word: the valid entry Stamp -> number is not applied
cd "$(dirname "$0")"
BIN=$PWD/../../target/debug/cargo-tauri-typegen
rm -rf out
$BIN tauri-typegen generate --force 2>&1 | grep -i "error\|warn\|mapping"
echo "== Stamp in out/ (expected: no line, the configuration maps Stamp to number)"
grep -n "Stamp" out/types.ts out/commands.ts
