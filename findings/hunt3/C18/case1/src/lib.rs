use serde::{Deserialize, Serialize};

pub mod models {
    use serde::{Deserialize, Serialize};
    #[derive(Serialize, Deserialize, Clone)]
    pub struct Stamp {
        pub secs: u64,
    }
}

#[derive(Serialize, Deserialize)]
pub struct Entry {
    pub level: log::Level,
    pub at: models::Stamp,
}

#[tauri::command]
pub fn record(app: tauri::AppHandle, entry: Entry, level: log::Level, at: models::Stamp) -> log::Level {
    // declared variable types: the path-qualified keys are honoured
    app.emit("level-var", level).ok();
    app.emit("stamp-var", &at).ok();
    // value paths: the same types, written with the same paths
    app.emit("level-variant", log::Level::Info).ok();
    app.emit("stamp-literal", models::Stamp { secs: 1 }).ok();
    let made = models::Stamp::new(2);
    app.emit("stamp-constructed", made).ok();
    level
}
