#!/bin/bash
# regenerates the bindings of this case in both modes and greps the offending lines
cd "$(dirname "$0")"
BIN=../../target/debug/cargo-tauri-typegen
for mode in none zod; do
  rm -rf out_$mode
  $BIN tauri-typegen generate --project-path . --output-path out_$mode --validation $mode --force --config config.json >/dev/null 2>&1
  echo "== $mode: payloads in events.ts (expected: string / number everywhere)"
  grep -n "listen<" out_$mode/events.ts
  echo "== $mode: Stamp in types.ts (expected: no line)"
  grep -n "Stamp" out_$mode/types.ts
done
