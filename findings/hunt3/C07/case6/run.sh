#!/bin/sh
. "$(dirname "$0")/../common.sh"
for v in none zod; do
  gen $v
  echo "== --validation $v: declarations in types.ts (project defines only Theme)"
  grep -n "^export \(interface\|type\|const\)" "$HERE/out_$v/types.ts"
  grep -n "vibrate" "$HERE/out_$v/commands.ts"
done
