use serde::Serialize;

#[derive(Serialize)]
pub struct Theme { pub accent: rgb::Rgb }

#[tauri::command]
pub fn theme() -> Theme { todo!() }
