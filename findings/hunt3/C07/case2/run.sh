#!/bin/sh
. "$(dirname "$0")/../common.sh"
for v in none zod; do
  gen $v
  echo "== --validation $v: declarations in types.ts"
  grep -n "^export \(interface\|type\|const\)" "$HERE/out_$v/types.ts"
  echo "== events.ts refers to"
  grep -n "listen<" "$HERE/out_$v/events.ts"
done
