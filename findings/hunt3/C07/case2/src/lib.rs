use serde::Serialize;
use tauri::{AppHandle, Emitter};

#[tauri::command]
pub async fn watch(app: AppHandle) {
    // payload struct declared where it is used: inside the spawned task
    tauri::async_runtime::spawn(async move {
        #[derive(Serialize, Clone)]
        struct Tick { n: u32 }
        app.emit("tick", Tick { n: 1 }).unwrap();
    });
}

#[tauri::command]
pub fn scan(app: AppHandle, deep: bool) {
    if deep {
        #[derive(Serialize, Clone)]
        struct DeepReport { files: u32 }
        app.emit("deep-report", DeepReport { files: 3 }).unwrap();
    }
}

#[tauri::command]
pub fn flat(app: AppHandle) {
    // control: declared directly in the function body - this one IS declared
    #[derive(Serialize, Clone)]
    struct FlatReport { files: u32 }
    app.emit("flat-report", FlatReport { files: 3 }).unwrap();
}
