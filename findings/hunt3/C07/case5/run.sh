#!/bin/sh
. "$(dirname "$0")/../common.sh"
for v in none zod; do
  gen $v
  echo "== --validation $v: Digest derives neither serde::Serialize nor serde::Deserialize, yet:"
  grep -n -A2 "interface Digest\|DigestSchema =" "$HERE/out_$v/types.ts"
done
