use serde::Serialize;

// binary cache format: derives rkyv's macros, which are also called Serialize / Deserialize.
// Its JSON form is written by hand (a hex string).
#[derive(rkyv::Archive, rkyv::Serialize, rkyv::Deserialize)]
pub struct Digest { pub bytes: [u8; 4] }

impl serde::Serialize for Digest {
    fn serialize<S: serde::Serializer>(&self, s: S) -> Result<S::Ok, S::Error> {
        s.serialize_str("00000000")
    }
}

#[derive(Serialize)]
pub struct FileInfo { pub name: String, pub digest: Digest }

#[tauri::command]
pub fn info() -> FileInfo { todo!() }
