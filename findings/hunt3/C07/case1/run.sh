#!/bin/sh
. "$(dirname "$0")/../common.sh"
for v in none zod; do
  gen $v
  echo "== --validation $v: declarations in types.ts"
  grep -n "^export \(interface\|type\|const\)" "$HERE/out_$v/types.ts"
  echo "== offending lines"
  grep -n "AppResult" "$HERE/out_$v/commands.ts"
  grep -n "List<Tag>\|ListSchema\|List" "$HERE/out_$v/types.ts"
  echo "== User / Prefs / Tag declared? (expected: yes, observed: no match)"
  grep -c "interface User\|interface Prefs\|interface Tag\|UserSchema =\|PrefsSchema =\|TagSchema =" "$HERE/out_$v/types.ts"
done
