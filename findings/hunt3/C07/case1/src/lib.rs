use serde::{Deserialize, Serialize};

#[derive(Debug, Serialize)]
pub struct AppError { pub code: u32, pub message: String }

// the usual crate-wide alias, under a name other than `Result`
pub type AppResult<T> = std::result::Result<T, AppError>;
pub type List<T> = Vec<T>;

#[derive(Serialize, Deserialize)]
pub struct Prefs { pub dark: bool }

#[derive(Serialize, Deserialize)]
pub struct User { pub name: String, pub prefs: Prefs }

#[derive(Serialize, Deserialize)]
pub struct Tag { pub label: String }

#[derive(Serialize, Deserialize)]
pub struct Post { pub title: String, pub tags: List<Tag> }

#[tauri::command]
pub fn get_user(id: u32) -> AppResult<User> { todo!() }

#[tauri::command]
pub fn get_post(id: u32) -> Result<Post, AppError> { todo!() }
