#[path = "dto.inc"]
mod dto;

mod wire { include!("wire.in"); }

mod models; // app/src/models is a symbolic link to ../../shared/models (outside the project path)

#[tauri::command]
pub fn get_user() -> dto::User { todo!() }

#[tauri::command]
pub fn get_frame() -> wire::Frame { todo!() }

#[tauri::command]
pub fn get_order() -> models::Order { todo!() }
