#!/bin/sh
# the project is case4/app; case4/shared/models lies outside it and is linked in as app/src/models
PROJECT="$(cd "$(dirname "$0")" && pwd)/app"
. "$(dirname "$0")/../common.sh"
[ -e "$PROJECT/src/models" ] || ln -sfn ../../shared/models "$PROJECT/src/models"
for v in none zod; do
  gen $v
  echo "== --validation $v: declarations in types.ts (expected User, Frame, Order; observed none)"
  grep -n "^export \(interface\|type\|const\)" "$HERE/out_$v/types.ts"
  echo "== commands.ts refers to"
  grep -n "Promise<" "$HERE/out_$v/commands.ts"
done
