use serde::Serialize;
#[derive(Serialize)]
pub struct Order { pub id: u32 }
