use serde::Serialize;

// internal bookkeeping, dumped to a log file as JSON; no command, channel or event uses these
#[derive(Serialize)]
pub struct Duration { pub minutes: u32, pub label: String }

#[derive(Serialize)]
pub struct Url { pub raw: String, pub visits: u64 }
