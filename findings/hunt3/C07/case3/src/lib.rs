mod timer;

#[tauri::command]
pub fn uptime() -> std::time::Duration { todo!() }

#[tauri::command]
pub fn open(target: url::Url) -> Result<(), String> { todo!() }
