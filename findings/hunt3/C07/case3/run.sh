#!/bin/sh
. "$(dirname "$0")/../common.sh"
for v in none zod; do
  gen $v
  echo "== --validation $v: types.ts declares the unreachable project types timer::Duration and timer::Url"
  grep -n -A3 "interface Duration\|interface Url\|DurationSchema =\|UrlSchema =" "$HERE/out_$v/types.ts"
  grep -n "Duration\|Url" "$HERE/out_$v/commands.ts"
done
