# sourced by the run.sh of every case: gen <validation>   (PROJECT defaults to the case directory)
BIN=/tmp/hunt3_C07/target/debug/cargo-tauri-typegen
HERE=$(cd "$(dirname "$0")" && pwd)
PROJECT=${PROJECT:-$HERE}
gen() {
  rm -rf "$HERE/out_$1"
  "$BIN" tauri-typegen generate --project-path "$PROJECT" --output-path "$HERE/out_$1" --validation "$1" --force >/dev/null 2>&1
}
