use serde::{Deserialize, Serialize};

// serde writes {"kind":"Tagged","a_b":0}; with Deserialize the key "kind" is REQUIRED on input.
#[derive(Serialize, Deserialize)]
#[serde(tag = "kind")]
pub struct Tagged {
    pub a_b: u8,
}

#[tauri::command]
pub fn roundtrip(t: Tagged) -> Tagged {
    t
}
