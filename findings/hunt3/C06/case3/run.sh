#!/bin/sh
# #[serde(tag = "kind")] on a struct: serde writes (and requires) the key "kind"; the bindings have no such key.
cd "$(dirname "$0")"
BIN=/tmp/hunt3_C06/target/debug/cargo-tauri-typegen
for v in none zod; do
  rm -rf out_$v
  $BIN tauri-typegen generate --project-path . --output-path out_$v --validation $v --force >/dev/null 2>&1
  echo "== --validation $v"
  grep -n -A2 'interface Tagged\|TaggedSchema = ' out_$v/types.ts
  echo "occurrences of 'kind' in types.ts: $(grep -c kind out_$v/types.ts)"
done
