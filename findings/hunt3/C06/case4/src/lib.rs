use serde::{Deserialize, Serialize};

#[derive(Serialize, Deserialize)]
pub struct FileMeta {
    pub path: String,
    #[cfg(unix)]
    #[serde(rename = "mode")]
    pub unix_mode: u32,
    #[cfg(not(unix))]
    #[serde(rename = "mode")]
    pub win_attrs: String,
}

#[derive(Serialize, Deserialize)]
pub enum Backend {
    #[cfg(unix)]
    #[serde(rename = "posix")]
    Native,
    #[cfg(not(unix))]
    #[serde(rename = "win32")]
    Native,
    Portable,
}

#[tauri::command]
pub fn stat(b: Backend) -> FileMeta {
    todo!()
}
