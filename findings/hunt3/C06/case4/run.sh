#!/bin/sh
# Two #[cfg] alternatives with different Rust names and the same serde name: key `mode` declared twice.
cd "$(dirname "$0")"
BIN=/tmp/hunt3_C06/target/debug/cargo-tauri-typegen
for v in none zod; do
  rm -rf out_$v
  $BIN tauri-typegen generate --project-path . --output-path out_$v --validation $v --force >/dev/null 2>&1
  echo "== --validation $v"
  grep -n 'mode\|Backend = \|BackendSchema = ' out_$v/types.ts
done
