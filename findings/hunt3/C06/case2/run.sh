#!/bin/sh
# #[serde(flatten)]: serde writes {"pageNo":0,"total_count":0}; the bindings declare a key `meta`.
cd "$(dirname "$0")"
BIN=/tmp/hunt3_C06/target/debug/cargo-tauri-typegen
for v in none zod; do
  rm -rf out_$v
  $BIN tauri-typegen generate --project-path . --output-path out_$v --validation $v --force >/dev/null 2>&1
  echo "== --validation $v"
  grep -n -A3 'interface Page\|PageSchema = ' out_$v/types.ts
done
