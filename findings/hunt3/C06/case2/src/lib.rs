use serde::{Deserialize, Serialize};

#[derive(Serialize, Deserialize)]
#[serde(rename_all = "camelCase")]
pub struct Page {
    pub page_no: u32,
    #[serde(flatten)]
    pub meta: Meta,
}

#[derive(Serialize, Deserialize)]
pub struct Meta {
    pub total_count: u32,
}

#[tauri::command]
pub fn get_page() -> Page {
    todo!()
}
