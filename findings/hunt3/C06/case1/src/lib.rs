use serde::{Deserialize, Serialize};

// The identifiers below are spelled DECOMPOSED (NFD): e + U+0301, E + U+0301.
// rustc normalises identifiers to NFC, so serde writes the precomposed names.
#[derive(Serialize, Deserialize)]
pub struct Menu {
    pub café: u8,
    pub plain: u8,
}

#[derive(Serialize, Deserialize)]
pub enum Kind {
    État,
    Other,
}

#[tauri::command]
pub fn go(a: Menu, k: Kind) {}
