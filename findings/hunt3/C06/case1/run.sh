#!/bin/sh
# Field / variant identifiers written in NFD: serde (rustc) names them in NFC, the bindings keep NFD.
cd "$(dirname "$0")"
BIN=/tmp/hunt3_C06/target/debug/cargo-tauri-typegen
for v in none zod; do
  rm -rf out_$v
  $BIN tauri-typegen generate --project-path . --output-path out_$v --validation $v --force >/dev/null 2>&1
  echo "== --validation $v (bytes 'e 314 201' = e + U+0301, NFD; serde writes 303 251 = U+00E9)"
  grep -a -n 'caf\|tat' out_$v/types.ts | od -c | sed -n '1,8p'
done
# python check: is the emitted key NFC?
python3 - <<'PY'
import re, unicodedata
t = open("out_none/types.ts", encoding="utf-8").read()
for k in re.findall(r'"(caf[^"]*|[EÉ][^"]*tat)"', t):
    print(repr(k), "is NFC:", unicodedata.is_normalized("NFC", k), "| serde writes:", repr(unicodedata.normalize("NFC", k)))
PY
