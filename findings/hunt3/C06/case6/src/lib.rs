use serde::{Deserialize, Serialize};

// serde writes the bare string "..." (no object, no key `inner_val`)
#[derive(Serialize, Deserialize)]
#[serde(transparent)]
pub struct UserName {
    pub inner_val: String,
}

// serde writes null for every variant (never "A" / "B")
#[derive(Serialize, Deserialize)]
#[serde(untagged)]
pub enum Marker {
    A,
    B,
}

#[tauri::command]
pub fn who(m: Marker) -> UserName {
    todo!()
}
