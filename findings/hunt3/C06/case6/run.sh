#!/bin/sh
# #[serde(transparent)] struct declared as an object with the key of its inner field; #[serde(untagged)] unit enum declared as "A" | "B".
cd "$(dirname "$0")"
BIN=/tmp/hunt3_C06/target/debug/cargo-tauri-typegen
for v in none zod; do
  rm -rf out_$v
  $BIN tauri-typegen generate --project-path . --output-path out_$v --validation $v --force >/dev/null 2>&1
  echo "== --validation $v"
  grep -n -A2 'interface UserName\|UserNameSchema = ' out_$v/types.ts
  grep -n 'Marker = \|MarkerSchema = ' out_$v/types.ts
done
