#!/bin/sh
# serde attributes under #[cfg_attr(<never true>, ..)] are applied: field dropped / renamed, rename_all switched on.
cd "$(dirname "$0")"
BIN=/tmp/hunt3_C06/target/debug/cargo-tauri-typegen
for v in none zod; do
  rm -rf out_$v
  $BIN tauri-typegen generate --project-path . --output-path out_$v --validation $v --force >/dev/null 2>&1
  echo "== --validation $v"
  grep -n -A3 'interface FalseCfg \|FalseCfgSchema = ' out_$v/types.ts
  grep -n -A1 'interface FalseCfg2\|FalseCfg2Schema = ' out_$v/types.ts
  grep -n 'FalseCfg3 = \|FalseCfg3Schema = ' out_$v/types.ts
done
