use serde::{Deserialize, Serialize};

// `any()` and `not(all())` are false in every build: rustc drops these attributes,
// serde writes {"kept_one":0,"kept_two":0,"kept_three":0} and {"user_name":0}.
#[derive(Serialize, Deserialize)]
pub struct FalseCfg {
    #[cfg_attr(any(), serde(skip))]
    pub kept_one: u8,
    #[cfg_attr(any(), serde(rename = "never"))]
    pub kept_two: u8,
    #[cfg_attr(not(all()), serde(rename = "never2"))]
    pub kept_three: u8,
}

#[derive(Serialize, Deserialize)]
#[cfg_attr(any(), serde(rename_all = "camelCase"))]
pub struct FalseCfg2 {
    pub user_name: u8,
}

#[derive(Serialize, Deserialize)]
#[cfg_attr(any(), serde(rename_all = "lowercase"))]
pub enum FalseCfg3 {
    #[cfg_attr(any(), serde(skip))]
    KeptVariant,
    Other,
}

#[tauri::command]
pub fn go(a: FalseCfg, b: FalseCfg2, c: FalseCfg3) {}
