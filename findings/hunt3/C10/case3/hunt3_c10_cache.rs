use tauri_typegen::{generate_from_config, GenerateConfig};

#[test]
fn library_run_leaves_cache_of_other_mode() {
    let project = std::env::var("H3_PROJECT").unwrap();
    let out = std::env::var("H3_OUT").unwrap();
    let config = GenerateConfig {
        project_path: project,
        output_path: out,
        validation_library: "none".to_string(),
        ..Default::default()
    };
    let files = generate_from_config(&config).unwrap();
    println!("library run (validation none) wrote {:?}", files);
}
