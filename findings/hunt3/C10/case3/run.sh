#!/bin/sh
# 1. CLI, --validation zod  2. library API generate_from_config, validation none, same directory
# 3. CLI, --validation zod again (no --force): "up to date", the directory holds the plain bindings
HERE="$(cd "$(dirname "$0")" && pwd)"
ROOT=/tmp/hunt3_C10
B=$ROOT/target/debug/cargo-tauri-typegen
rm -rf "$HERE/out"
$B tauri-typegen generate --project-path "$HERE" --output-path "$HERE/out" --validation zod >/dev/null 2>&1
echo "after run 1 (CLI zod): schemas in types.ts = $(grep -c 'Schema = z\.' "$HERE/out/types.ts")"
cp "$HERE/hunt3_c10_cache.rs" $ROOT/tests/hunt3_c10_cache.rs
(cd $ROOT && H3_PROJECT="$HERE" H3_OUT="$HERE/out" cargo test --offline --test hunt3_c10_cache -- --nocapture 2>&1 | grep "library run")
rm -f $ROOT/tests/hunt3_c10_cache.rs
echo "after run 2 (library none): schemas in types.ts = $(grep -c 'Schema = z\.' "$HERE/out/types.ts")"
$B tauri-typegen generate --project-path "$HERE" --output-path "$HERE/out" --validation zod
echo "exit code of run 3 (CLI zod): $?"
echo "after run 3 (CLI zod): schemas in types.ts = $(grep -c 'Schema = z\.' "$HERE/out/types.ts"), safeParse calls in commands.ts = $(grep -c safeParse "$HERE/out/commands.ts")"
grep -n "Generator:" "$HERE/out/types.ts"
