use serde::{Deserialize, Serialize};
#[derive(Serialize, Deserialize)]
pub struct Inner { pub a: i32 }
#[tauri::command]
pub fn cmd(inner: Inner, n: i32) -> Inner { todo!() }
