#!/bin/sh
# A project type called `Record` captures the utility type Record<K, V> that plain mode uses for maps
cd "$(dirname "$0")"
B=/tmp/hunt3_C10/target/debug/cargo-tauri-typegen
for m in none zod; do
  $B tauri-typegen generate --project-path . --output-path out_$m --validation $m --force >/dev/null 2>&1
done
echo "--- plain mode (types.ts): Record<..> now names the local, non-generic interface Record"
grep -n "export interface Record\|Record<" out_none/types.ts
echo "--- zod mode (types.ts): the same keys are z.record(..) and unaffected"
grep -n "z.record\|export type Record" out_zod/types.ts
