use serde::{Deserialize, Serialize};
use std::collections::HashMap;

#[derive(Serialize, Deserialize)]
pub struct Record { pub id: u32, pub tags: HashMap<String, String> }

#[derive(Serialize, Deserialize)]
pub struct Archive { pub by_name: HashMap<String, Record>, pub counts: HashMap<String, u32> }

#[tauri::command]
pub fn store(archive: Archive, index: HashMap<String, u32>) -> HashMap<String, Record> { todo!() }
