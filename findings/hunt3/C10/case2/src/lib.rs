use serde::{Deserialize, Serialize};
use std::collections::*;
pub struct Id(pub String);
#[derive(Serialize, Deserialize)] pub struct Doc { pub ids: Vec<Id>, pub grid: Vec<Vec<Id>>, pub by: HashMap<String, Vec<Id>>, pub pair: (Id, Vec<Id>), pub set: BTreeSet<Id>, pub arr: [Id; 2], pub o: Option<Vec<Id>> }
#[tauri::command] pub fn save(doc: Doc, ids: Vec<Id>) -> Vec<Id> { todo!() }
