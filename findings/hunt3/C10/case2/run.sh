#!/bin/sh
# type mapping Id -> "string | number" inside Vec / set / array / map value / tuple element
cd "$(dirname "$0")"
B=/tmp/hunt3_C10/target/debug/cargo-tauri-typegen
for m in none zod; do
  $B tauri-typegen generate --project-path . --output-path out_$m --validation $m --config cfg.json --force >/dev/null 2>&1
done
echo "--- plain mode: a string, or an array of numbers"
grep -n "number\[\]" out_none/types.ts
echo "--- zod mode: an array of (string | number)"
grep -n "z.array(z.custom\|z.set(z.custom" out_zod/types.ts
