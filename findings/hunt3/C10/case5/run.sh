#!/bin/sh
# &'a Option<T>: plain mode declares a required key, zod mode an omittable one
cd "$(dirname "$0")"
B=/tmp/hunt3_C10/target/debug/cargo-tauri-typegen
for m in none zod; do
  $B tauri-typegen generate --project-path . --output-path out_$m --validation $m --force >/dev/null 2>&1
done
echo "--- plain"; sed -n '/interface View/,/^}/p' out_none/types.ts
echo "--- zod"; sed -n '/ViewSchema = /,/^}/p' out_zod/types.ts
