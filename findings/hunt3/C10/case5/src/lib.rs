use serde::Serialize;

#[derive(Serialize)]
pub struct Inner { pub a: i32 }

// a borrowed view that is only ever serialised (return value / event payload)
#[derive(Serialize)]
pub struct View<'a> {
    pub plain: Option<String>,
    pub note: &'a Option<String>,
    pub inner: &'a Option<Inner>,
}

#[tauri::command]
pub fn view() -> View<'static> { todo!() }
