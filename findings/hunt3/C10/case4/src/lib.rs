use serde::{Deserialize, Serialize};

/// Which shell hooks run around a queued command
#[derive(Serialize, Deserialize)]
pub struct CommandHooks { pub before: Option<String>, pub after: Option<String> }

#[tauri::command]
pub fn run(cmd: String, hooks: CommandHooks) -> CommandHooks { todo!() }
