#!/bin/sh
# a project type called CommandHooks: zod mode exports that name from types.ts AND commands.ts, index.ts re-exports both
cd "$(dirname "$0")"
B=/tmp/hunt3_C10/target/debug/cargo-tauri-typegen
for m in none zod; do
  $B tauri-typegen generate --project-path . --output-path out_$m --validation $m --force >/dev/null 2>&1
done
for m in none zod; do
  echo "--- $m"
  grep -n "export.*CommandHooks\b" out_$m/types.ts out_$m/commands.ts
  grep -n "^export \*" out_$m/index.ts
done
