use serde::Serialize;
use tauri::{AppHandle, Emitter, Manager};

#[tauri::command]
pub fn ping() -> u8 {
    1
}

pub fn run() {
    tauri::Builder::default()
        .setup(|app| {
            #[derive(Clone, Serialize)]
            struct Ready {
                version: String,
            }
            let app = app.handle().clone();
            app.emit("ready", Ready { version: "1".into() })?;
            Ok(())
        })
        .invoke_handler(tauri::generate_handler![ping])
        .run(tauri::generate_context!())
        .unwrap();
}

pub fn ticker(app: AppHandle) {
    std::thread::spawn(move || {
        #[derive(Clone, Serialize)]
        struct Tock {
            n: u32,
        }
        app.emit("tock", Tock { n: 1 }).unwrap();
    });
}

pub fn block(app: AppHandle) {
    {
        #[derive(Clone, Serialize)]
        struct Tick {
            n: u32,
        }
        app.emit("tick", Tick { n: 1 }).unwrap();
    }
}
