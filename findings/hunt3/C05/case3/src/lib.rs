use serde::{Deserialize, Serialize};
use tauri::{AppHandle, Emitter};

#[derive(Serialize, Deserialize, Clone)]
pub struct Item {
    pub id: u32,
}

#[tauri::command]
pub fn select(app: AppHandle, item: Item) {
    app.emit("selection", Option::Some(item.clone())).unwrap();
    app.emit("selection-cleared", None::<Item>).unwrap();
    app.emit("selection-reset", Option::<Item>::None).unwrap();
    app.emit("outcome", Result::<Item, String>::Ok(item.clone())).unwrap();
    // the same values through a typed binding are translated correctly:
    let last: Option<Item> = None;
    app.emit("last", last).unwrap();
}
