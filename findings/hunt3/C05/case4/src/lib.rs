use serde::{Deserialize, Serialize};
use tauri::{ipc::Channel, AppHandle, Emitter};

#[derive(Serialize, Deserialize, Clone)]
pub struct Item {
    pub id: u32,
}

#[tauri::command]
pub fn import(
    app: AppHandle,
    outcome: Result<Item, String>,
    on_row: Channel<Result<Item, String>>,
) -> Vec<Result<Item, String>> {
    // serde_json writes {"Ok":{"id":1}} / {"Err":"bad row"} at all of these sites:
    // Tauri unwraps a Result only when it IS the return type of the command
    on_row.send(Ok(Item { id: 1 })).unwrap();
    app.emit("import-finished", outcome).unwrap();
    vec![Ok(Item { id: 1 }), Err("bad row".into())]
}
