use serde::{Deserialize, Serialize};
use std::collections::HashMap;

#[derive(Serialize, Deserialize)]
#[serde(transparent)]
pub struct Id {
    pub value: u32,
}

#[derive(Serialize, Deserialize)]
pub struct Meta {
    pub created: u64,
}

#[derive(Serialize, Deserialize)]
pub struct Doc {
    pub id: Id,
    #[serde(flatten)]
    pub meta: Meta,
    #[serde(flatten)]
    pub extra: HashMap<String, String>,
}

// serde_json::to_string(&Doc { id: Id { value: 7 }, meta: Meta { created: 1 }, extra: {"k": "v"} })
//   == {"id":7,"created":1,"k":"v"}
#[tauri::command]
pub fn get_doc() -> Doc {
    todo!()
}
