use serde::{Deserialize, Serialize};
use std::collections::{BTreeMap, HashMap};

/// a database row - `Record` is an ordinary name for a project type
#[derive(Serialize, Deserialize)]
pub struct Record {
    pub id: u32,
    pub fields: HashMap<String, String>,
}

#[derive(Serialize, Deserialize)]
pub struct Table {
    pub rows: Vec<Record>,
    pub index: BTreeMap<String, u32>,
}

#[tauri::command]
pub fn load(filter: HashMap<String, String>) -> Table {
    todo!()
}
