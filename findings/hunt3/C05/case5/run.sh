#!/bin/sh
# regenerates the bindings of this case and prints the offending lines
HERE=$(cd "$(dirname "$0")" && pwd)
BIN=/tmp/hunt3_C05/target/debug/cargo-tauri-typegen
rm -rf "$HERE/out"
"$BIN" tauri-typegen generate --project-path "$HERE" --output-path "$HERE/out" --validation none --force >/dev/null 2>&1
grep -n "export async" "$HERE/out/commands.ts"; echo "--- declarations in types.ts:"; grep -n "^export" "$HERE/out/types.ts"
