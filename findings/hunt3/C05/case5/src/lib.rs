use serde::{Deserialize, Serialize};

/// the usual shorthand of a Tauri app
pub type CmdResult<T> = Result<T, String>;

#[derive(Serialize, Deserialize)]
pub struct User {
    pub id: u32,
}

#[tauri::command]
pub fn get_user(id: u32) -> CmdResult<User> {
    todo!()
}

#[tauri::command]
pub fn list_users() -> CmdResult<Vec<User>> {
    todo!()
}
