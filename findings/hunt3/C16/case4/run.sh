#!/bin/sh
# outputPath whose JSON value is not a string (here a one-element array; a number, an object or a
# misspelt key such as "outputpath"/"outputDir" behave the same) passes validation, is skipped by
# `.and_then(|v| v.as_str())` and the run silently writes into the default ./src/generated.
BIN=/tmp/hunt3_C16/target/debug/cargo-tauri-typegen
HERE=$(cd "$(dirname "$0")" && pwd)
rm -rf "$HERE/work" && cp -r "$HERE/app" "$HERE/work" && cd "$HERE/work" || exit 1
$BIN tauri-typegen generate --force; echo "exit code $?"
find . -type f | sort | grep -E 'generated|bindings'
