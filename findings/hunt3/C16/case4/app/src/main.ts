// hand-written frontend code
