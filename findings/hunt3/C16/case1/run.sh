#!/bin/sh
# --config pointed at the tauri.conf.json that holds the typegen section (and at a stand-alone
# file that uses the same camelCase keys): the configured outputPath ./src/lib/bindings is
# ignored without a word, the bindings are created in ./src/generated.
BIN=/tmp/hunt3_C16/target/debug/cargo-tauri-typegen
HERE=$(cd "$(dirname "$0")" && pwd)
rm -rf "$HERE/work" && cp -r "$HERE/app" "$HERE/work" && cd "$HERE/work" || exit 1
echo "### reference: auto-discovery of the same file honours outputPath"
$BIN tauri-typegen generate --force | grep Location
find . -name 'types.ts'
rm -rf src/lib src/generated
echo "### generate --config src-tauri/tauri.conf.json"
$BIN tauri-typegen generate --config src-tauri/tauri.conf.json --force | grep Location
find . -type f | sort | grep -E 'generated|bindings'
rm -rf src/lib src/generated
echo "### generate --config typegen.camel.json"
$BIN tauri-typegen generate --config typegen.camel.json --force | grep Location
find . -type f | sort | grep -E 'generated|bindings'
