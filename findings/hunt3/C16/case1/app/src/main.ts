// hand-written frontend code
