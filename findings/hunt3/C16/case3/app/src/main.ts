// hand-written frontend code
