use serde::{Deserialize, Serialize};

#[derive(Serialize, Deserialize)]
pub struct User {
    pub id: i32,
    pub name: String,
}

#[tauri::command]
pub fn get_user(id: i32) -> User {
    todo!()
}
