#!/bin/sh
# The CLI searches ./tauri.conf.json, ./src-tauri/tauri.conf.json, ../tauri.conf.json.
# A ./tauri.conf.json WITHOUT a typegen section ends the search (Ok(None) => break), so the
# typegen section of src-tauri/tauri.conf.json (outputPath ./src/lib/bindings) is never read
# and the run writes into the default ./src/generated.
BIN=/tmp/hunt3_C16/target/debug/cargo-tauri-typegen
HERE=$(cd "$(dirname "$0")" && pwd)
rm -rf "$HERE/work" && cp -r "$HERE/app" "$HERE/work" && cd "$HERE/work" || exit 1
$BIN tauri-typegen generate --force | grep Location
find . -type f | sort | grep -E 'generated|bindings'
echo "### without ./tauri.conf.json the same tree goes where it is configured:"
rm -rf src/generated tauri.conf.json
$BIN tauri-typegen generate --force | grep Location
find . -type f | sort | grep -E 'generated|bindings'
