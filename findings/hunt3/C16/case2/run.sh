#!/bin/sh
# init writes the configuration to typegen.json (output directory src/bindings), generates there and
# closes with "You can run 'cargo tauri-typegen generate' anytime to regenerate bindings".
# That very command never looks at typegen.json (only BuildSystem::load_configuration does):
# the next run creates ./src/generated and leaves src/bindings stale.
BIN=/tmp/hunt3_C16/target/debug/cargo-tauri-typegen
HERE=$(cd "$(dirname "$0")" && pwd)
rm -rf "$HERE/work" && cp -r "$HERE/app" "$HERE/work" && cd "$HERE/work" || exit 1
echo "### init --output typegen.json --generated-path src/bindings"
$BIN tauri-typegen init --output typegen.json --generated-path src/bindings | grep -E 'Location|anytime'
grep output_path typegen.json
printf '\n#[tauri::command]\npub fn ping() {}\n' >> src-tauri/src/lib.rs
echo "### generate (as advised)"
$BIN tauri-typegen generate | grep Location
find . -type f | sort | grep -E 'generated|bindings'
echo "### ping reached only the unconfigured directory:"
grep -l ping src/generated/commands.ts src/bindings/commands.ts
echo
echo "### same with a project directory that is not called src-tauri: init writes backend/tauri.conf.json,"
echo "### generate -p backend does not read it"
cd "$HERE" && rm -rf work2 && cp -r app work2 && cd work2 && mv src-tauri backend
$BIN tauri-typegen init --project-path backend --generated-path web/bindings | grep -E 'Updated|Location'
grep outputPath backend/tauri.conf.json
printf '\n#[tauri::command]\npub fn ping() {}\n' >> backend/src/lib.rs
$BIN tauri-typegen generate --project-path backend | grep Location
find . -type f | sort | grep -E 'generated|bindings'
