// hand-written frontend code
