use serde::Serialize;
use tauri::{AppHandle, Emitter};

#[tauri::command]
pub fn start(app: AppHandle) {
    std::thread::spawn(move || {
        #[derive(Clone, Serialize)]
        struct Tick { n: u32 }

        app.emit("tick", Tick { n: 1 }).unwrap();
    });
}
