#!/bin/bash
# The payload struct is moved from the first statements of the command's body into the closure
# (thread::spawn / async_runtime::spawn block) that emits it. Nothing else changes.
cd "$(dirname "$0")"
BIN=/tmp/hunt3_C13/target/debug/cargo-tauri-typegen
for d in top_level in_closure; do
  rm -rf $d/out
  $BIN tauri-typegen generate --project-path $d/src --output-path $d/out --validation none --force >/dev/null 2>&1
  echo "== $d"
  grep -n "Tick" $d/out/types.ts $d/out/events.ts
done
