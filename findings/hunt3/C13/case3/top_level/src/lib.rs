use serde::Serialize;
use tauri::{AppHandle, Emitter};

#[tauri::command]
pub fn start(app: AppHandle) {
    #[derive(Clone, Serialize)]
    struct Tick { n: u32 }

    std::thread::spawn(move || {
        app.emit("tick", Tick { n: 1 }).unwrap();
    });
}
