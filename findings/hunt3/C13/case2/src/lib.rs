use serde::{Serialize, Deserialize};

#[derive(Serialize, Deserialize)]
pub struct User { pub id: u32, pub name: String, pub tags: Vec<Tag> }

#[derive(Serialize, Deserialize)]
pub struct Tag { pub label: String }

#[derive(Serialize, Deserialize)]
pub enum Status { Active, Inactive }

#[tauri::command]
pub fn get_user(id: u32) -> Result<User, String> { todo!() }

#[tauri::command]
pub async fn set_status(app: tauri::AppHandle, user_id: u32, status: Status) -> Result<(), String> {
    app.emit("status-changed", status).unwrap();
    Ok(())
}
