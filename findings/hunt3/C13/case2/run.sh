#!/bin/bash
# Same sources, same configuration; the consumer of stdout stops reading after 3 lines (head -n 3,
# grep -m1, a closed CI log) or stdout is a full device.
cd "$(dirname "$0")"
BIN=/tmp/hunt3_C13/target/debug/cargo-tauri-typegen
rm -rf out_quiet out_verbose out_quiet_full out_verbose_full
$BIN tauri-typegen generate --project-path src --output-path out_quiet --validation none --force 2>/dev/null | head -n 3 >/dev/null
echo "quiet   | head -n 3 : exit ${PIPESTATUS[0]}, files: $(ls out_quiet 2>/dev/null | tr '\n' ' ')"
RUST_BACKTRACE=0 $BIN tauri-typegen generate --project-path src --output-path out_verbose --validation none --force --verbose 2>case2_verbose.err | head -n 3 >/dev/null
echo "verbose | head -n 3 : exit ${PIPESTATUS[0]}, files: $(ls out_verbose 2>/dev/null | tr '\n' ' ')"
grep -n "failed printing to stdout" case2_verbose.err
$BIN tauri-typegen generate --project-path src --output-path out_quiet_full --validation none --force >/dev/full 2>/dev/null
echo "quiet   > /dev/full : exit $?, files: $(ls out_quiet_full 2>/dev/null | tr '\n' ' ')"
RUST_BACKTRACE=0 $BIN tauri-typegen generate --project-path src --output-path out_verbose_full --validation none --force --verbose >/dev/full 2>/dev/null
echo "verbose > /dev/full : exit $?, files: $(ls out_verbose_full 2>/dev/null | tr '\n' ' ')"
