#!/bin/bash
# crlf/src/lib.rs is lf/src/lib.rs with every line ending LF turned into CR LF (what a Windows
# checkout with core.autocrlf does). rustc normalises CR LF to LF when it loads a file, also inside
# raw strings, so both files are the same program.
cd "$(dirname "$0")"
BIN=/tmp/hunt3_C13/target/debug/cargo-tauri-typegen
mkdir -p crlf/src && sed 's/$/\r/' lf/src/lib.rs > crlf/src/lib.rs
for d in lf crlf; do
  rm -rf $d/out
  $BIN tauri-typegen generate --project-path $d/src --output-path $d/out --validation zod --force >/dev/null 2>&1
  echo "== $d"
  grep -n "password:" $d/out/types.ts
done
