use serde::{Deserialize, Serialize};
use validator::Validate;

#[derive(Serialize, Deserialize, Validate)]
pub struct Signup {
    #[validate(length(min = 8, message = r"The password is too short:
use at least 8 characters"))]
    pub password: String,
    #[validate(length(min = 1, message = "The name is empty:
enter a name"))]
    pub name: String,
}

#[tauri::command]
pub fn signup(form: Signup) -> Result<(), String> {
    Ok(())
}
