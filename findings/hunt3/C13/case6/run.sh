#!/bin/bash
# linked_dir: the module directory src/models is a symbolic link to ../shared (sources shared
# between two crates of a monorepo). rustc follows the link; the scanner does not descend into it.
cd "$(dirname "$0")"
BIN=/tmp/hunt3_C13/target/debug/cargo-tauri-typegen
ln -sfn ../shared linked_dir/src/models
for d in plain_dir linked_dir; do
  rm -rf $d/out
  $BIN tauri-typegen generate --project-path $d/src --output-path $d/out --validation none --force >/dev/null 2>&1
  echo "== $d"
  grep -n "Settings" $d/out/types.ts $d/out/commands.ts
done
