use serde::{Deserialize, Serialize};

#[derive(Serialize, Deserialize)]
pub struct Settings { pub theme: String, pub zoom: f32 }
