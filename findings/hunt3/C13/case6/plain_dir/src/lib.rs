mod models;
use models::Settings;

#[tauri::command]
pub fn load_settings() -> Settings { todo!() }
