use serde::Serialize;

#[derive(Serialize)]
pub struct Snapshot { pub id: u32, pub title: String }

#[tauri::command]
pub fn snapshot() -> Snapshot { todo!() }
