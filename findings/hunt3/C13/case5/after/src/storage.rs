// on-disk format, zero-copy (rkyv), never sent to the frontend
#[derive(rkyv::Archive, rkyv::Serialize, rkyv::Deserialize)]
pub struct Snapshot { pub bytes: Vec<u8>, pub checksum: u64 }
