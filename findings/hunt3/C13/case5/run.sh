#!/bin/bash
# after/ = before/ plus one new file src/storage.rs that holds a NON-serde struct of the same name
# (it derives rkyv::Archive, rkyv::Serialize, rkyv::Deserialize - written with their crate path).
cd "$(dirname "$0")"
BIN=/tmp/hunt3_C13/target/debug/cargo-tauri-typegen
for d in before after; do
  rm -rf $d/out
  $BIN tauri-typegen generate --project-path $d/src --output-path $d/out --validation none --force >/dev/null 2>&1
  echo "== $d"
  grep -A3 "export interface Snapshot" $d/out/types.ts
done
