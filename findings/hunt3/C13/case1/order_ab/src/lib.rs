use serde::Serialize;
use tauri::{AppHandle, Emitter};

#[tauri::command]
pub fn download(app: AppHandle, url: String) {
    #[derive(Clone, Serialize)]
    struct Payload { url: String, bytes: u64 }

    app.emit("download-progress", Payload { url, bytes: 0 }).unwrap();
}

#[tauri::command]
pub fn login(app: AppHandle, user: String) {
    #[derive(Clone, Serialize)]
    struct Payload { user: String, ok: bool }

    app.emit("login-done", Payload { user, ok: true }).unwrap();
}
