#!/bin/bash
# Two commands, each with its own function-local `struct Payload` (the pattern of the Tauri guide).
# order_ab and order_ba hold the same two functions in opposite order.
cd "$(dirname "$0")"
BIN=/tmp/hunt3_C13/target/debug/cargo-tauri-typegen
for d in order_ab order_ba; do
  rm -rf $d/out
  $BIN tauri-typegen generate --project-path $d/src --output-path $d/out --validation none --force >/dev/null 2>&1
  echo "== $d: declaration of Payload in types.ts"
  grep -A3 "export interface Payload" $d/out/types.ts
  grep -n "listen<" $d/out/events.ts
done
