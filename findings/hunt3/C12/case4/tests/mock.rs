// test helper, excluded from the analysis by typegen.json
pub fn fire(app: tauri::AppHandle) {
    app.emit("only-in-excluded-file", 1).unwrap();
}
