#[tauri::command]
pub fn ping() {}
