#!/bin/bash
# the only emit of the project lies in a file matched by exclude_patterns; events.ts is written all the same
here="$(cd "$(dirname "$0")" && pwd)"
bin="$here/../../target/debug/cargo-tauri-typegen"
rm -rf "$here/out"
cd "$here"
"$bin" tauri-typegen generate --config "$here/typegen.json" --project-path "$here" --output-path "$here/out" --validation none --force > "$here/log.txt" 2>&1 || { echo "generation failed"; cat "$here/log.txt"; exit 1; }
ls "$here/out"
grep -n "listen<" "$here/out/events.ts"
grep -n "events" "$here/out/index.ts"
