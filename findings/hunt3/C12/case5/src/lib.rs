use serde::{Deserialize, Serialize};
use tauri::{AppHandle, Emitter};

#[derive(Serialize, Deserialize, Clone)]
pub struct User { pub id: u32 }
#[derive(Serialize, Deserialize, Clone)]
pub struct Item { pub id: u32 }

#[tauri::command]
pub fn ping() {}

const K: u32 = 1024;
const KB: u32 = 1024;
static N: &str = "n";

pub fn consts(app: AppHandle) {
    app.emit("block-size", K).unwrap();   // a constant: its type is not evident at the call -> unknown
    app.emit("block-size-2", KB).unwrap(); // the two-letter constant IS unknown
    app.emit("name", N).unwrap();
}
