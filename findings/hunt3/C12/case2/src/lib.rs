use serde::{Deserialize, Serialize};
use tauri::{AppHandle, Emitter};

#[derive(Serialize, Deserialize, Clone)]
pub struct User { pub id: u32 }
#[derive(Serialize, Deserialize, Clone)]
pub struct Item { pub id: u32 }

#[tauri::command]
pub fn ping() {}

#[derive(Serialize, Deserialize, Clone)]
pub struct Wrapper { pub item: u32 }
fn make_pair() -> (u32, Item) { (1, Item { id: 1 }) }
fn make_wrapper() -> Wrapper { Wrapper { item: 1 } }
fn make_two() -> [u32; 2] { [1, 2] }
fn make_count() -> u32 { 1 }

// each `let` below shadows the parameter with a value of ANOTHER type (u32)
pub fn tuple_pattern(app: AppHandle, user: User) {
    let (user, _item): (u32, Item) = make_pair();
    app.emit("tuple-pattern", user).unwrap();
}
pub fn struct_pattern(app: AppHandle, item: Item) {
    let Wrapper { item }: Wrapper = make_wrapper();
    app.emit("struct-pattern", item).unwrap();
}
pub fn slice_pattern(app: AppHandle, user: User) {
    let [user, _b]: [u32; 2] = make_two();
    app.emit("slice-pattern", user).unwrap();
}
pub fn deferred_init(app: AppHandle, user: User) {
    let user;
    user = make_count();
    app.emit("deferred-init", user).unwrap();
}
