#!/bin/bash
# regenerates the bindings of this case and prints the offending lines of events.ts
here="$(cd "$(dirname "$0")" && pwd)"
bin="$here/../../target/debug/cargo-tauri-typegen"
rm -rf "$here/out"
"$bin" tauri-typegen generate --project-path "$here" --output-path "$here/out" --validation none --force > "$here/log.txt" 2>&1 || { echo "generation failed"; cat "$here/log.txt"; exit 1; }
grep -n "listen<" "$here/out/events.ts"
