use serde::{Deserialize, Serialize};
use tauri::{AppHandle, Emitter};

#[derive(Serialize, Deserialize, Clone)]
pub struct User { pub id: u32 }
#[derive(Serialize, Deserialize, Clone)]
pub struct Item { pub id: u32 }

#[tauri::command]
pub fn ping() {}

fn lookup(_u: &User) -> Option<Item> { None }
impl From<User> for Item { fn from(u: User) -> Item { Item { id: u.id } } }

// In the else block of let-else the pattern's bindings are not in scope: `user` is the parameter (User)
pub fn not_found(app: AppHandle, user: User) {
    let Some(user) = lookup(&user) else {
        app.emit("not-found", &user).unwrap();
        return;
    };
    let _ = user;
}

// Inside its own initialiser the new binding is not in scope either: `user` is still the parameter (User)
pub fn convert(app: AppHandle, user: User) {
    let user: Item = match app.emit("converting", &user) {
        Ok(_) => user.into(),
        Err(_) => return,
    };
    let _ = user;
}
