use serde::{Deserialize, Serialize};
use tauri::{AppHandle, Emitter};

#[derive(Serialize, Deserialize, Clone)]
pub struct User { pub id: u32 }
#[derive(Serialize, Deserialize, Clone)]
pub struct Item { pub id: u32 }

#[tauri::command]
pub fn ping() {}

pub fn clear_selection(app: AppHandle) {
    // the only way to emit "nothing selected": a bare `None` does not compile (S cannot be inferred)
    app.emit("selection-changed", None::<User>).unwrap();
}
pub fn clear_selection2(app: AppHandle) {
    app.emit("selection-changed-2", Option::<User>::None).unwrap();
}
pub fn some(app: AppHandle) {
    app.emit("count-changed", Option::Some(3)).unwrap();
}
pub fn res(app: AppHandle) {
    app.emit("finished", Result::<u32, String>::Ok(3)).unwrap();
}
