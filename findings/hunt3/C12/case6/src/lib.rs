use serde::{Deserialize, Serialize};
use tauri::{AppHandle, Emitter};

#[derive(Serialize, Deserialize, Clone)]
pub struct User { pub id: u32 }
#[derive(Serialize, Deserialize, Clone)]
pub struct Item { pub id: u32 }

#[tauri::command]
pub fn ping() {}

pub fn watch(app: AppHandle, users: Vec<User>) {
    // typed closure parameters
    let notify = |u: User| app.emit("user-seen", u);
    users.into_iter().for_each(|user: User| {
        app.emit("user-visited", &user).unwrap();
    });
    let _ = notify;
}
// the same with a typed fn parameter, for comparison
pub fn direct(app: AppHandle, u: User) {
    app.emit("user-direct", u).unwrap();
}
