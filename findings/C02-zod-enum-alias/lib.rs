use serde::{Serialize, Deserialize};
#[derive(Serialize, Deserialize, Clone)]
pub enum Mode { Fast, Slow }
#[derive(Serialize, Deserialize, Clone)]
pub struct Rec { pub r#type: String, pub when: chrono::DateTime<chrono::Utc>, pub p: std::path::PathBuf, pub m: crate::Mode }
#[tauri::command]
pub fn delete(r#type: String, r#in: u32) -> Mode { Mode::Fast }
#[tauri::command]
pub fn new() -> Vec<Mode> { vec![] }
#[tauri::command]
pub fn get_rec() -> Option<Rec> { None }
#[tauri::command]
pub fn r#match() -> u32 { 0 }
