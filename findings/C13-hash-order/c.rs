use serde::{Serialize, Deserialize};
#[derive(Serialize, Deserialize)] pub struct Tc1 { pub x: i32, pub inner: Tc2 }
#[derive(Serialize, Deserialize)] pub struct Tc2 { pub y: String }
#[derive(Serialize, Deserialize)] pub struct Tc3 { pub z: Vec<Tc2> }
#[tauri::command] pub fn cmd_c1(p: Tc1) -> Tc3 { todo!() }
#[tauri::command] pub fn cmd_c2(p: Tc3) -> i32 { 1 }
