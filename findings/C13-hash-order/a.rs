use serde::{Serialize, Deserialize};
#[derive(Serialize, Deserialize)] pub struct Ta1 { pub x: i32, pub inner: Ta2 }
#[derive(Serialize, Deserialize)] pub struct Ta2 { pub y: String }
#[derive(Serialize, Deserialize)] pub struct Ta3 { pub z: Vec<Ta2> }
#[tauri::command] pub fn cmd_a1(p: Ta1) -> Ta3 { todo!() }
#[tauri::command] pub fn cmd_a2(p: Ta3) -> i32 { 1 }
