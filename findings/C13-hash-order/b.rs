use serde::{Serialize, Deserialize};
#[derive(Serialize, Deserialize)] pub struct Tb1 { pub x: i32, pub inner: Tb2 }
#[derive(Serialize, Deserialize)] pub struct Tb2 { pub y: String }
#[derive(Serialize, Deserialize)] pub struct Tb3 { pub z: Vec<Tb2> }
#[tauri::command] pub fn cmd_b1(p: Tb1) -> Tb3 { todo!() }
#[tauri::command] pub fn cmd_b2(p: Tb3) -> i32 { 1 }
