use serde::{Serialize, Deserialize};
use tauri::Emitter;

#[derive(Serialize, Deserialize, Clone)]
pub struct Inner { pub x: i32 }

#[derive(Serialize, Deserialize, Clone)]
pub struct Payload { pub inner: Inner }

#[tauri::command]
pub fn ping(app: tauri::AppHandle, n: i32) -> i32 {
    let p = Payload { inner: Inner { x: n } };
    app.emit("tick", p).unwrap();
    n
}
