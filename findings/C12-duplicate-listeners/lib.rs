use serde::{Serialize, Deserialize};
use tauri::Emitter;
#[derive(Serialize, Deserialize, Clone)]
#[serde(rename_all = "kebab-case")]
pub struct Player { pub player_id: u32, #[serde(rename = "wire-name")] pub nick: String, #[serde(rename = "2fa")] pub two: bool, #[serde(rename = "class")] pub class_: String }
#[derive(Serialize, Deserialize, Clone)]
#[serde(rename_all = "kebab-case")]
pub enum Mode { FastPath, SlowPath }
#[tauri::command]
pub fn submit(p: Player, m: Mode) -> u32 { 0 }
pub fn one(app: &tauri::AppHandle, p: Player) { app.emit("same-name", p.clone()).ok(); app.emit("same-name", p).ok(); }
pub fn two(app: &tauri::AppHandle) { app.emit("same-name", 1u32).ok(); }
