use serde::{Serialize, Deserialize};
pub mod models {
    use serde::{Serialize, Deserialize};
    #[derive(Serialize, Deserialize, Clone)]
    pub struct Inner { pub id: u32 }
    pub mod deep {
        use serde::{Serialize, Deserialize};
        #[derive(Serialize, Deserialize, Clone)]
        pub enum DeepMode { A, B }
    }
}
#[derive(Serialize, Deserialize, Clone)]
pub struct Outer { pub inner: models::Inner, pub mode: models::deep::DeepMode }
#[tauri::command]
pub fn get(o: Outer) -> models::Inner { todo!() }
mod cmds {
    #[tauri::command]
    pub fn nested_cmd() -> u32 { 0 }
}
