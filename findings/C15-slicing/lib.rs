use serde::{Serialize, Deserialize};
use validator::Validate;
#[derive(Serialize, Deserialize, Validate)]
pub struct Form {
    #[validate(length(min = 1, message = "zu groß"))]
    pub name: String,
    #[serde(alias = "rename   _all")]
    pub other: i32,
}
#[tauri::command]
pub fn submit(form: Form) -> bool { true }
