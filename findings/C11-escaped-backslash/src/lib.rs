use serde::{Serialize, Deserialize};
#[derive(Serialize, Deserialize)]
pub struct Form {
    #[validate(length(min = 1, message = "C:\\temp"))] pub a: String,
    #[validate(length(min = 1, message = "x\\n"))] pub b: String,
    #[validate(length(min = 1, message = "tab\there"))] pub c: String,
    #[validate(length(min = 1, message = "back\\\\slash"))] pub d: String,
}
#[tauri::command] pub fn f(x: Form) {}
