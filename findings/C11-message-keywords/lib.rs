use serde::{Serialize, Deserialize};
use validator::Validate;
#[derive(Serialize, Deserialize, Validate)]
pub struct Form {
    #[validate(length(message = "at most max 5 (five)", min = 1))]
    pub name: String,
    #[validate(length(min = 2, message = "not an email or url"))]
    pub nick: String,
}
#[tauri::command] pub fn submit(form: Form) -> bool { true }
