use tauri::Emitter;
pub fn a(app: &tauri::AppHandle) { app.emit("user-login", 1u32).ok(); app.emit("user_login", 2u32).ok(); app.emit("user:login", true).ok(); app.emit("user-login2", 1u32).ok(); app.emit("UserLogin", 1u32).ok(); }
#[tauri::command]
pub fn ping() -> u32 { 0 }
