use serde::{Serialize, Deserialize};
#[derive(Serialize, Deserialize, Clone)]
#[serde(into = "u64", try_from = "u64")]
pub struct Timestamp { pub secs: u64, pub inner: Inner }
#[derive(Serialize, Deserialize, Clone)]
pub struct Inner { pub x: u32 }
#[derive(Serialize, Deserialize, Clone)]
pub struct Entry { pub at: Timestamp, pub all: Vec<Timestamp> }
#[tauri::command]
pub fn entry(at: Timestamp) -> Entry { todo!() }
