use serde::{Serialize, Deserialize};
use tauri::Emitter;
#[derive(Serialize, Deserialize, Clone)]
pub struct Outcome { pub code: u32 }
#[derive(Serialize, Deserialize, Clone)]
pub struct Failure { pub why: String }
#[derive(Serialize, Deserialize, Clone)]
pub struct ViaChannel { pub n: u32 }
#[derive(Serialize, Deserialize, Clone)]
pub struct ViaEvent { pub n: u32 }
#[tauri::command(rename_all = "snake_case")]
pub fn snake_cmd(first_arg: u32, second_arg: Option<String>, on_event: tauri::ipc::Channel<ViaChannel>) -> Result<Outcome, Failure> { todo!() }
#[tauri::command]
pub async fn sites(app: tauri::AppHandle, flag: Option<u32>) -> Result<(), String> {
    let window = app.clone();
    let cb = move || { window.emit("s-closure", 1u32).ok(); };
    cb();
    let webview = app.clone();
    tokio::spawn(async move { webview.emit("s-async-block", 1u32).ok(); });
    if let Some(n) = flag { app.emit("s-if-let", n).ok(); } else if flag.is_none() { app.emit("s-else-if", 0u32).ok(); }
    let mut it = vec![1u32].into_iter();
    while let Some(n) = it.next() { app.emit("s-while-let", n).ok(); }
    match flag { Some(n) if n > 1 => { app.emit("s-match-guard", n).ok(); } _ => {} }
    let ev = ViaEvent { n: 1 };
    app.emit("s-struct", ev).ok();
    unsafe { app.emit("s-unsafe-block", 1u32).ok(); }
    let _x = { app.emit("s-block-expr", 1u32).ok(); 5 };
    Ok(())
}
