use tauri::Emitter;
#[tauri::command]
pub fn delete(app: tauri::AppHandle, id: i32) -> i32 {
    app.emit("user:login", id).unwrap();
    app.emit("user-login", id).unwrap();
    app.emit("user_login", id).unwrap();
    app.emit("a/b", id).unwrap();
    1
}
