use serde::{Serialize, Deserialize};
use tauri::Emitter;
use validator::Validate;
#[derive(Serialize, Deserialize, Clone)]
pub struct Player { pub id: u32 }
#[derive(Serialize, Deserialize, Validate)]
pub struct Form {
    #[validate(range(min = -10, max = -1.5))]
    pub neg: f64,
    #[validate(range(min = 1, max = 2.5))]
    pub pos: f64,
    #[validate(range(min = -10))]
    pub neg_min_only: i32,
}
#[tauri::command]
pub fn submit(form: Form) -> u32 { 0 }
pub fn announce<'a>(app: &tauri::AppHandle, winner: Option<&'a Player>) { app.emit("p-lifetime-opt", winner).ok(); }
pub fn levels(app: &tauri::AppHandle) { let levels: Vec<&'static str> = vec![]; app.emit("p-lifetime-vec", &levels).ok(); }
pub fn roster(app: &tauri::AppHandle, players: Vec<Player>) { app.emit("p-vec-struct", players).ok(); }
pub fn one(app: &tauri::AppHandle, p: Player) { app.emit("p-struct", p).ok(); }
pub fn two(app: &tauri::AppHandle, p: Option<Player>) { app.emit("p-opt", p).ok(); }
pub fn three(app: &tauri::AppHandle, p: std::collections::HashMap<String, Player>) { app.emit("p-map", p).ok(); }
