#![allow(non_camel_case_types)]
use serde::{Deserialize, Serialize};

// lower-case type names are legal Rust (a lint warns); `enum` needs the raw spelling
#[derive(Serialize, Deserialize)]
pub struct r#enum {
    pub r#type: String,
}

#[derive(Serialize, Deserialize)]
pub struct delete {
    pub id: u32,
}

#[derive(Serialize, Deserialize)]
pub struct void {
    pub reason: String,
}

#[tauri::command]
pub fn run(a: r#enum, b: delete) -> void {
    let _ = (a, b);
    todo!()
}
