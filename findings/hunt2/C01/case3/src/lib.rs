// `invoke` and `types` are ordinary Rust function names, and plausible command names
#[tauri::command]
pub fn invoke(plugin: String, payload: String) -> String {
    format!("{plugin}:{payload}")
}

#[tauri::command]
pub fn types() -> Vec<String> {
    vec![]
}
