use serde::{Deserialize, Serialize};

#[derive(Serialize, Deserialize)]
pub struct Record2 {
    // serde accepts any string as a key; "\n" and "\r" are ordinary escapes of a Rust literal
    #[serde(rename = "line\nbreak")]
    pub a: String,
    #[serde(rename = "cr\rhere")]
    pub b: String,
    #[serde(rename = "fine-key")]
    pub c: String,
}

#[tauri::command]
pub fn get(r: Record2) -> Record2 {
    r
}
