// four different Rust functions = four different Tauri commands
#[tauri::command]
pub fn get_user(id: u32) -> String {
    id.to_string()
}

#[allow(non_snake_case)]
#[tauri::command]
pub fn getUser(name: String) -> u32 {
    name.len() as u32
}

#[tauri::command]
pub fn delete(id: u32) {
    let _ = id;
}

#[tauri::command]
pub fn delete_(id: u32) {
    let _ = id;
}
