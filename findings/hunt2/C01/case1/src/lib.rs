use serde::{Deserialize, Serialize};

#[derive(Serialize, Deserialize)]
pub struct Entry {
    pub text: String,
}

pub trait Store<K> {
    type Value;
}

pub struct Db;

impl Store<String> for Db {
    type Value = Entry;
}

#[derive(Serialize, Deserialize)]
pub struct Page {
    // a qualified associated type: legal Rust, names `Entry`
    pub first: <Db as Store<String>>::Value,
    pub sum: <u32 as std::ops::Add<u32>>::Output,
}

#[tauri::command]
pub fn lookup(key: String, fallback: <Db as Store<String>>::Value) -> Result<<Db as Store<String>>::Value, String> {
    let _ = key;
    Ok(fallback)
}

#[tauri::command]
pub fn page() -> Page {
    todo!()
}
