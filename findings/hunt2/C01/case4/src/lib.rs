use serde::Serialize;
use tauri::{AppHandle, Emitter};

// `r#Move` is the type `Move` (a raw identifier is legal for any name, e.g. in macro output)
#[derive(Serialize, Clone)]
pub struct r#Move {
    pub x: u32,
    pub y: u32,
}

#[tauri::command]
pub fn play(app: AppHandle) {
    app.emit("moved", r#Move { x: 1, y: 2 }).unwrap();
    let next = crate::r#Move { x: 2, y: 3 };
    app.emit("moved-again", next).unwrap();
}
