#!/bin/bash
# regenerates the bindings for this case in both modes and prints the offending lines
cd "$(dirname "$0")"
BIN=${BIN:-../../target/debug/cargo-tauri-typegen}
for mode in none zod; do
  rm -rf out_$mode
  "$BIN" tauri-typegen generate --project-path . --output-path out_$mode --validation $mode --force > log_$mode.txt 2>&1 || { echo "generator failed ($mode)"; cat log_$mode.txt; }
  echo "== --validation $mode"
  grep -n -E 'r#Move|interface Move|MoveSchema' out_$mode/events.ts out_$mode/types.ts
done
