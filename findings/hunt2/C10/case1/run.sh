#!/bin/bash
# Regenerates both outputs and shows the offending lines.
cd "$(dirname "$0")"
BIN=../../target/debug/cargo-tauri-typegen
rm -rf out_none out_zod
$BIN tauri-typegen generate --project-path . --output-path out_none --validation none --force >/dev/null 2>&1
$BIN tauri-typegen generate --project-path . --output-path out_zod  --validation zod  --force >/dev/null 2>&1
echo "== plain mode: the key is declared"
grep -n "__proto__" out_none/types.ts
echo "== zod mode: '__proto__: <schema>' inside an object literal sets the prototype, it does not create a key"
grep -n "__proto__" out_zod/types.ts out_zod/commands.ts
echo "== what JavaScript makes of such literals (no zod needed: z.object() reads Object.keys(shape))"
node -e '
const schema = { parse(){} };                       // stands for z.string()
const shape = { __proto__: schema, own_keys: schema }; // as in JsObjectDumpSchema
console.log("keys of the shape given to z.object():", Object.keys(shape));
const quoted = { "__proto__": schema, id: schema };
console.log("quoted spelling as well:", Object.keys(quoted));
const data = { depth: 1 }, params = { depth: 1, ["__proto__"]: {id: 7} };
const args = { ...data, __proto__: params["__proto__"] };   // as in commands.ts watch()
console.log("invoke arguments of watch():", JSON.stringify(args));
'
