use serde::{Deserialize, Serialize};
use tauri::ipc::Channel;

// A node of a JavaScript-object dump: `__proto__` is an ordinary (legal, snake_case) Rust field name.
#[derive(Serialize, Deserialize, Clone)]
pub struct JsObjectDump {
    pub __proto__: String,
    pub own_keys: Vec<String>,
}

#[derive(Serialize, Deserialize)]
pub struct Renamed {
    #[serde(rename = "__proto__")]
    pub proto: Option<u8>,
    pub id: u32,
}

#[tauri::command]
pub fn store_dump(dump: JsObjectDump, renamed: Renamed) -> JsObjectDump {
    dump
}

// Tauri keeps the argument names as they are with rename_all = "snake_case"
#[tauri::command(rename_all = "snake_case")]
pub fn inspect(__proto__: String, depth: u32, on_event: Channel<JsObjectDump>) {}

#[tauri::command(rename_all = "snake_case")]
pub fn watch(depth: u32, __proto__: Channel<JsObjectDump>) {}
