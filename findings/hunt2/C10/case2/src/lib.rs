use serde::{Deserialize, Serialize};

pub mod poll {
    use serde::{Deserialize, Serialize};
    // A project type that happens to be called Option (an answer option of a poll)
    #[derive(Serialize, Deserialize, Clone)]
    pub struct Option {
        pub label: String,
        pub votes: u32,
    }
}

#[derive(Serialize, Deserialize, Clone)]
pub struct Stamp {
    pub secs: u64,
}

#[derive(Serialize, Deserialize)]
pub struct Poll {
    pub title: String,
    // NOT optional for serde: a required field of the project type poll::Option
    pub winner: poll::Option,
    pub all: Vec<poll::Option>,
    // std Option, but covered by the type mapping "Option<Stamp>": "number" of typegen.json
    pub closed_at: std::option::Option<Stamp>,
}

// Borrowed view, Serialize only (returned to the frontend)
#[derive(Serialize)]
pub struct PollView<'a> {
    pub title: &'a str,
    pub note: &'a std::option::Option<String>,
    pub plain: std::option::Option<String>,
}

#[tauri::command]
pub fn save_poll(poll: Poll) -> Result<(), String> {
    Ok(())
}

#[tauri::command]
pub fn view_poll<'a>() -> PollView<'a> {
    todo!()
}
