#!/bin/bash
# Regenerates both outputs and shows the keys whose omittability differs between the modes.
cd "$(dirname "$0")"
BIN=../../target/debug/cargo-tauri-typegen
rm -rf out_none out_zod
$BIN tauri-typegen generate --config typegen.json --project-path . --output-path out_none --validation none --force >/dev/null 2>&1
$BIN tauri-typegen generate --config typegen.json --project-path . --output-path out_zod  --validation zod  --force >/dev/null 2>&1
echo "== plain mode (types.ts)"
grep -n -E "^\s+(winner|closed_at|note|plain)\??:" out_none/types.ts
echo "== zod mode (types.ts)"
grep -n -E "^\s+(winner|closed_at|note|plain):" out_zod/types.ts
