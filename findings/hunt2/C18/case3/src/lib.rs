use serde::{Deserialize, Serialize};
use tauri::{AppHandle, Emitter};

#[derive(Clone, Serialize, Deserialize)]
pub enum 状態 { Running, Stopped }

#[derive(Clone, Serialize, Deserialize)]
pub enum _Phase { Early, Late(u8), Done { code: u8 } }

#[derive(Clone, Serialize, Deserialize)]
pub struct 時刻 { pub secs: u64 }

#[tauri::command]
pub fn poll(app: AppHandle, at: 時刻, want: 状態) -> _Phase {
    app.emit("state", 状態::Running).unwrap();
    app.emit("phase", _Phase::Early).unwrap();
    app.emit("phase2", _Phase::Late(3)).unwrap();
    app.emit("phase3", _Phase::Done { code: 1 }).unwrap();
    let s = 状態::Stopped;
    app.emit("state2", s).unwrap();
    app.emit("time", 時刻 { secs: 1 }).unwrap();
    app.emit("state3", want).unwrap();
    todo!()
}
