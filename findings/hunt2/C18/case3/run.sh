#!/bin/bash
# enum names that do not start with an upper-case letter: the variant is taken for the type in event payloads
cd "$(dirname "$0")"
for mode in none zod; do
  rm -rf out_$mode
  /tmp/hunt2_C18/target/debug/cargo-tauri-typegen tauri-typegen generate --config cfg.json --project-path ./src --output-path ./out_$mode --validation $mode --force >/dev/null 2>&1
  echo "== $mode"
  grep -n "payload:\|want:\|at:\|Promise<" out_$mode/types.ts out_$mode/commands.ts out_$mode/events.ts
done
