use serde::{Deserialize, Serialize};
use tauri::{AppHandle, Emitter};

#[derive(Clone, Serialize, Deserialize)]
pub struct Stamp { pub secs: u64 }

impl Stamp {
    pub fn announce(app: &AppHandle) {
        app.emit("tick", Self { secs: 1 }).unwrap();
    }
    pub fn announce_again(&self, app: &AppHandle) {
        let me: Self = self.clone();
        app.emit("tock", me).unwrap();
        let all: Vec<Self> = vec![];
        app.emit("tocks", all).unwrap();
    }
}

#[tauri::command]
pub fn now(app: AppHandle) -> Stamp {
    app.emit("plain", Stamp { secs: 1 }).unwrap();
    todo!()
}
