#!/bin/bash
# Self inside impl Stamp is an occurrence of the mapped type
cd "$(dirname "$0")"
for mode in none zod; do
  rm -rf out_$mode
  /tmp/hunt2_C18/target/debug/cargo-tauri-typegen tauri-typegen generate --config cfg.json --project-path ./src --output-path ./out_$mode --validation $mode --force >/dev/null 2>&1
  echo "== $mode"
  grep -n "payload:\|Promise<" out_$mode/types.ts out_$mode/commands.ts out_$mode/events.ts
done
