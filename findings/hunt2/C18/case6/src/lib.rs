use serde::{Deserialize, Serialize};
use tauri::ipc::Channel;
use tauri::{AppHandle, Emitter};

#[derive(Clone, Serialize, Deserialize)]
pub struct Stamp { pub secs: u64 }

// the same three shapes as struct fields ...
#[derive(Serialize)]
pub struct Batch<'a> { pub pair: [Stamp; 2], pub all: &'a [Stamp], pub list: Vec<Stamp> }

pub fn notify(app: &AppHandle, all: &[Stamp], pair: [Stamp; 2], list: Vec<Stamp>) {
    // ... and as event payloads
    app.emit("all", all).unwrap();
    app.emit("pair", pair).unwrap();
    app.emit("list", list).unwrap();
    let local: [Stamp; 2] = todo!();
    app.emit("local", &local).unwrap();
}

// ... and as command parameters / channel messages
#[tauri::command]
pub fn watch(pair: [Stamp; 2], on_pair: Channel<[Stamp; 2]>, on_all: Channel<&'static [Stamp]>) -> Vec<Stamp> { todo!() }

#[tauri::command]
pub fn batch() -> Batch<'static> { todo!() }
