#!/bin/bash
# arrays and slices of the mapped type: number[] in fields / parameters / returns, unknown in event payloads and Channel<&[..]>
cd "$(dirname "$0")"
for mode in none zod; do
  rm -rf out_$mode
  /tmp/hunt2_C18/target/debug/cargo-tauri-typegen tauri-typegen generate --config cfg.json --project-path ./src --output-path ./out_$mode --validation $mode --force >/dev/null 2>&1
  echo "== $mode"
  grep -n "listen<\|pair\|all:\|list:\|onAll:\|Promise<number" out_$mode/types.ts out_$mode/commands.ts out_$mode/events.ts | grep -v "Listen for"
done
