#!/bin/bash
# NFD spelling of a mapped identifier is not mapped
cd "$(dirname "$0")"
for mode in none zod; do
  rm -rf out_$mode
  /tmp/hunt2_C18/target/debug/cargo-tauri-typegen tauri-typegen generate --config cfg.json --project-path ./src --output-path ./out_$mode --validation $mode --force >/dev/null 2>&1
  echo "== $mode: lines that still name the mapped type (expected: none)"
  grep -n "Zeitst" out_$mode/types.ts out_$mode/commands.ts out_$mode/events.ts
done
# optional: proof that rustc treats both spellings as one type
if command -v rustc >/dev/null; then rustc rustc_check.rs -o /tmp/hunt2_c18_nfd_check 2>&1 | tail -3; /tmp/hunt2_c18_nfd_check; fi
