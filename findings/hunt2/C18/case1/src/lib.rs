use serde::{Deserialize, Serialize};
use tauri::ipc::Channel;
use tauri::{AppHandle, Emitter};

// defined with the NFC spelling
#[derive(Serialize, Deserialize)]
pub struct Zeitstämpel { pub secs: u64 }

// field a: NFC spelling, field b: NFD spelling of the same identifier
#[derive(Serialize, Deserialize)]
pub struct Holder { pub a: Zeitstämpel, pub b: Vec<Zeitstämpel> }

// a: NFC, everything else NFD
#[tauri::command]
pub fn one(app: AppHandle, a: Zeitstämpel, b: Zeitstämpel, h: Holder, ch: Channel<Zeitstämpel>) -> Option<Zeitstämpel> {
    let t: Zeitstämpel = todo!();
    app.emit("e1", &t).unwrap();
    None
}
