#![allow(non_snake_case,dead_code)]
// definition NFC, use NFD: rustc accepts it, both spell one identifier
pub struct Zeitstämpel { pub secs: u64 }
fn f(x: Zeitstämpel) -> u64 { x.secs }
fn main() { println!("{}", f(Zeitstämpel { secs: 3 })); }
