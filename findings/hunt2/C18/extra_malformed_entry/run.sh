#!/bin/bash
# tauri.conf.json: one entry of typeMappings is not a string -> ALL entries are dropped without a word
cd "$(dirname "$0")"
write_conf() { cat > tauri.conf.json <<JSON
{ "plugins": { "typegen": { "projectPath": "./src-tauri/src", "outputPath": "./out", "typeMappings": { "Stamp": "number"$1 } } } }
JSON
}
echo "== run A: typeMappings = { Stamp: number }"
write_conf ""; rm -rf out
/tmp/hunt2_C18/target/debug/cargo-tauri-typegen tauri-typegen generate --force 2>&1 | grep -i "warn\|error\|mapping"
grep -n "Stamp\|Promise" out/types.ts out/commands.ts
echo "== run B: typeMappings = { Stamp: number, Blob: null }   (Stamp -> number is still configured)"
write_conf ', "Blob": null'; rm -rf out
/tmp/hunt2_C18/target/debug/cargo-tauri-typegen tauri-typegen generate --force 2>&1 | grep -i "warn\|error\|mapping"
grep -n "Stamp\|Promise" out/types.ts out/commands.ts
