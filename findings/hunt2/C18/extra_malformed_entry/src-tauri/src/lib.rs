use serde::{Deserialize, Serialize};

#[derive(Serialize, Deserialize)]
pub struct Stamp { pub secs: u64 }

#[derive(Serialize, Deserialize)]
pub struct Blob { pub bytes: Vec<u8> }

#[tauri::command]
pub fn now(b: Blob) -> Stamp { todo!() }
