use tauri::{AppHandle, Emitter};

#[tauri::command]
pub fn count(app: AppHandle, total: u64, ratio: f32) -> u64 {
    app.emit("typed-var", total).unwrap();          // bigint  (ok)
    app.emit("suffixed", 5u64).unwrap();            // a u64 literal
    app.emit("suffixed-sep", 5_000_u64).unwrap();   // a u64 literal
    app.emit("ratio-var", ratio).unwrap();          // Float32 (ok)
    app.emit("ratio-lit", 0.5f32).unwrap();         // an f32 literal
    app.emit("byte", 7u8).unwrap();                 // a u8 literal, not mapped: number
    total
}
