use serde::{Deserialize, Serialize};

#[derive(Serialize, Deserialize)]
pub struct Stamp { pub secs: u64 }

#[derive(Serialize, Deserialize)]
pub struct Entry { pub at: Stamp, pub history: Vec<Option<Stamp>> }

#[tauri::command]
pub fn now(e: Entry) -> Stamp { todo!() }
