#!/bin/bash
# tauri.conf.json (found in the current directory) maps Stamp -> number; the sources are named with --project-path.
# The mapping is honoured only if a directory ./src-tauri (the DEFAULT projectPath, not used by this run) happens to exist.
cd "$(dirname "$0")"
rm -rf out_a out_b src-tauri
echo "== run A: no ./src-tauri directory"
/tmp/hunt2_C18/target/debug/cargo-tauri-typegen tauri-typegen generate --project-path ./rust/src --output-path ./out_a --force 2>&1 | grep -i "warn\|error\|mapping"
grep -n "Stamp" out_a/types.ts out_a/commands.ts
echo "== run B: same command line, same tauri.conf.json, after 'mkdir src-tauri' (an empty directory)"
mkdir src-tauri
/tmp/hunt2_C18/target/debug/cargo-tauri-typegen tauri-typegen generate --project-path ./rust/src --output-path ./out_b --force 2>&1 | grep -i "warn\|error\|mapping"
grep -n "Stamp\|at:\|history:\|Promise" out_b/types.ts out_b/commands.ts
rmdir src-tauri
