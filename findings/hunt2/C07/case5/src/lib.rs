use serde::{Deserialize, Serialize};
use tauri::{AppHandle, Emitter};

#[derive(Clone, Serialize, Deserialize)]
pub struct Progress { pub percent: u8 }

#[derive(Clone, Serialize, Deserialize)]
pub struct Done { pub ok: bool }

impl Progress {
    pub fn send(&self, app: &AppHandle) {
        app.emit("progress", self).ok();
    }
}

impl Done {
    pub fn send(app: &AppHandle) {
        app.emit("done", Self { ok: true }).ok();
    }
}

#[tauri::command]
pub fn run(app: AppHandle) {
    Progress { percent: 50 }.send(&app);
    Done::send(&app);
}
