#!/bin/bash
# regenerates the bindings of this case and shows the offending lines
here="$(cd "$(dirname "$0")" && pwd)"
bin=/tmp/hunt2_C07/target/debug/cargo-tauri-typegen
rm -rf "$here/out"
"$bin" tauri-typegen generate --project-path "$here" --output-path "$here/out" --validation none --force >/dev/null 2>&1
echo "--- events.ts:"; grep -n "listen<" "$here/out/events.ts"
echo "--- declarations of Progress / Done in types.ts (expected both):"; grep -n "interface \(Progress\|Done\)" "$here/out/types.ts" || echo "none"
