use serde::{Deserialize, Serialize};
use tauri::{AppHandle, Emitter, WebviewWindow};

#[derive(Clone, Serialize, Deserialize)]
pub struct Tick { pub n: u32 }
#[derive(Clone, Serialize, Deserialize)]
pub struct Tock { pub n: u32 }
#[derive(Clone, Serialize, Deserialize)]
pub struct Control { pub n: u32 }

#[tauri::command]
pub fn start(app_handle: AppHandle, win: WebviewWindow, app: AppHandle) {
    app_handle.emit("tick", Tick { n: 1 }).unwrap();
    win.emit("tock", Tock { n: 1 }).unwrap();
    // control: the same call through a variable that happens to be called `app`
    app.emit("control", Control { n: 1 }).unwrap();
}
