#!/bin/bash
# regenerates the bindings of this case and shows the offending lines
here="$(cd "$(dirname "$0")" && pwd)"
bin=/tmp/hunt2_C07/target/debug/cargo-tauri-typegen
rm -rf "$here/out"
"$bin" tauri-typegen generate --project-path "$here" --output-path "$here/out" --validation none --force >/dev/null 2>&1
echo "--- declarations in types.ts (expected Tick, Tock, Control):"; grep -n "^export" "$here/out/types.ts"
echo "--- listeners in events.ts (expected tick, tock, control):"; grep -n "listen<" "$here/out/events.ts"
