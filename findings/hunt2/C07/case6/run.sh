#!/bin/bash
# regenerates the bindings of this case and shows the offending lines
here="$(cd "$(dirname "$0")" && pwd)"
bin=/tmp/hunt2_C07/target/debug/cargo-tauri-typegen
rm -rf "$here/out"
"$bin" tauri-typegen generate --project-path "$here" --output-path "$here/out" --validation none --force >/dev/null 2>&1
echo "--- the name Channel is declared twice in types.ts (import + interface):"; grep -n "import type { Channel }\|export interface Channel\|Channel<" "$here/out/types.ts"
"$bin" tauri-typegen generate --project-path "$here" --output-path "$here/out_zod" --validation zod --force >/dev/null 2>&1
echo "--- zod mode:"; grep -n "import type { Channel }\|export type Channel\|Channel<" "$here/out_zod/types.ts"
