use serde::{Deserialize, Serialize};

// a chat application: `Channel` is a domain type (non-generic, so it is a project type)
#[derive(Clone, Serialize, Deserialize)]
pub struct Channel { pub id: u32, pub title: String }

#[derive(Clone, Serialize, Deserialize)]
pub struct Msg { pub text: String }

#[tauri::command]
pub fn list_channels() -> Vec<Channel> { todo!() }

#[tauri::command]
pub fn subscribe(channel_id: u32, on_message: tauri::ipc::Channel<Msg>) { let _ = (channel_id, on_message); }
