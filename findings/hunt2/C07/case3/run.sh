#!/bin/bash
# regenerates the bindings of this case and shows the offending lines
here="$(cd "$(dirname "$0")" && pwd)"
bin=/tmp/hunt2_C07/target/debug/cargo-tauri-typegen
rm -rf "$here/out"
"$bin" tauri-typegen generate --project-path "$here" --output-path "$here/out" --validation none --force >/dev/null 2>&1
echo "--- references:"; grep -n "ModelUser\|Prefs" "$here/out/commands.ts" "$here/out/types.ts"
echo "--- declarations of User / Settings / ModelUser / Prefs in types.ts (expected: User and Settings):"; grep -n "^export \(interface\|type\) \(User\|Settings\|ModelUser\|Prefs\)\b" "$here/out/types.ts" || echo "none"
