mod models {
    use serde::{Deserialize, Serialize};
    #[derive(Clone, Serialize, Deserialize)]
    pub struct User { pub id: u32, pub name: String }
    #[derive(Clone, Serialize, Deserialize)]
    pub struct Settings { pub dark: bool }
}
use models::User as ModelUser;
use models::Settings as Prefs;

#[tauri::command]
pub fn get_user(prefs: Prefs) -> ModelUser { todo!() }
