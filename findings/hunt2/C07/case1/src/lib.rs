use serde::Serialize;
use tauri::{AppHandle, Emitter};

#[tauri::command]
pub fn start_download(app: AppHandle, url: String) {
    // an item declared inside the function body: legal Rust, and the usual place for a
    // payload that only this command emits
    #[derive(Clone, Serialize)]
    struct DownloadProgress {
        url: String,
        percent: u8,
    }

    app.emit("download-progress", DownloadProgress { url, percent: 0 }).unwrap();
}
