#!/bin/bash
# regenerates the bindings of this case and shows the offending lines
here="$(cd "$(dirname "$0")" && pwd)"
bin=/tmp/hunt2_C07/target/debug/cargo-tauri-typegen
rm -rf "$here/out"
"$bin" tauri-typegen generate --project-path "$here" --output-path "$here/out" --validation none --force >/dev/null 2>&1
echo "--- events.ts refers to:"; grep -n "types\.DownloadProgress" "$here/out/events.ts"
echo "--- declarations of DownloadProgress in types.ts (expected 1):"; grep -c "DownloadProgress" "$here/out/types.ts"
