#!/bin/bash
# regenerates the bindings of this case and shows the offending lines
here="$(cd "$(dirname "$0")" && pwd)"
bin=/tmp/hunt2_C07/target/debug/cargo-tauri-typegen
rm -rf "$here/out"
"$bin" tauri-typegen generate --project-path "$here" --output-path "$here/out" --validation none --force >/dev/null 2>&1
echo "--- types.ts declares the unreachable Stats:"; grep -n -A3 "interface Stats" "$here/out/types.ts"
echo "--- events.ts types the u32 payload as Stats:"; grep -n "types\.Stats" "$here/out/events.ts"
