use serde::{Deserialize, Serialize};
use tauri::{AppHandle, Emitter};

// serde type of the project that no command, channel or event carries
#[derive(Clone, Serialize, Deserialize)]
pub struct Stats { pub mean: f64, pub max: u32 }

impl Stats {
    pub fn count(values: &[u32]) -> u32 { values.len() as u32 }
}

#[tauri::command]
pub fn total(app: AppHandle, values: Vec<u32>) {
    let total = Stats::count(&values); // a u32
    app.emit("total", total).ok();
}
