#[cfg(mobile)]
#[tauri::command]
pub fn open(path: String) -> String { String::new() }

#[cfg(desktop)]
#[tauri::command]
pub fn open(path: String, new_window: bool) -> u32 { 0 }
