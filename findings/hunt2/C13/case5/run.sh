#!/bin/sh
# after/ = before/ with the two items swapped.
cd "$(dirname "$0")"
BIN=${BIN:-../../target/debug/cargo-tauri-typegen}
for v in before after; do
  rm -rf $v/out
  $BIN tauri-typegen generate --project-path $v/src --output-path $v/out --validation none --force >/dev/null 2>&1
  echo "== $v"; sed -n '/interface OpenParams/,/^}/p' $v/out/types.ts; grep -n "function open" $v/out/commands.ts
done
exit 0
