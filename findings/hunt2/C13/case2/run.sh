#!/bin/sh
# after/ = before/ plus one inserted NON-Tauri function (a poise bot command of the same name, in an inline module).
cd "$(dirname "$0")"
BIN=${BIN:-../../target/debug/cargo-tauri-typegen}
for v in before after; do
  rm -rf $v/out
  $BIN tauri-typegen generate --project-path $v/src --output-path $v/out --validation none --force >/dev/null 2>&1
done
echo "== DownloadParams before"; sed -n '/interface DownloadParams/,/^}/p' before/out/types.ts
echo "== DownloadParams after (onChunk channel gone)"; sed -n '/interface DownloadParams/,/^}/p' after/out/types.ts
echo "== Chunk declared? before: $(grep -c 'interface Chunk' before/out/types.ts)  after: $(grep -c 'interface Chunk' after/out/types.ts)"
diff -I 'Generated at' before/out/types.ts after/out/types.ts
diff -I 'Generated at' before/out/commands.ts after/out/commands.ts
exit 0
