use serde::Serialize;
use tauri::ipc::Channel;

#[derive(Serialize, Clone)]
pub struct Chunk { data: Vec<u8> }

// a Discord bot command of the same name, not a Tauri command
mod bot {
    #[poise::command(slash_command)]
    pub async fn download(ctx: Context<'_>, url: String) -> Result<(), Error> { Ok(()) }
}

#[tauri::command]
pub fn download(url: String, on_chunk: Channel<Chunk>) {}
