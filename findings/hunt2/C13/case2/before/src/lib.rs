use serde::Serialize;
use tauri::ipc::Channel;

#[derive(Serialize, Clone)]
pub struct Chunk { data: Vec<u8> }

#[tauri::command]
pub fn download(url: String, on_chunk: Channel<Chunk>) {}
