use std::fs;
use tauri_typegen::{generate_from_config, GenerateConfig};

#[test]
fn lib_api_leaves_events_ts_behind() {
    let root = std::env::temp_dir().join(format!("hunt2_c13_lib_{}", std::process::id()));
    let _ = fs::remove_dir_all(&root);
    fs::create_dir_all(root.join("src")).unwrap();
    fs::write(
        root.join("src/lib.rs"),
        "#[tauri::command]\npub fn go(app: tauri::AppHandle) { app.emit(\"tick\", 1).unwrap(); }\n",
    )
    .unwrap();
    let config = GenerateConfig {
        project_path: root.join("src").to_string_lossy().to_string(),
        output_path: root.join("out").to_string_lossy().to_string(),
        force: Some(true),
        ..Default::default()
    };
    let first = generate_from_config(&config).unwrap();
    println!("first: {:?}", first);
    fs::write(root.join("src/lib.rs"), "#[tauri::command]\npub fn go(app: tauri::AppHandle) {}\n").unwrap();
    let second = generate_from_config(&config).unwrap();
    println!("second: {:?}", second);
    let mut left: Vec<_> = fs::read_dir(root.join("out")).unwrap().map(|e| e.unwrap().file_name()).collect();
    left.sort();
    println!("in directory: {:?}", left);
}
