use serde::Serialize;
#[derive(Serialize)]
pub struct User { id: u32 }
// no longer a command
pub fn get_user() -> User { User { id: 1 } }
