#!/bin/sh
# step1: one command. step2: the same sources with the last #[tauri::command] removed. Both runs go to the SAME output directory.
cd "$(dirname "$0")"
BIN=${BIN:-../../target/debug/cargo-tauri-typegen}
rm -rf out fresh
$BIN tauri-typegen generate --project-path step1/src --output-path out --validation none --force >/dev/null 2>&1
echo "== after run 1:"; ls -A out
$BIN tauri-typegen generate --project-path step2/src --output-path out --validation none --force; echo "exit code of run 2: $?"
echo "== after run 2 (same directory): everything of run 1 is still there"; ls -A out
grep -n "getUser" out/commands.ts
echo "== run 2 into a fresh directory:"
$BIN tauri-typegen generate --project-path step2/src --output-path fresh --validation none --force >/dev/null 2>&1; ls -A fresh 2>&1
echo "== library API (generate_from_config): events.ts of an earlier run is never removed"
cp lib_api_test.rs ../../tests/zz_hunt2_c13_lib.rs
(cd ../.. && cargo test --offline --test zz_hunt2_c13_lib -- --nocapture 2>&1 | grep -E "^first|^second|^in directory")
rm -f ../../tests/zz_hunt2_c13_lib.rs
exit 0
