use serde::Serialize;
#[derive(Serialize)]
pub struct Info { v: u32 }
#[tauri::command]
fn info() -> Info { Info { v: 1 } }
#[tauri::command]
pub fn other() {}
pub fn run() {
    tauri::Builder::default()
        .invoke_handler(tauri::generate_handler![info, other])
        .run(tauri::generate_context!())
        .unwrap();
}
