use serde::Serialize;
use tauri::{AppHandle, Emitter};

#[derive(Serialize, Clone)]
pub struct Job { id: u32 }

pub struct Worker { app: AppHandle }
impl Worker {
    fn done(&self, job: Job) { self.app.emit("job-done", job).unwrap(); }
}
fn helper(app: &AppHandle) {
    app.emit("helper-ran", 1).unwrap();
}
#[tauri::command]
pub fn start(app: AppHandle) -> Job {
    helper(&app);
    Job { id: 1 }
}
