#!/bin/sh
# before/: emits in an inherent method and in a free helper function.
# after/:  the same two functions moved: `done` is now a provided (default) method of a trait, `helper` a fn nested in the command body.
cd "$(dirname "$0")"
BIN=${BIN:-../../target/debug/cargo-tauri-typegen}
for v in before after; do
  rm -rf $v/out
  $BIN tauri-typegen generate --project-path $v/src --output-path $v/out --validation none --force >/dev/null 2>&1
done
echo "== before: files and listeners"; ls before/out; grep -n "export async function" before/out/events.ts
echo "== after: files and listeners"; ls after/out; grep -n "export async function" after/out/events.ts 2>&1
echo "== index.ts after"; grep -n export after/out/index.ts
echo "== command moved into the body of run(): cmd_before vs cmd_after"
for v in cmd_before cmd_after; do
  rm -rf $v/out
  $BIN tauri-typegen generate --project-path $v/src --output-path $v/out --validation none --force >/dev/null 2>&1
  echo "-- $v"; grep -n "export async function" $v/out/commands.ts; grep -n "export interface" $v/out/types.ts
done
exit 0
