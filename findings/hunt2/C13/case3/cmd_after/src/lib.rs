use serde::Serialize;
#[derive(Serialize)]
pub struct Info { v: u32 }
#[tauri::command]
pub fn other() {}
pub fn run() {
    // the command moved next to the only place that names it
    #[tauri::command]
    fn info() -> Info { Info { v: 1 } }
    tauri::Builder::default()
        .invoke_handler(tauri::generate_handler![info, other])
        .run(tauri::generate_context!())
        .unwrap();
}
