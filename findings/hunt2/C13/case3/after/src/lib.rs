use serde::Serialize;
use tauri::{AppHandle, Emitter};

#[derive(Serialize, Clone)]
pub struct Job { id: u32 }

pub struct Worker { app: AppHandle }
pub trait Notify {
    fn app(&self) -> &AppHandle;
    fn done(&self, job: Job) { self.app().emit("job-done", job).unwrap(); }
}
impl Notify for Worker { fn app(&self) -> &AppHandle { &self.app } }

#[tauri::command]
pub fn start(app: AppHandle) -> Job {
    fn helper(app: &AppHandle) {
        app.emit("helper-ran", 1).unwrap();
    }
    helper(&app);
    Job { id: 1 }
}
