#!/bin/sh
# after/ = before/ plus a struct without serde derives and an impl with two plain methods (a socket.io client wrapper).
cd "$(dirname "$0")"
BIN=${BIN:-../../target/debug/cargo-tauri-typegen}
for v in before after; do
  rm -rf $v/out
  $BIN tauri-typegen generate --project-path $v/src --output-path $v/out --validation none --force >/dev/null 2>&1
  echo "== $v"; ls $v/out; grep -n "export" $v/out/index.ts
done
grep -n "export async function\|listen<" after/out/events.ts
exit 0
