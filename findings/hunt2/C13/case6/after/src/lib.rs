#[tauri::command]
pub fn ping() {}

// socket.io client, nothing to do with Tauri
pub struct Chat { sock: rust_socketio::client::Client }
impl Chat {
    fn client(&self) -> &rust_socketio::client::Client { &self.sock }
    pub fn join(&self, room: String) {
        self.client().emit("join", room).unwrap();
    }
}
