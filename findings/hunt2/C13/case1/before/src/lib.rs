use serde::Serialize;
use tauri::{AppHandle, Emitter};

#[derive(Serialize, Clone)]
struct TickPayload { n: u32 }

#[tauri::command]
pub fn start(app: AppHandle) {
    app.emit("tick", TickPayload { n: 1 }).unwrap();
}
