use serde::Serialize;
use tauri::{AppHandle, Emitter};

#[tauri::command]
pub fn start(app: AppHandle) {
    #[derive(Serialize, Clone)]
    struct TickPayload { n: u32 }

    app.emit("tick", TickPayload { n: 1 }).unwrap();
}
