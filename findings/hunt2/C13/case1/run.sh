#!/bin/sh
# before/: TickPayload at module level.  after/: the same struct moved into the body of the command that emits it.
cd "$(dirname "$0")"
BIN=${BIN:-../../target/debug/cargo-tauri-typegen}
for v in before after; do
  for mode in none zod; do
    rm -rf $v/out_$mode
    $BIN tauri-typegen generate --project-path $v/src --output-path $v/out_$mode --validation $mode --force >/dev/null 2>&1
  done
done
echo "== events.ts (identical in both): the listener is typed by types.TickPayload"
grep -n "types.TickPayload" after/out_none/events.ts
echo "== declarations of TickPayload in types.ts"
for v in before after; do for mode in none zod; do printf "%s/%s: " $v $mode; grep -c "TickPayload" $v/out_$mode/types.ts; done; done
echo "== diff before/after (types.ts, none)"
diff -I 'Generated at' before/out_none/types.ts after/out_none/types.ts
exit 0
