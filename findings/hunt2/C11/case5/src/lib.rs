use serde::{Deserialize, Serialize};
use validator::Validate;

pub mod rules {
    pub fn url(_: &str) -> Result<(), validator::ValidationError> { Ok(()) }
}

#[derive(Serialize, Deserialize, Validate)]
pub struct Form {
    #[validate(email)]
    pub email: String,
    #[validate(must_match(other = email))]
    pub repeat: String,
    #[validate(custom(function = crate::rules::url))]
    pub homepage: String,
}

#[tauri::command]
pub fn submit(f: Form) {}
