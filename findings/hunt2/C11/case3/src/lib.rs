use serde::{Deserialize, Serialize};
use validator::Validate;

pub const MIN_NAME: u64 = 2;

#[derive(Serialize, Deserialize, Validate)]
pub struct Packet {
    #[validate(range(min = 0x10, max = 0xff))]
    pub hex: u32,
    #[validate(range(min = 0b1, max = 0o17))]
    pub binoct: u32,
    #[validate(range(min = 0, max = u16::MAX))]
    pub port: u32,
    #[validate(range(min = 0, max = 60 * 60))]
    pub seconds: u32,
    #[validate(length(min = MIN_NAME, max = 64))]
    pub name: String,
    #[validate(length(min = 0x1, max = 0x10))]
    pub tag: String,
    // control
    #[validate(range(min = 16, max = 255))]
    pub dec: u32,
}

#[tauri::command]
pub fn send(p: Packet) {}
