use serde::{Deserialize, Serialize};
use validator::Validate;

#[derive(Serialize, Deserialize, Validate)]
pub struct Profile {
    #[validate(length(min = 2, message = "too short"))]
    #[validate(length(max = 5, message = "too long"))]
    pub nick: String,
    #[validate(range(min = 1, message = "too small"))]
    #[validate(range(max = 9, message = "too big"))]
    pub level: u8,
    #[validate(length(max = 5), length(min = 2))]
    pub code: String,
}

#[tauri::command]
pub fn update(p: Profile) {}
