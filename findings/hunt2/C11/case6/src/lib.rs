use serde::{Deserialize, Serialize};
use validator::Validate;

#[derive(Serialize, Deserialize, Validate)]
pub struct Ids {
    #[validate(range(min = 1, max = 9007199254740993))]
    pub a: u64,
    #[validate(range(min = -9223372036854775808, max = 9223372036854775807))]
    pub b: i64,
    #[validate(range(min = 1, max = 18446744073709551615))]
    pub c: u64,
}

#[tauri::command]
pub fn ids(i: Ids) {}
