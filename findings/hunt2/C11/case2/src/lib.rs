use serde::{Deserialize, Serialize};

#[derive(Serialize, Deserialize)]
#[cfg_attr(feature = "validation", derive(validator::Validate))]
pub struct Signup {
    #[cfg_attr(feature = "validation", validate(length(min = 3, max = 20)))]
    pub name: String,
    #[cfg_attr(all(), validate(email))]
    pub mail: String,
    #[cfg_attr(all(), validate(range(min = 18, max = 120)))]
    pub age: u8,
    // control: the same written directly
    #[validate(range(min = 18, max = 120))]
    pub age2: u8,
}

#[tauri::command]
pub fn signup(form: Signup) {}
