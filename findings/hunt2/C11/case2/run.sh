#!/bin/sh
# regenerates the bindings for this case and prints the offending lines
cd "$(dirname "$0")"
BIN=../../target/debug/cargo-tauri-typegen
rm -rf out
$BIN tauri-typegen generate --project-path . --output-path out --validation zod --force  >/dev/null 2>&1
grep -n -E '^  (name|mail|age|age2):' out/types.ts
