#!/bin/sh
# regenerates the bindings for this case and prints the offending lines
cd "$(dirname "$0")"
BIN=../../target/debug/cargo-tauri-typegen
rm -rf out
$BIN tauri-typegen generate --project-path . --output-path out --validation zod --force --config typegen.json >/dev/null 2>&1
grep -n -E '^  (id|addr|token|small):' out/types.ts
