use serde::{Deserialize, Serialize};
use validator::Validate;

pub type Email = String;

#[derive(Serialize, Deserialize, Validate)]
pub struct Account {
    #[validate(range(min = 1, max = 5))]
    pub id: u64,
    #[validate(email, length(min = 3, max = 64, message = "3 to 64 characters"))]
    pub addr: Email,
    #[validate(length(min = 1, max = 16))]
    pub token: Vec<u8>,
    // control: same validators, type not mapped
    #[validate(range(min = 1, max = 5))]
    pub small: u32,
}

#[tauri::command]
pub fn save(account: Account) {}
