#!/bin/bash
# BuildSystem::run_generation (the build.rs entry point) probes the output directory by writing
# "test" into <out>/generated_write_test.tmp with fs::write: an entry of that (reserved) name that is
# a symlink or hard link is written THROUGH - a file outside the output directory / a project source
# is overwritten. (write_generated_file replaces links; this probe does not.)
HERE=$(cd "$(dirname "$0")" && pwd); ROOT=/tmp/hunt2_C16
cp "$HERE/hunt_c16_build.rs" "$ROOT/tests/hunt_c16_build.rs"   # untracked helper: chdir + BuildSystem::new(..).run_generation()
rm -rf "$HERE/_work" && cp -r "$HERE/project" "$HERE/_work" && cd "$HERE/_work/app"
ln -s ../../../outside/notes.txt src/generated/generated_write_test.tmp          # symlink to a file outside
echo "before: outside/notes.txt = $(cat ../outside/notes.txt)"
(cd "$ROOT" && HUNT_CWD="$HERE/_work/app" cargo test --offline --test hunt_c16_build -- --nocapture 2>&1 | grep RESULT)
echo "after : outside/notes.txt = $(cat ../outside/notes.txt)"
# same with a hard link to a project source
rm -rf src/generated/* src/generated/.typecache; ln src-tauri/src/util.rs src/generated/generated_write_test.tmp
echo "before: src-tauri/src/util.rs = $(cat src-tauri/src/util.rs)"
(cd "$ROOT" && HUNT_CWD="$HERE/_work/app" cargo test --offline --test hunt_c16_build -- --nocapture 2>&1 | grep RESULT)
echo "after : src-tauri/src/util.rs = $(cat src-tauri/src/util.rs)"
