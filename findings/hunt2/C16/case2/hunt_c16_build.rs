// Helper: runs BuildSystem in the directory named by HUNT_CWD (as a build.rs would, from its cwd)
#[test]
fn run_build_system_in_dir() {
    let Ok(dir) = std::env::var("HUNT_CWD") else { return };
    std::env::set_current_dir(&dir).unwrap();
    let r = tauri_typegen::BuildSystem::new(true, true).run_generation();
    println!("RESULT: {:?}", r.map_err(|e| e.to_string()));
}
