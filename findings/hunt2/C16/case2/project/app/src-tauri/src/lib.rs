use serde::{Deserialize, Serialize};
use tauri::Emitter;

#[derive(Serialize, Deserialize)]
pub struct User { pub id: i32, pub name: String }

#[tauri::command]
pub fn get_user(id: i32) -> User { todo!() }

#[tauri::command]
pub fn ping(app: tauri::AppHandle) { app.emit("pinged", 1u32).unwrap(); }
