pub fn helper() {}
