// prost output, checked in
#[derive(serde::Serialize, serde::Deserialize)]
pub struct Msg { pub a: u32 }
