pub fn x() {}
