#!/bin/bash
# The bindings are written next to the Rust sources (--output-path src-tauri/src). The clean-up
# after generation removes every file of the output directory whose name starts with generated_
# or contains _generated - whatever its extension: the project sources generated_proto.rs and
# api_generated.rs (both `mod`-declared in lib.rs) are deleted.
HERE=$(cd "$(dirname "$0")" && pwd); BIN=/tmp/hunt2_C16/target/debug/cargo-tauri-typegen
rm -rf "$HERE/_work" && cp -r "$HERE/project" "$HERE/_work" && cd "$HERE/_work/app"
echo "--- before:"; ls -A src-tauri/src
"$BIN" tauri-typegen generate --project-path src-tauri --output-path src-tauri/src --validation none --force >/dev/null; echo "exit code: $?"
echo "--- after:"; ls -A src-tauri/src
echo "--- lib.rs still says:"; grep '^mod' src-tauri/src/lib.rs
