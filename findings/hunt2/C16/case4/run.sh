#!/bin/bash
# src-tauri/tauri.conf.json carries the configuration block exactly as README.md ("This creates a
# configuration block in your tauri.conf.json", also lib.rs docs) shows it: plugins."tauri-typegen"
# with snake_case keys, output_path ../src/bindings. The reader only knows plugins.typegen with
# camelCase keys, so the block is ignored and the run writes to the default ./src/generated.
HERE=$(cd "$(dirname "$0")" && pwd); BIN=/tmp/hunt2_C16/target/debug/cargo-tauri-typegen
rm -rf "$HERE/_work" && cp -r "$HERE/project" "$HERE/_work" && cd "$HERE/_work/app"
touch ../marker; sleep 0.1
"$BIN" tauri-typegen generate | grep Location; echo "exit code: ${PIPESTATUS[0]}"
echo "--- configured: src/bindings (relative to src-tauri) ->"; ls -A src/bindings 2>&1
echo "--- written instead:"; find . -newer ../marker -type f | sort
