export * from './types'
