// graphql-codegen output, hand-tuned
