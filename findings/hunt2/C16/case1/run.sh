#!/bin/bash
# tauri.conf.json configures outputPath ./bindings, but its typegen section fails validation
# ("Zod" instead of "zod"); the CLI drops the section without a word and writes into ./src/generated
HERE=$(cd "$(dirname "$0")" && pwd); BIN=/tmp/hunt2_C16/target/debug/cargo-tauri-typegen
rm -rf "$HERE/_work" && cp -r "$HERE/project" "$HERE/_work" && cd "$HERE/_work/app"
(find . -type f | sort | xargs sha256sum) > ../before.txt
"$BIN" tauri-typegen generate; echo "exit code: $?"
(find . -type f | sort | xargs sha256sum) > ../after.txt
echo "--- configured output directory ./bindings:"; ls -A bindings
echo "--- files changed/created (none of them under ./bindings):"; diff ../before.txt ../after.txt | grep '^[<>]'
echo "--- user's src/generated/types.ts is now:"; head -3 src/generated/types.ts
