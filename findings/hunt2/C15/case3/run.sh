#!/bin/bash
# src/lib.rs: one ordinary command; src/table.rs: a helper fn with a flat chain of 2000 `else if` branches
# (syn parses the chain iteratively, rustc compiles it). The tool aborts with a stack overflow (exit 134)
# while cloning the AST of table.rs (AstCache::get_cloned in analyze_project_with_verbose); nothing is written.
cd "$(dirname "$0")"
BIN=../../target/debug/cargo-tauri-typegen
[ -f src/table.rs ] || python3 gen.py 2000
rm -rf out
$BIN tauri-typegen generate --project-path . --output-path out --validation none --force >/dev/null 2>err.txt
echo "exit $?   (expected by the property: 0 or 1)"
grep -a "stack overflow" err.txt
ls out 2>/dev/null || echo "no output directory written"
command -v rustc >/dev/null && rustc --edition 2021 --crate-type lib -o ./_table.rlib src/table.rs && echo "rustc accepts src/table.rs" && rm -f ./_table.rlib
