import sys, os
n = int(sys.argv[1]) if len(sys.argv) > 1 else 2000
d = os.path.dirname(os.path.abspath(__file__))
s = "// a plain helper, not even a command: a chain of else-if branches (rustc compiles it)\npub fn bucket(x: u32) -> u32 {\n    if x == 0 { 0 }\n" + "".join(f"    else if x == {i} {{ {i} }}\n" for i in range(1, n)) + "    else { 0 }\n}\n"
open(os.path.join(d, "src", "table.rs"), "w").write(s)
