use serde::Serialize;
mod table;

#[derive(Serialize)]
pub struct User { pub name: String }

#[tauri::command]
pub fn get_user() -> User { todo!() }
