import sys,os
N=int(sys.argv[1]); d=sys.argv[2]; per=int(sys.argv[3]) if len(sys.argv)>3 else 20
os.makedirs(d+'/src',exist_ok=True)
f=None
for i in range(N+1):
    if i%per==0:
        if f: f.close()
        f=open(f"{d}/src/m{i//per:06d}.rs",'w')
        f.write("use serde::{Serialize,Deserialize};\n")
    if i<N:
        f.write(f"#[derive(Serialize,Deserialize)] pub struct S{i} {{ pub next: Option<S{i+1}> }}\n")
    else:
        f.write(f"#[derive(Serialize,Deserialize)] pub struct S{N} {{ pub v: u8 }}\n")
f.close()
open(d+'/src/lib.rs','w').write("#[tauri::command] pub fn head() -> S0 { todo!() }\n")
