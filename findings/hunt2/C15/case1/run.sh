#!/bin/bash
# 25001 flat struct declarations S0 -> S1 -> ... -> S25000 (each `pub next: Option<S{i+1}>`),
# 50 per file, no nesting anywhere; one command returns S0.
# --validation zod: stack overflow (SIGABRT, exit 134) in TypeDependencyGraph::topological_visit
# --validation none: exit 0 (shown for contrast)
cd "$(dirname "$0")"
ROOT=../..
BIN=$ROOT/target/debug/cargo-tauri-typegen
[ -d src ] && [ "$(ls src | wc -l)" -gt 400 ] || python3 gen.py 25000 . 50
rm -rf out_zod out_none
$BIN tauri-typegen generate --project-path . --output-path out_none --validation none --force >/dev/null 2>err_none.txt
echo "validation none: exit $?"
$BIN tauri-typegen generate --project-path . --output-path out_zod --validation zod --force >/dev/null 2>err_zod.txt
echo "validation zod: exit $?   (expected by the property: 0 or 1)"
grep -a "stack overflow" err_zod.txt
ls out_zod 2>/dev/null | head
