#!/bin/bash
# Needs ~4.2 GB of disk, ~10 GB of RAM and a few minutes.
# src/lib.rs holds one command; gen.py adds 42 valid Rust files (a helper fn + blank lines), 4.2 GiB in total.
# The tool panics: proc-macro2 (feature span-locations, switched on in Cargo.toml) keeps ONE source map
# with u32 offsets for every file parsed on the thread; the 42nd file pushes the offset past u32::MAX:
#   thread 'main' panicked at .../proc-macro2-1.0.107/src/fallback.rs:469:17: attempt to add with overflow
# exit status 101, no output written.
cd "$(dirname "$0")"
BIN=../../target/debug/cargo-tauri-typegen
ls src/pad41.rs >/dev/null 2>&1 || python3 gen.py
rm -rf out
$BIN tauri-typegen generate --project-path . --output-path out --validation none --force >/dev/null 2>err.txt
echo "exit $?   (expected by the property: 0 or 1)"
grep -a -A1 "panicked" err.txt | cut -c1-200
ls out 2>/dev/null || echo "no output directory written"
[ "$KEEP" = 1 ] || rm -f src/pad*.rs
