# Writes 42 valid Rust files of 100 MiB each into src/: one empty helper function followed by blank lines
# (1023 spaces + newline). Together with lib.rs the tree holds a little more than 2^32 characters.
import os
d = os.path.dirname(os.path.abspath(__file__))
pad = (" " * 1023 + "\n") * (100 * 1024)
for i in range(42):
    with open(os.path.join(d, "src", f"pad{i:02d}.rs"), "w") as f:
        f.write(f"pub fn helper{i}() {{}}\n")
        f.write(pad)
