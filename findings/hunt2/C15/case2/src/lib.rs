#[tauri::command]
pub fn greet(name: String) -> String { name }
