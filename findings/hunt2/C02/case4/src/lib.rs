// `Self` used where a type is named: in the fields of a recursive struct, in a
// struct literal handed to emit, and as the declared type of a parameter.
use serde::{Deserialize, Serialize};
use tauri::{AppHandle, Emitter};

#[derive(Serialize, Deserialize, Clone)]
pub struct Category {
    pub name: String,
    pub children: Vec<Self>,
}

#[derive(Serialize, Clone)]
pub struct Progress {
    pub percent: u8,
}

impl Progress {
    pub fn announce_start(app: &AppHandle) {
        app.emit("progress-start", Self { percent: 0 }).unwrap();
    }

    pub fn announce(app: &AppHandle, current: &Self) {
        app.emit("progress", current).unwrap();
    }
}

#[tauri::command]
pub fn categories() -> Vec<Category> {
    vec![]
}
