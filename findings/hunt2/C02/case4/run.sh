#!/bin/bash
. "$(dirname "$0")/../common.sh"
gen none; gen zod
show "types.ts (none): field type Self[]" "$HERE/out_none/types.ts" 'Self'
show "types.ts (zod): SelfSchema is read, never defined" "$HERE/out_zod/types.ts" 'Self'
show "events.ts: types.Self" "$HERE/out_none/events.ts" 'types\.Self'
show "declarations of Self (expected none - and there are none)" "$HERE/out_none/types.ts" '(interface|type) Self\b'
