// Distinct command names (Tauri invokes them by their Rust names) that the
// generator turns into the same TypeScript identifiers.

#[tauri::command]
pub fn get_user2(id: u32) -> String {
    id.to_string()
}

#[tauri::command]
pub fn get_user_2(index: u32) -> String {
    index.to_string()
}

#[tauri::command]
pub fn delete(path: String) -> bool {
    path.is_empty()
}

#[tauri::command]
pub fn delete_(key: String) -> bool {
    key.is_empty()
}
