#!/bin/bash
. "$(dirname "$0")/../common.sh"
gen none; gen zod
show "commands.ts (none): the same function exported twice" "$HERE/out_none/commands.ts" 'export async function'
show "types.ts (none): the same interface exported twice" "$HERE/out_none/types.ts" 'export interface'
show "types.ts (zod): the same const and the same type alias exported twice" "$HERE/out_zod/types.ts" 'export (const|type)'
show "commands.ts (zod)" "$HERE/out_zod/commands.ts" 'export async function'
