# sourced by the run.sh of each case: gen <mode> regenerates out_<mode>/
HERE="$(cd "$(dirname "${BASH_SOURCE[1]}")" && pwd)"
BIN="$HERE/../../target/debug/cargo-tauri-typegen"
gen() {
  rm -rf "$HERE/out_$1"
  "$BIN" tauri-typegen generate --project-path "$HERE" --output-path "$HERE/out_$1" --validation "$1" --force >/dev/null 2>&1 || { echo "generation failed ($1)"; exit 1; }
}
show() { # show <label> <file> <pattern>
  echo "== $1"
  grep -nE "$3" "$2" || echo "   (no match)"
}
