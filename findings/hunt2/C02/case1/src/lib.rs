// A serde type defined inside a function body (the usual place for a payload
// that only one command emits).
use serde::Serialize;
use tauri::{AppHandle, Emitter};

#[tauri::command]
pub fn start_download(app: AppHandle, url: String) -> Result<(), String> {
    #[derive(Clone, Serialize)]
    struct DownloadProgress {
        url: String,
        percent: u8,
    }

    #[derive(Clone, Serialize)]
    enum Phase {
        Started,
        Finished,
    }

    app.emit("download-progress", DownloadProgress { url, percent: 0 })
        .map_err(|e| e.to_string())?;
    let phase: Phase = Phase::Started;
    app.emit("download-phase", phase).map_err(|e| e.to_string())?;
    Ok(())
}
