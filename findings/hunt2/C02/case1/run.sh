#!/bin/bash
. "$(dirname "$0")/../common.sh"
gen none; gen zod
show "events.ts refers to types.DownloadProgress / types.Phase" "$HERE/out_none/events.ts" 'types\.(DownloadProgress|Phase)'
show "types.ts (none) declares neither (expected: a declaration of each)" "$HERE/out_none/types.ts" 'DownloadProgress|Phase'
show "events.ts (zod) refers to them as well" "$HERE/out_zod/events.ts" 'types\.(DownloadProgress|Phase)'
show "types.ts (zod) declares neither" "$HERE/out_zod/types.ts" 'DownloadProgress|Phase'
