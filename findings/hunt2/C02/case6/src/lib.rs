// emit inside a method of a generic impl block: the payload has the type of a
// type parameter that belongs to the impl, not to the method.
use serde::Serialize;
use tauri::{AppHandle, Emitter};

pub struct Bus<T> {
    pub last: Option<T>,
}

impl<T: Serialize + Clone> Bus<T> {
    pub fn publish(&mut self, app: &AppHandle, item: T) {
        app.emit("bus-item", item.clone()).unwrap();
        let batch: Vec<T> = vec![item.clone()];
        app.emit("bus-batch", batch).unwrap();
        self.last = Some(item);
    }
}

#[tauri::command]
pub fn ping() -> String {
    "pong".into()
}
