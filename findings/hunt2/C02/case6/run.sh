#!/bin/bash
. "$(dirname "$0")/../common.sh"
gen none; gen zod
show "events.ts (none): types.T" "$HERE/out_none/events.ts" 'types\.T\b'
show "events.ts (zod): types.T" "$HERE/out_zod/events.ts" 'types\.T\b'
show "types.ts: nothing named T is declared" "$HERE/out_none/types.ts" '\bT\b'
