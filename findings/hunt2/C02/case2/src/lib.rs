// Generic serde structs that are named WITHOUT type arguments: by a struct
// literal in emit (the arguments are inferred) and through a default type
// parameter.
use serde::{Deserialize, Serialize};
use tauri::{AppHandle, Emitter};

#[derive(Serialize, Deserialize, Clone)]
pub struct Item {
    pub id: u32,
}

#[derive(Serialize, Clone)]
pub struct Envelope<P> {
    pub body: P,
    pub seq: u64,
}

#[derive(Serialize, Deserialize, Clone)]
pub struct Page<T = Item> {
    pub items: Vec<T>,
    pub total: u32,
}

#[tauri::command]
pub fn list_items() -> Page {
    Page { items: vec![], total: 0 }
}

#[tauri::command]
pub fn announce(app: AppHandle) {
    app.emit("envelope", Envelope { body: Item { id: 1 }, seq: 1 }).unwrap();
}
