#!/bin/bash
. "$(dirname "$0")/../common.sh"
gen none; gen zod
show "types.ts (none): the interfaces name their Rust type parameters P and T, which nothing declares" "$HERE/out_none/types.ts" 'interface (Envelope|Page)|: (P|T)(\[\])?;'
show "types.ts (none): declarations of P or T (expected none - and there are none)" "$HERE/out_none/types.ts" '(interface|type) (P|T)\b'
show "types.ts (zod): the schemas read PSchema / TSchema, constants that are never defined" "$HERE/out_zod/types.ts" 'PSchema|TSchema'
show "users: commands.ts / events.ts" "$HERE/out_none/commands.ts" 'types\.Page'
show "" "$HERE/out_none/events.ts" 'types\.Envelope'
