#!/bin/bash
. "$(dirname "$0")/../common.sh"
gen none; gen zod
show "commands.ts: types.Account" "$HERE/out_none/commands.ts" 'types\.Account'
show "events.ts: types.Account" "$HERE/out_none/events.ts" 'types\.Account'
show "types.ts (none): Account is used ..." "$HERE/out_none/types.ts" 'Account'
show "types.ts (none): ... but neither Account nor User is declared" "$HERE/out_none/types.ts" '(interface|type) (Account|User)\b'
show "types.ts (zod): AccountSchema is read, never defined" "$HERE/out_zod/types.ts" 'AccountSchema|UserSchema'
