// A project type used under the name of a renaming import.
use serde::{Deserialize, Serialize};
use tauri::{AppHandle, Emitter};

pub mod models {
    use serde::{Deserialize, Serialize};

    #[derive(Serialize, Deserialize, Clone)]
    pub struct User {
        pub id: u32,
        pub name: String,
    }
}

use crate::models::User as Account;

#[derive(Serialize, Deserialize, Clone)]
pub struct Team {
    pub owner: Account,
    pub members: Vec<Account>,
}

#[tauri::command]
pub fn current_account() -> Account {
    Account { id: 1, name: "a".into() }
}

#[tauri::command]
pub fn save_team(app: AppHandle, team: Team, by: Account) {
    app.emit("team-saved-by", by).unwrap();
    let _ = team;
}
