use serde::{Deserialize, Serialize};
use tauri::{AppHandle, Emitter};
use tauri::ipc::Channel;

#[derive(Serialize, Deserialize, Clone)]
pub struct Item { pub id: u32 }

// arrays and slices are translated as parameter, return and field types ...
#[derive(Serialize, Deserialize, Clone)]
pub struct Grid { pub cells: [[u8; 3]; 3], pub items: [Item; 2] }

#[tauri::command]
pub fn put(rgb: [u8; 3], items: [Item; 2], ch: Channel<[Item; 2]>, raw: Channel<&'static [u8]>) -> [Item; 2] { todo!() }
#[tauri::command]
pub fn grid() -> Grid { todo!() }

// ... but not as event payloads (and a slice not as channel message)
pub fn ev(app: &AppHandle, rgb: [u8; 3], items: &[Item], rows: Vec<[u8; 3]>, pair: (Item, [u8; 2]), maybe: Option<[Item; 2]>) {
    app.emit("rgb", rgb).unwrap();
    app.emit("items", items).unwrap();
    app.emit("rows", rows).unwrap();
    app.emit("pair", pair).unwrap();
    app.emit("maybe", maybe).unwrap();
    let cells: [[u8; 3]; 3] = [[0; 3]; 3];
    app.emit("cells", cells).unwrap();
}
