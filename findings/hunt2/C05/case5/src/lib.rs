use serde::{Deserialize, Serialize};
use std::collections::HashMap;
use tauri::{AppHandle, Emitter};
use tauri::ipc::Channel;

#[derive(Serialize, Deserialize, Clone)]
pub struct Key { pub code: char, pub alternatives: Vec<char>, pub shifted: Option<char>, pub pair: (char, u8), pub names: HashMap<String, char> }

#[tauri::command]
pub fn press(key: char, more: Vec<char>, ch: Channel<char>) -> Option<char> { todo!() }
#[tauri::command]
pub fn layout() -> Vec<Key> { todo!() }

pub fn ev(app: &AppHandle, c: char, cs: Vec<char>) {
    app.emit("key", c).unwrap();
    app.emit("keys", cs).unwrap();
}
