use serde::Serialize;
use tauri::{AppHandle, Emitter};

// the pattern of the Tauri guide: the payload struct is declared inside the function that emits it
#[tauri::command]
pub fn download(app: AppHandle, url: String) {
    #[derive(Clone, Serialize)]
    #[serde(rename_all = "camelCase")]
    struct DownloadStarted {
        url: String,
        download_id: usize,
        content_length: Option<u64>,
    }
    app.emit("download-started", DownloadStarted { url, download_id: 1, content_length: None }).unwrap();
}

pub fn progress(app: &AppHandle) {
    #[derive(Clone, Serialize)]
    enum Phase { Started, Finished }
    let phase: Vec<Phase> = vec![Phase::Started];
    app.emit("phase", &phase).unwrap();
}
