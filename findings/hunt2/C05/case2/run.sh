#!/bin/sh
# regenerates the bindings (plain and Zod mode) and prints the offending lines
cd "$(dirname "$0")"
BIN=/tmp/hunt2_C05/target/debug/cargo-tauri-typegen
rm -rf out out_zod
$BIN tauri-typegen generate --project-path . --output-path out --validation none --force >/dev/null 2>&1
$BIN tauri-typegen generate --project-path . --output-path out_zod --validation zod --force >/dev/null 2>&1
grep -n "listen<" out/events.ts out_zod/events.ts
echo "--- declarations in types.ts (none):"; grep -n "DownloadStarted\|Phase\|export " out/types.ts out_zod/types.ts
