use serde::{Deserialize, Serialize};
use std::collections::HashMap;
use tauri::{AppHandle, Emitter};

// `Self` is a legal type expression inside a struct definition
#[derive(Serialize, Deserialize, Clone)]
pub struct Node {
    pub name: String,
    pub children: Vec<Self>,
    pub by_name: HashMap<String, Self>,
    pub parent: Option<(String, Self)>,
}

#[tauri::command]
pub fn get_tree() -> Node { todo!() }

impl Node {
    pub fn announce(app: &AppHandle) {
        app.emit("node-created", Self { name: String::new(), children: vec![], by_name: HashMap::new(), parent: None }).unwrap();
    }
    pub fn forward(this: &Self, app: &AppHandle) {
        app.emit("node-forwarded", this).unwrap();
    }
    pub fn forward_all(all: Vec<Self>, app: &AppHandle) {
        app.emit("nodes-forwarded", all).unwrap();
    }
}

// type parameter of the impl block (not of the method)
pub struct Bus<T> { pub last: Option<T> }
impl<T: Serialize + Clone> Bus<T> {
    pub fn publish(&self, app: &AppHandle, msg: T) {
        app.emit("bus-msg", msg).unwrap();
    }
    pub fn publish_all(&self, app: &AppHandle, msgs: Vec<T>) {
        app.emit("bus-msgs", msgs).unwrap();
    }
}
