use serde::{Deserialize, Serialize};
use std::collections::{BTreeMap, HashMap};
use tauri::{AppHandle, Emitter};
use tauri::ipc::Channel;

#[derive(Serialize, Deserialize, Clone, PartialEq, Eq, Hash, PartialOrd, Ord)]
pub enum Kind { Audio, Video, Text }

#[derive(Serialize, Deserialize, Clone)]
pub struct Stats {
    // serde_json writes {"true": .., "false": ..}
    pub by_flag: HashMap<bool, u32>,
    // serde_json writes {"a": ..}
    pub by_letter: BTreeMap<char, u32>,
    // serde_json writes only the keys that are present, e.g. {"Audio": 3}
    pub by_kind: HashMap<Kind, u32>,
}

#[tauri::command]
pub fn stats(flags: HashMap<bool, String>, ch: Channel<HashMap<bool, u32>>) -> Result<HashMap<bool, Vec<u32>>, String> { todo!() }
#[tauri::command]
pub fn get_stats() -> Stats { todo!() }

pub fn ev(app: &AppHandle, m: BTreeMap<bool, String>) { app.emit("flags", m).unwrap(); }
