#!/bin/sh
# regenerates the bindings (plain and Zod mode) and prints the offending lines
cd "$(dirname "$0")"
BIN=/tmp/hunt2_C05/target/debug/cargo-tauri-typegen
rm -rf out out_zod
$BIN tauri-typegen generate --project-path . --output-path out --validation none --force >/dev/null 2>&1
$BIN tauri-typegen generate --project-path . --output-path out_zod --validation zod --force >/dev/null 2>&1
sed -n "/interface Ping/,/^}/p;/interface Marker/,/^}/p;/interface Envelope/,/^}/p" out/types.ts
grep -n "listen<" out/events.ts
grep -n -A1 "PingSchema = \|MarkerSchema = " out_zod/types.ts
