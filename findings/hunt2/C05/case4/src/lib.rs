use serde::{Deserialize, Serialize};
use tauri::{AppHandle, Emitter};

// unit structs: serde writes (and only reads) `null`
#[derive(Serialize, Deserialize, Clone)]
pub struct Ping;
#[derive(Serialize, Deserialize, Clone)]
pub struct Marker;

#[derive(Serialize, Deserialize, Clone)]
pub struct Envelope { pub id: u32, pub marker: Marker, pub markers: Vec<Marker> }

#[tauri::command]
pub fn ping(p: Ping) -> Envelope { todo!() }

pub fn ev(app: &AppHandle) { app.emit("ping", Ping).unwrap(); }
