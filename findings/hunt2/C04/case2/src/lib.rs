use serde::Deserialize;

// project types, all three deserialisable and therefore filled from the frontend
#[derive(Deserialize)]
pub struct Request<'a> {
    #[serde(borrow)]
    pub name: &'a str,
    pub id: u32,
}

#[derive(Deserialize)]
pub struct Window<T> {
    pub inner: T,
}

#[derive(Deserialize)]
pub struct State<T> {
    pub inner: T,
}

#[tauri::command]
pub fn send(request: Request<'_>, flag: bool) {}

#[tauri::command]
pub fn resize(window: crate::Window<u8>, state: self::State<String>) {}
