#!/bin/sh
# regenerates both outputs and shows the offending lines
cd "$(dirname "$0")"
BIN=${BIN:-../../target/debug/cargo-tauri-typegen}
rm -rf out_ts out_zod
$BIN tauri-typegen generate --project-path . --output-path out_ts  --validation none --force >/dev/null 2>&1 || exit 1
$BIN tauri-typegen generate --project-path . --output-path out_zod --validation zod  --force >/dev/null 2>&1 || exit 1
echo "--- out_ts/types.ts"; grep -n -A5 "Params {" out_ts/types.ts
echo "--- out_zod/types.ts"; grep -n -A2 "ParamsSchema = " out_zod/types.ts; grep -n -A3 "interface StreamParams" out_zod/types.ts
echo "--- out_zod/commands.ts"; grep -n "invoke<" out_zod/commands.ts
