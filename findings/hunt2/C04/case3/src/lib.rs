use tauri::ipc;

// tauri::ipc::Channel has a default message type: `pub struct Channel<TSend = InvokeResponseBody>`
#[tauri::command]
pub fn stream(ch: ipc::Channel, x: u8) {}

// for comparison: the same type written with its full path is handled as a channel only
#[tauri::command]
pub fn stream_full(ch: tauri::ipc::Channel, x: u8) {}
