use std::sync::Mutex;
use tauri::{AppHandle as Handle, State, Window as Win};

pub struct Db;

// the usual way to shorten a long managed-state type
pub type DbState<'a> = State<'a, Mutex<Db>>;

#[tauri::command]
pub fn load_user(state: DbState<'_>, user_id: u32) -> String {
    String::new()
}

#[tauri::command]
pub fn close_all(app: Handle, win: Win, user_id: u32) {}
