use serde::Deserialize;

#[derive(Deserialize)]
pub struct Point {
    pub x: i32,
    pub y: i32,
}

#[derive(Deserialize)]
pub struct UserPoint {
    pub x: i32,
    pub y: i32,
}

// Tauri names a destructured argument after the struct of its pattern and then applies the
// argument case: heck's to_snake_case gives "point" / "user_point"
#[tauri::command(rename_all = "snake_case")]
pub fn move_to(Point { x, y }: Point, user_id: u32) {}

#[tauri::command(rename_all = "snake_case")]
pub fn move_user(UserPoint { x, y }: UserPoint) {}

// for comparison: the default case is right ("point")
#[tauri::command]
pub fn move_default(Point { x, y }: Point) {}
