#[tauri::command]
pub fn set_title(window: tauri::window::Window, label: String) {}

// for comparison: these spellings of the same type are recognised
#[tauri::command]
pub fn set_title2(window: tauri::Window, label: String) {}

#[tauri::command]
pub fn set_title3(window: tauri::window::Window<tauri::Wry>, label: String) {}
