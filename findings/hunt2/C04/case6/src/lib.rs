use tauri::ipc::Channel;

// a raw string literal is a string literal: the macro reads it with syn::LitStr::value()
#[tauri::command(rename_all = r"snake_case")]
pub fn upload(user_id: u32, on_event: Channel<u32>) {}

#[tauri::command(rename_all = r#"snake_case"#)]
pub fn upload2(user_id: u32) {}

// for comparison
#[tauri::command(rename_all = "snake_case")]
pub fn upload3(user_id: u32, on_event: Channel<u32>) {}
