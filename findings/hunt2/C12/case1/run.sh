#!/bin/bash
# regenerates the bindings for this case and shows the offending lines
here="$(cd "$(dirname "$0")" && pwd)"
bin=/tmp/hunt2_C12/target/debug/cargo-tauri-typegen
rm -rf "$here/out"
"$bin" tauri-typegen generate --project-path "$here" --output-path "$here/out" --validation ${VALIDATION:-none} --force > "$here/log.txt" 2>&1
echo "exit code: $?"

grep -n "No Tauri commands" "$here/log.txt"
echo "files in out/ (expected events.ts with onTick + onHeartbeat, types.ts with Tick, index.ts re-exporting events):"
ls -la "$here/out" 2>&1
