// A Tauri app whose backend only pushes events (no #[tauri::command] at all)
use serde::Serialize;
use tauri::{AppHandle, Emitter};

#[derive(Serialize, Clone)]
pub struct Tick {
    pub seq: u64,
}

pub fn start_clock(app: AppHandle) {
    std::thread::spawn(move || {
        let mut seq = 0;
        loop {
            seq += 1;
            app.emit("tick", Tick { seq }).unwrap();
            app.emit("heartbeat", 1).unwrap();
        }
    });
}
