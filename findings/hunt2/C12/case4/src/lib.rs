use serde::Serialize;
use tauri::{AppHandle, Emitter};

pub struct Broadcaster<T> {
    pub last: Option<T>,
}

// type parameter declared on the impl block, not on the function
impl<T: Serialize + Clone> Broadcaster<T> {
    pub fn publish(&mut self, app: &AppHandle, value: T) {
        app.emit("value-published", value.clone()).unwrap();
        self.last = Some(value);
    }
}

// type parameter of the function, used in a typed / constructor-initialised binding
pub fn publish_default<T: Serialize + Clone + Default>(app: &AppHandle) {
    let value: T = T::default();
    app.emit("default-published", value).unwrap();
    let other = T::default();
    app.emit("default-published-again", other).unwrap();
}

// const generic parameter used as a value
pub fn publish_size<const N: usize>(app: &AppHandle) {
    app.emit("size-published", N).unwrap();
}

#[tauri::command]
pub fn ping() -> u32 {
    1
}
