#!/bin/bash
# regenerates the bindings for this case and shows the offending lines
here="$(cd "$(dirname "$0")" && pwd)"
bin=/tmp/hunt2_C12/target/debug/cargo-tauri-typegen
rm -rf "$here/out"
"$bin" tauri-typegen generate --project-path "$here" --output-path "$here/out" --validation ${VALIDATION:-none} --force > "$here/log.txt" 2>&1
echo "exit code: $?"

echo "--- payload types (expected: unknown; T and N are no types of the project):"
grep -n "listen<" "$here/out/events.ts"
echo "--- exports of types.ts:"
grep -n "^export" "$here/out/types.ts"
