use serde::{Deserialize, Serialize};
use tauri::{AppHandle, Emitter};

#[derive(Serialize, Deserialize, Clone)]
pub struct Job {
    pub id: u32,
}

impl Job {
    pub fn load_all() -> Vec<Job> {
        Vec::new()
    }
    pub fn find(_id: u32) -> Option<Job> {
        None
    }
    pub fn count() -> usize {
        0
    }
}

#[tauri::command]
pub fn refresh(app: AppHandle) -> Job {
    // untyped bindings: nothing in the syntax tells the type of `jobs`, `hit`, `n`, `now`
    let jobs = Job::load_all(); // Vec<Job>
    app.emit("jobs-loaded", &jobs).unwrap();
    let hit = Job::find(7); // Option<Job>
    app.emit("job-found", hit.clone()).unwrap();
    let n = Job::count(); // usize
    app.emit("job-count", n).unwrap();
    let now = chrono::Utc::now(); // DateTime<Utc>, serialised as a string
    app.emit("refreshed-at", now).unwrap();
    Job { id: 1 }
}
