#!/bin/bash
# regenerates the bindings for this case and shows the offending lines
here="$(cd "$(dirname "$0")" && pwd)"
bin=/tmp/hunt2_C12/target/debug/cargo-tauri-typegen
rm -rf "$here/out"
"$bin" tauri-typegen generate --project-path "$here" --output-path "$here/out" --validation ${VALIDATION:-none} --force > "$here/log.txt" 2>&1
echo "exit code: $?"

echo "--- listeners written (expected 12: one per emit above; only control-found is there):"
grep -n "listen<" "$here/out/events.ts"
for name in nested-fn match-guard cast-operand index-operand range-bound repeat-element field-base called-closure macro-argument try-receiver struct-field; do
  grep -q "'$name'" "$here/out/events.ts" || echo "MISSING listener for '$name'"
done
