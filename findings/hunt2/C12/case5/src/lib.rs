use tauri::{AppHandle, Emitter, Manager};

pub struct Outcome {
    pub delivered: bool,
}

#[tauri::command]
pub fn save(app: AppHandle, level: Option<u32>, slots: Vec<u32>) -> Result<Outcome, String> {
    // (a) a helper function declared inside the body
    fn announce(app: &AppHandle) {
        app.emit("nested-fn", 1).unwrap();
    }
    announce(&app);

    // (b) expression positions the walk does not enter
    match level {
        Some(n) if n > 3 && app.emit("match-guard", 2).is_ok() => {}
        _ => {}
    }
    let _sent = app.emit("cast-operand", 3).is_ok() as u8;
    let _slot = slots[app.emit("index-operand", 4).map(|_| 0usize).unwrap_or(0)];
    let _range = 0..app.emit("range-bound", 5).map(|_| 1).unwrap_or(0);
    let _both = [app.emit("repeat-element", 6).is_ok(); 2];
    let _first = (app.emit("field-base", 7), 0).1;
    (|| app.emit("called-closure", 8))().ok();
    assert!(app.emit("macro-argument", 9).is_ok());

    // (c) receiver = result of a method call, unwrapped with `?`
    app.get_webview_window("main")
        .ok_or("no main window")?
        .emit("try-receiver", 10)
        .map_err(|e| e.to_string())?;

    // control: same receiver without `?` is found
    app.get_webview_window("main")
        .unwrap()
        .emit("control-found", 11)
        .map_err(|e| e.to_string())?;

    // (b) value of a struct-expression field
    Ok(Outcome {
        delivered: app.emit("struct-field", 12).is_ok(),
    })
}
