use serde::{Deserialize, Serialize};
use tauri::{AppHandle, Emitter};

#[derive(Serialize, Deserialize, Clone)]
pub struct Item {
    pub id: u32,
}

// slices and arrays ARE supported types: commands.ts / types.ts translate them to Item[] / number[]
#[tauri::command]
pub fn store(app: AppHandle, items: Vec<Item>, rgb: [u8; 3]) -> [Item; 2] {
    notify(&app, &items, [items[0].clone(), items[0].clone()], &rgb);
    todo!()
}

pub fn notify(app: &AppHandle, items: &[Item], pair: [Item; 2], rgb: &[u8]) {
    app.emit("items-stored", items).unwrap(); // typed parameter &[Item]
    app.emit("pair-stored", pair.clone()).unwrap(); // typed parameter [Item; 2]
    app.emit("colour", rgb).unwrap(); // typed parameter &[u8]
    let window: [u32; 2] = [0, 10];
    app.emit("window-bounds", &window).unwrap(); // typed binding [u32; 2]
    // literals
    app.emit("delta", -1).unwrap();
    app.emit("ratio", -0.5).unwrap();
    app.emit("key", 'k').unwrap();
    app.emit("byte", b'k').unwrap();
    // control
    app.emit("control-vec", items.to_vec()).unwrap();
    let v: Vec<Item> = items.to_vec();
    app.emit("control-typed-vec", &v).unwrap();
    app.emit("control-positive", 1).unwrap();
}
