#!/bin/bash
# regenerates the bindings for this case and shows the offending lines
here="$(cd "$(dirname "$0")" && pwd)"
bin=/tmp/hunt2_C12/target/debug/cargo-tauri-typegen
rm -rf "$here/out"
"$bin" tauri-typegen generate --project-path "$here" --output-path "$here/out" --validation ${VALIDATION:-none} --force > "$here/log.txt" 2>&1
echo "exit code: $?"

echo "--- events.ts (expected types.Item[], types.Item[], number[], number[], number, number, string, number):"
grep -n "listen<" "$here/out/events.ts"
echo "--- the same Rust types at the command sites:"
grep -n "rgb\|items\|Promise<" "$here/out/types.ts" "$here/out/commands.ts"
