use serde::{Deserialize, Serialize};
use tauri::{AppHandle, Emitter};

#[derive(Serialize, Deserialize, Clone)]
pub struct Progress {
    pub done: u32,
}

impl Progress {
    // struct expression spelled with Self
    pub fn reset(app: &AppHandle) {
        app.emit("progress-reset", Self { done: 0 }).unwrap();
    }
    // typed parameter spelled with Self
    pub fn merge(&self, app: &AppHandle, other: &Self) {
        app.emit("progress-merged", other).unwrap();
    }
    // typed binding spelled with Self
    pub fn bump(&self, app: &AppHandle) {
        let next: Self = Progress { done: self.done + 1 };
        app.emit("progress-bumped", next.clone()).unwrap();
    }
}

pub trait Source {
    type Item;
    fn push(&self, app: &AppHandle, item: Self::Item);
}
pub struct Feed;
impl Source for Feed {
    type Item = Progress;
    fn push(&self, app: &AppHandle, item: Self::Item) {
        app.emit("feed-item", item).unwrap();
    }
}

#[tauri::command]
pub fn get_progress() -> Progress {
    Progress { done: 0 }
}
