use serde::{Deserialize, Serialize};

// cfg_attr with the predicate `true` (Rust >= 1.88) and a cfg_attr inside a cfg_attr: both
// always apply (serde_json writes {"Renamed": ..} / {"firstField": ..} / {"Shown": ..})
#[derive(Serialize, Deserialize)]
pub struct TruePred {
    #[cfg_attr(true, serde(skip))]
    pub hidden_true: String,
    #[cfg_attr(true, serde(rename = "Renamed"))]
    pub ren_true: String,
}

#[derive(Serialize, Deserialize)]
#[cfg_attr(true, serde(rename_all = "camelCase"))]
pub struct TruePredAll {
    pub first_field: String,
}

#[derive(Serialize, Deserialize)]
pub struct NestedCfg {
    #[cfg_attr(all(), cfg_attr(all(), serde(skip)))]
    pub hidden: String,
    #[cfg_attr(all(), cfg_attr(all(), serde(rename = "Shown")))]
    pub shown: String,
}

#[tauri::command]
pub fn c1(a: TruePred, b: TruePredAll, c: NestedCfg) {}
