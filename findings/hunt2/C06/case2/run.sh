#!/bin/sh
# regenerates the bindings of this case in both modes and shows the offending lines
cd "$(dirname "$0")" || exit 1
BIN=${BIN:-/tmp/hunt2_C06/target/debug/cargo-tauri-typegen}
for mode in none zod; do
  rm -rf out_$mode
  "$BIN" tauri-typegen generate --project-path . --output-path out_$mode --validation $mode --force  >/dev/null 2>&1
  echo "== --validation $mode"
  grep -n -E 'first_field|FastMode' out_$mode/types.ts
done
