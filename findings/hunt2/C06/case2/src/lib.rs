use serde::{Deserialize, Serialize};

// the value of rename_all is a string literal like any other: raw strings and escapes are legal
// (serde_json writes {"firstField": ..} for all three, and "fast-mode")
#[derive(Serialize, Deserialize)]
#[serde(rename_all = r"camelCase")]
pub struct RawRenameAll {
    pub first_field: String,
}

#[derive(Serialize, Deserialize)]
#[serde(rename_all = r#"camelCase"#)]
pub struct RawHashRenameAll {
    pub first_field: String,
}

#[derive(Serialize, Deserialize)]
#[serde(rename_all = "camel\u{43}ase")]
pub struct EscRenameAll {
    pub first_field: String,
}

#[derive(Serialize, Deserialize)]
#[serde(rename_all = r"kebab-case")]
pub enum RawEnum {
    FastMode,
}

#[tauri::command]
pub fn c1(a: RawRenameAll, b: RawHashRenameAll, c: EscRenameAll, d: RawEnum) {}
