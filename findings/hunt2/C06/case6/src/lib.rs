use serde::Deserialize;

// an input type: it derives Deserialize only, so the only names serde knows for it are the
// deserialize ones (from_str accepts {"firstField": .., "ID": ..} and rejects
// {"first_field": .., "ident": ..} with "missing field `firstField`")
#[derive(Deserialize)]
#[serde(rename_all(deserialize = "camelCase"))]
pub struct Input {
    pub first_field: String,
    #[serde(rename(deserialize = "ID"))]
    pub ident: u32,
}

#[tauri::command]
pub fn submit(input: Input) {}
