use serde::{Deserialize, Serialize};

// serde accepts the two halves of a rename as separate items of one attribute
// (serde_json writes {"outName": ..}, {"firstField": ..} and "b")
#[derive(Serialize, Deserialize)]
pub struct SplitRename {
    #[serde(rename(deserialize = "in_name"), rename(serialize = "outName"))]
    pub first_field: String,
}

#[derive(Serialize, Deserialize)]
#[serde(rename_all(deserialize = "snake_case"), rename_all(serialize = "camelCase"))]
pub struct SplitRenameAll {
    pub first_field: String,
}

#[derive(Serialize, Deserialize)]
#[serde(rename_all = "camelCase")]
pub enum SplitVariant {
    #[serde(rename(deserialize = "a"), rename(serialize = "b"))]
    FirstOne,
}

#[tauri::command]
pub fn c1(a: SplitRename, b: SplitRenameAll, c: SplitVariant) {}
