use serde::{Deserialize, Serialize};

// no serde attribute anywhere: serde writes first_field / "FastMode" | "slow_mode" | "HTTP"
#[derive(Serialize, Deserialize)]
pub enum Mode {
    FastMode,
    slow_mode,
    HTTP,
}

#[derive(Serialize, Deserialize)]
pub struct Conf {
    pub first_field: String,
    pub mode: Mode,
}

#[tauri::command]
pub fn c1(a: Conf) {}
