use serde::{Deserialize, Serialize};

// one field, two cfg alternatives: every build has exactly one `mode`
// (serde_json writes {"path": .., "mode": ..} - one key)
#[derive(Serialize, Deserialize)]
pub struct FileInfo {
    pub path: String,
    #[cfg(unix)]
    pub mode: u32,
    #[cfg(not(unix))]
    pub mode: String,
}

#[tauri::command]
pub fn stat(path: String) -> FileInfo {
    todo!()
}
