use serde::{Deserialize, Serialize};

// goes over the wire as an RFC 3339 string (into / try_from); mapped to "string" in the config
#[derive(Clone, Serialize, Deserialize)]
#[serde(into = "String", try_from = "String")]
pub struct Stamp { pub secs: i64, pub origin: Vec<Batch> }

#[derive(Clone, Serialize, Deserialize)]
pub struct Article { pub title: String, pub created: Stamp }

#[derive(Clone, Serialize, Deserialize)]
pub struct Batch { pub articles: Vec<Article> }

#[tauri::command]
pub fn load(batch: Batch) -> Article { todo!() }
