use serde::{Deserialize, Serialize};

#[derive(Serialize, Deserialize)]
pub struct KeyStroke {
    pub key: char,
    pub history: Vec<char>,
    pub dead_key: Option<char>,
}

#[tauri::command]
pub fn press(stroke: KeyStroke, modifier: char) -> KeyStroke {
    stroke
}
