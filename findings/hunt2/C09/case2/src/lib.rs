use serde::{Deserialize, Serialize};

#[derive(Serialize, Deserialize)]
pub enum Kind {
    Plain,
    Weighted(u8),
}

// an odd but legal type name
#[allow(non_camel_case_types)]
#[derive(Serialize, Deserialize)]
pub struct enum_variant {
    pub kind: Kind,
    pub label: String,
}

#[tauri::command]
pub fn describe(v: enum_variant) -> Kind {
    v.kind
}
