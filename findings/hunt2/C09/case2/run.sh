#!/bin/sh
# regenerates the bindings of this case and shows the offending line(s)
cd "$(dirname "$0")/../.." || exit 1
BIN=target/debug/cargo-tauri-typegen
[ -x "$BIN" ] || cargo build --offline
rm -rf _deliverable/case2/out
$BIN tauri-typegen generate --project-path _deliverable/case2 --output-path _deliverable/case2/out --validation zod --force 
echo "--- order of the schema constants in types.ts"
grep -n "export const" _deliverable/case2/out/types.ts
echo "--- offending line(s)"
grep -n -e 'KindSchema' _deliverable/case2/out/types.ts
echo "--- top-to-bottom evaluation (stand-in for z)"
node _deliverable/evalcheck.js _deliverable/case2/out/types.ts
