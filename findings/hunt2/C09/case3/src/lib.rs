use serde::{Deserialize, Serialize};

#[derive(Serialize, Deserialize)]
pub struct Attempt { pub outcome: Result<u32, Failure> }

#[derive(Serialize, Deserialize)]
pub struct Failure { pub earlier: Vec<Attempt> }

#[tauri::command]
pub fn retry(f: Failure) -> Attempt { todo!() }
