// Evaluates a generated Zod types.ts from top to bottom with a stand-in for `z`
// (no zod package needed): type-only lines are dropped, `export const` becomes `const`.
// Prints the first ReferenceError (a schema constant read before / without its definition).
const fs = require('fs');
const vm = require('vm');
const file = process.argv[2];
const lines = fs.readFileSync(file, 'utf8').split('\n');
const out = [];
let skipBlock = false;
for (const line of lines) {
  if (skipBlock) { if (line.startsWith('}')) skipBlock = false; continue; }
  if (line.startsWith('import ')) continue;
  if (line.startsWith('export type ')) continue;
  if (line.startsWith('export interface ')) { skipBlock = !line.trimEnd().endsWith('}'); continue; }
  out.push(line.replace(/^export const /, 'const '));
}
const stub = () => new Proxy(function () {}, {
  get: (_t, p) => (p === Symbol.toPrimitive ? () => 'z' : stub()),
  apply: () => stub(),
});
try {
  vm.runInNewContext(out.join('\n'), { z: stub() }, { filename: file });
  console.log('EVAL OK: no constant read before its definition');
} catch (e) {
  console.log('EVAL FAILED: ' + e.name + ': ' + e.message);
  process.exitCode = 1;
}
