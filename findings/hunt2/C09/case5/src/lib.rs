use serde::{Deserialize, Serialize};

#[derive(Serialize, Deserialize)]
pub struct Item {
    pub id: u32,
}

// a type parameter with a default: `Page` alone is a complete type (Page<Item>)
#[derive(Serialize, Deserialize)]
pub struct Page<T = Item> {
    pub items: Vec<T>,
    pub total: u32,
}

#[tauri::command]
pub fn first_page(size: u32) -> Page {
    Page { items: Vec::new(), total: size }
}
