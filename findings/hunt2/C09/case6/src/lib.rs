use serde::{Deserialize, Serialize};

// the name below is written precomposed (NFC: U+00E9)
#[derive(Serialize, Deserialize)]
pub struct Unité {
    pub code: String,
}

// the field type below is written decomposed (NFD: e + U+0301); rustc normalises identifiers
// to NFC, so both spellings name the same type
#[derive(Serialize, Deserialize)]
pub struct Amount {
    pub value: f64,
    pub unit: Unité,
}

#[tauri::command]
pub fn convert(amount: Amount, to: Unité) -> Amount {
    let _ = to;
    amount
}
