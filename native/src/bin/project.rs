// BOUNDED stand-in for the parts of the pipeline that only exist over syn ASTs and the file system
// (analysis::analyze_project, event extraction, parse-error isolation, file writing): a fixed corpus
// of small generated multi-file projects, each analysed / generated R times in-process (fresh hash
// seeds each time).  Labelled bounded; serves C07/C09 (discovery + edges), C12 (emit placements),
// C13 (determinism), C15 (bad files isolated, no panic), C16 (only reserved names written).
use std::collections::{BTreeMap, BTreeSet, HashSet};
use std::fs;
use std::path::{Path, PathBuf};
use tauri_typegen::analysis::CommandAnalyzer;
use tauri_typegen::{generate_from_config, GenerateConfig};
use verif_native::*;

struct Proj { name: &'static str, files: Vec<(&'static str, String)> }

fn st(name: &str, fields: &[(&str, &str)]) -> String {
    let fs: Vec<String> = fields.iter().map(|(n, t)| format!("    pub {}: {},", n, t)).collect();
    format!("#[derive(Serialize, Deserialize)]\npub struct {} {{\n{}\n}}\n", name, fs.join("\n"))
}
const HDR: &str = "use serde::{Serialize, Deserialize};\nuse std::collections::HashMap;\n";

fn corpus() -> Vec<Proj> {
    let mut v = Vec::new();
    // diamond: Alpha -> {Bravo, Charlie} -> Delta ; Delta also used directly by a command
    v.push(Proj { name: "diamond", files: vec![
        ("a.rs", format!("{}{}{}#[tauri::command]\npub fn get_alpha() -> Alpha {{ todo!() }}\n", HDR, st("Alpha", &[("b", "Bravo"), ("c", "Vec<Charlie>")]), st("Bravo", &[("leaf", "Delta")]))),
        ("b.rs", format!("{}{}{}#[tauri::command]\npub fn get_delta(d: Delta) -> Option<Delta> {{ todo!() }}\n", HDR, st("Charlie", &[("leaf", "Option<Delta>")]), st("Delta", &[("x", "i32")]))),
    ]});
    // chain across files with every constructor context
    v.push(Proj { name: "contexts", files: vec![
        ("cmds.rs", format!("{}#[tauri::command]\npub fn load(id: u32) -> Result<Root, String> {{ todo!() }}\n", HDR)),
        ("types/root.rs", format!("{}{}", HDR, st("Root", &[("m", "HashMap<String, (Left, u32)>"), ("r", "Result<Vec<Right>, String>"), ("t", "(Mid, Option<Mid>)")]))),
        ("types/leaf.rs", format!("{}{}{}{}{}", HDR, st("Left", &[("v", "i32")]), st("Right", &[("m", "Mid")]), st("Mid", &[("n", "String")]), st("Unreachable", &[("z", "bool")]))),
    ]});
    // shared type: struct field and command surface
    v.push(Proj { name: "shared", files: vec![
        ("order.rs", format!("{}{}#[tauri::command]\npub fn orders() -> Vec<Order> {{ vec![] }}\n", HDR, st("Order", &[("items", "Vec<Product>"), ("extra", "HashMap<String, Product>")]))),
        ("product.rs", format!("{}{}#[tauri::command]\npub fn product(id: u32) -> Product {{ todo!() }}\n", HDR, st("Product", &[("name", "String")]))),
    ]});
    // cycle
    v.push(Proj { name: "cycle", files: vec![
        ("n.rs", format!("{}{}{}#[tauri::command]\npub fn tree() -> Node {{ todo!() }}\n", HDR, st("Node", &[("children", "Vec<Node>"), ("payload", "Payload")]), st("Payload", &[("v", "i32")]))),
    ]});
    // the same type name defined in two modules (legal Rust), used by two commands
    v.push(Proj { name: "same_name_two_files", files: vec![
        ("users.rs", format!("{}{}#[tauri::command]\npub fn users(f: Filter) -> u32 {{ 0 }}\n", HDR, st("Filter", &[("name", "String")]))),
        ("orders.rs", format!("{}{}#[tauri::command]\npub fn orders(f: Filter) -> u32 {{ 0 }}\n", HDR, st("Filter", &[("min_total", "u32"), ("status", "String")]))),
    ]});
    // types defined in inline modules and referred to by path
    v.push(Proj { name: "inline_modules", files: vec![
        ("lib.rs", format!("{}pub mod models {{\nuse serde::{{Serialize, Deserialize}};\n{}pub mod deep {{\nuse serde::{{Serialize, Deserialize}};\n{}}}\n}}\n{}#[tauri::command]\npub fn get(o: Outer) -> models::Inner {{ todo!() }}\n",
            HDR, st("Inner", &[("id", "u32")]), st("Deep", &[("inner", "super::Inner")]), st("Outer", &[("inner", "models::Inner"), ("deep", "Option<models::deep::Deep>"), ("list", "Vec<crate::models::Inner>")]))),
    ]});
    // names known to the dependency graph that are not declared types: the error arm of a Result field, a type used nowhere else
    v.push(Proj { name: "graph_only_names", files: vec![
        ("lib.rs", format!("{}{}{}{}{}#[tauri::command]\npub fn run(j: Job) -> Result<Outcome, Failure> {{ todo!() }}\n", HDR,
            st("Job", &[("last", "Result<Outcome, Failure>"), ("history", "Vec<Result<Outcome, String>>")]), st("Outcome", &[("code", "u32")]), st("Failure", &[("why", "String")]), st("Orphan", &[("x", "u32")]))),
    ]});
    // type names that differ only in letter case (legal Rust), each used by a command
    v.push(Proj { name: "case_names", files: vec![
        ("io.rs", format!("{}{}#[tauri::command]\npub fn low() -> IoError {{ todo!() }}\n", HDR, st("IoError", &[("code", "u32")]))),
        ("net.rs", format!("{}{}{}#[tauri::command]\npub fn high(e: IOError) -> Vec<Ioerror> {{ vec![] }}\n", HDR, st("IOError", &[("message", "String")]), st("Ioerror", &[("inner", "IOError")]))),
    ]});
    // 26 types whose references go with and against the name order
    v.push(Proj { name: "many_types", files: vec![
        ("lib.rs", {
            let mut src = HDR.to_string();
            for i in 0..26usize {
                let mut fields: Vec<(String, String)> = vec![("n".to_string(), "u32".to_string())];
                let refs: &[usize] = match i { 0 => &[1], 1 => &[12], 5 => &[20, 2], 12 => &[25], 13 => &[3], 20 => &[21], 24 => &[0], _ => &[] };
                for r in refs { if *r != i { fields.push((format!("r{}", r), format!("A{:02}", r))); } }
                let fs: Vec<(&str, &str)> = fields.iter().map(|(a, b)| (a.as_str(), b.as_str())).collect();
                src.push_str(&st(&format!("A{:02}", i), &fs));
            }
            src.push_str(&format!("#[tauri::command]\npub fn all({}) -> u32 {{ 0 }}\n", (0..26).map(|i| format!("a{}: A{:02}", i, i)).collect::<Vec<_>>().join(", ")));
            src
        }),
    ]});
    // events in every documented placement
    v.push(Proj { name: "events", files: vec![
        ("ev.rs", format!("{}use tauri::Emitter;\n{}\n#[tauri::command]\npub async fn run(app: tauri::AppHandle, window: tauri::Window, flag: bool) -> Result<(), String> {{\n\
            let p = Tick {{ n: 1 }};\n\
            app.emit(\"e-stmt\", p.clone()).unwrap();\n\
            let _ = app.emit(\"e-let\", 1u32);\n\
            let _sent: Result<(), tauri::Error> = app.emit(\"e-let-typed\", 2u32);\n\
            if flag {{ window.emit(\"e-if\", \"s\").ok(); }} else {{ window.emit(\"e-else\", true).ok(); }}\n\
            match flag {{ true => {{ app.emit(\"e-match\", 1).ok(); }} false => {{}} }}\n\
            for _i in 0..2 {{ app.emit(\"e-for\", 1).ok(); }}\n\
            while false {{ app.emit(\"e-while\", 1).ok(); }}\n\
            loop {{ app.emit(\"e-loop\", 1).ok(); break; }}\n\
            {{ {{ app.emit(\"e-nested\", 1).ok(); }} }}\n\
            app.emit(\"e-try\", 1).map_err(|e| e.to_string())?;\n\
            app.emit_to(\"main\", \"e-emit-to\", p).unwrap();\n\
            Ok(())\n}}\n", HDR, st("Tick", &[("n", "u32")]))),
    ]});
    v
}

fn write_proj(root: &Path, p: &Proj, extra: &[(&str, &str)]) -> PathBuf {
    let dir = root.join(p.name).join("src");
    let _ = fs::remove_dir_all(root.join(p.name));
    for (f, content) in &p.files {
        let path = dir.join(f);
        fs::create_dir_all(path.parent().unwrap()).unwrap();
        fs::write(path, content).unwrap();
    }
    for (f, content) in extra {
        let path = dir.join(f);
        fs::create_dir_all(path.parent().unwrap()).unwrap();
        fs::write(path, content).unwrap();
    }
    dir
}

/// (commands in order, discovered struct -> field list, struct -> deps, events in order)
type Summary = (Vec<String>, BTreeMap<String, Vec<String>>, BTreeMap<String, BTreeSet<String>>, Vec<String>);

fn analyse(dir: &Path) -> Result<(Summary, Vec<(String, Vec<TypeStructure>)>), String> {
    let mut an = CommandAnalyzer::new();
    let cmds = an.analyze_project(dir.to_str().unwrap()).map_err(|e| format!("analyze_project returned Err: {}", e))?;
    let names: Vec<String> = cmds.iter().map(|c| format!("{}({})->{}", c.name, c.parameters.iter().map(|p| p.rust_type.clone()).collect::<Vec<_>>().join(","), c.return_type)).collect();
    let mut structs = BTreeMap::new();
    let mut trees = Vec::new();
    for (k, v) in an.get_discovered_structs() {
        structs.insert(k.clone(), v.fields.iter().map(|f| format!("{}:{}", f.name, f.rust_type)).collect());
        trees.push((k.clone(), v.fields.iter().map(|f| f.type_structure.clone()).collect()));
    }
    let mut deps = BTreeMap::new();
    for k in structs.keys() {
        let d: BTreeSet<String> = an.get_dependency_graph().get_dependencies(k).map(|s| s.iter().cloned().collect()).unwrap_or_default();
        deps.insert(k.clone(), d);
    }
    let events: Vec<String> = an.get_discovered_events().iter().map(|e| e.event_name.clone()).collect();
    Ok(((names, structs, deps, events), trees))
}

fn strip_ts(s: &str) -> String { s.lines().filter(|l| !has_timestamp(l)).collect::<Vec<_>>().join("\n") }

fn snapshot(dir: &Path) -> BTreeMap<String, String> {
    let mut m = BTreeMap::new();
    if let Ok(rd) = fs::read_dir(dir) {
        for e in rd.flatten() {
            let p = e.path();
            if p.is_file() { m.insert(p.file_name().unwrap().to_string_lossy().to_string(), fs::read_to_string(&p).unwrap_or_default()); }
            else { m.insert(format!("{}/", p.file_name().unwrap().to_string_lossy()), String::new()); }
        }
    }
    m
}

fn reserved(f: &str) -> bool {
    const R: [&str; 17] = ["types.ts", "types.d.ts", "commands.ts", "commands.d.ts", "events.ts", "events.d.ts", "index.ts", "index.d.ts",
        "schemas.ts", "schemas.d.ts", "models.ts", "models.d.ts", "bindings.ts", "bindings.d.ts", ".typecache", "dependency-graph.txt", "dependency-graph.dot"];
    R.contains(&f) || f.starts_with("generated_") || f.contains("_generated")
}

fn main() {
    let mut rep = Report::new();
    let reps = if Report::depth() >= 5 { 24 } else { 8 };
    let root = std::env::temp_dir().join(format!("verif_project_{}", std::process::id()));
    let _ = fs::create_dir_all(&root);
    for p in corpus() {
        let dir = write_proj(&root, &p, &[]);
        // ---- C07 / C09: discovery closure and edge recording, every repetition
        for r in 0..reps {
            let input = format!("project={} run={}", p.name, r);
            rep.case("discovered_types_closed_and_edges_recorded", &format!("project={}", p.name), &|| {
                let _ = &input;
                let ((_, structs, deps, _), trees) = analyse(&dir)?;
                for (name, fields) in &trees {
                    for t in fields {
                        let mut cs = BTreeSet::new();
                        customs(t, &mut cs);
                        for c in cs {
                            let defined = p.files.iter().any(|(_, src)| src.contains(&format!("pub struct {} ", c)));
                            if defined && !structs.contains_key(&c) { return Err(format!("{} mentions project type {} which was not discovered (run {})", name, c, r)); }
                            if structs.contains_key(&c) && !deps.get(name).map(|d| d.contains(&c)).unwrap_or(false) {
                                return Err(format!("{} mentions {} but the dependency edge {} -> {} is not recorded (run {}); recorded: {:?}", name, c, name, c, r, deps.get(name)));
                            }
                        }
                    }
                }
                Ok(format!("{:?}", structs.keys().collect::<Vec<_>>()))
            });
        }
        // ---- C09 / C07: analysing twice with the SAME analyzer leaves the same structs and edges
        rep.case("reanalysis_keeps_structs_and_edges", &format!("project={}", p.name), &|| {
            let mut an = CommandAnalyzer::new();
            let mut snaps = Vec::new();
            for _ in 0..3 {
                an.analyze_project(dir.to_str().unwrap()).map_err(|e| format!("analyze_project returned Err: {}", e))?;
                let mut structs: Vec<String> = an.get_discovered_structs().keys().cloned().collect();
                structs.sort();
                let mut deps = BTreeMap::new();
                for k in &structs { let d: BTreeSet<String> = an.get_dependency_graph().get_dependencies(k).map(|s| s.iter().cloned().collect()).unwrap_or_default(); deps.insert(k.clone(), d); }
                let mut order: HashSet<String> = HashSet::new();
                for k in &structs { order.insert(k.clone()); }
                let sorted = an.topological_sort_types(&order);
                snaps.push((structs, deps, sorted));
            }
            if snaps[1] != snaps[0] { return Err(format!("the second analysis with the same analyzer differs from the first: {:?} vs {:?}", snaps[0], snaps[1])); }
            if snaps[2] != snaps[0] { return Err("the third analysis with the same analyzer differs from the first".into()); }
            Ok(format!("{} types", snaps[0].0.len()))
        });
        // ---- C13: analysis and generated files do not depend on hash seeds
        rep.case("analysis_deterministic", &format!("project={}", p.name), &|| {
            let (first, _) = analyse(&dir)?;
            for r in 1..reps {
                let (again, _) = analyse(&dir)?;
                if again != first { return Err(format!("run 0 and run {} differ: {:?} vs {:?}", r, first, again)); }
            }
            Ok(format!("{:?}", first.0))
        });
        for mode in ["none", "zod"] {
            rep.case("generated_files_deterministic", &format!("project={} mode={}", p.name, mode), &|| {
                let mut first: Option<BTreeMap<String, String>> = None;
                for r in 0..reps {
                    let out = root.join(p.name).join(format!("out_{}_{}", mode, r));
                    let _ = fs::remove_dir_all(&out);
                    let mut cfg = GenerateConfig::default();
                    cfg.project_path = dir.to_string_lossy().to_string();
                    cfg.output_path = out.to_string_lossy().to_string();
                    cfg.validation_library = mode.to_string();
                    generate_from_config(&cfg).map_err(|e| format!("generate_from_config returned Err: {}", e))?;
                    let snap: BTreeMap<String, String> = snapshot(&out).into_iter().filter(|(k, _)| k.ends_with(".ts")).map(|(k, v)| (k, strip_ts(&v))).collect();
                    match &first {
                        None => first = Some(snap),
                        Some(f) => if *f != snap {
                            let diff: Vec<&String> = f.keys().filter(|k| f.get(*k) != snap.get(*k)).collect();
                            return Err(format!("run 0 and run {} generated different {:?}", r, diff));
                        }
                    }
                }
                Ok(format!("{:?}", first.map(|f| f.keys().cloned().collect::<Vec<_>>())))
            });
        }
        // ---- C07: error arms of Result and types nothing refers to are not declared
        if p.name == "graph_only_names" || p.name == "contexts" {
            for mode in ["none", "zod"] {
                rep.case("unreachable_types_are_not_declared", &format!("project={} mode={}", p.name, mode), &|| {
                    let out = root.join(p.name).join(format!("out_unreach_{}", mode));
                    let _ = fs::remove_dir_all(&out);
                    let mut cfg = GenerateConfig::default();
                    cfg.project_path = dir.to_string_lossy().to_string();
                    cfg.output_path = out.to_string_lossy().to_string();
                    cfg.validation_library = mode.to_string();
                    generate_from_config(&cfg).map_err(|e| format!("generate_from_config returned Err: {}", e))?;
                    let t = fs::read_to_string(out.join("types.ts")).map_err(|e| e.to_string())?;
                    let (absent, present): (&[&str], &[&str]) = if p.name == "graph_only_names" { (&["Failure", "Orphan"], &["Job", "Outcome"]) } else { (&["Unreachable"], &["Root", "Left", "Right", "Mid"]) };
                    for n in absent { if t.contains(&format!("interface {} ", n)) || t.contains(&format!("const {}Schema", n)) || t.contains(&format!("type {} ", n)) { return Err(format!("{} is declared in types.ts although it is only an error type / not reachable from any command", n)); } }
                    for n in present { if !(t.contains(&format!("interface {} ", n)) || t.contains(&format!("const {}Schema", n))) { return Err(format!("{} is reachable but not declared in types.ts", n)); } }
                    Ok("ok".into())
                });
            }
        }
        // ---- C16: only reserved names are created, foreign files (incl. near-reserved names) untouched
        for mode in ["none", "zod"] {
            rep.case("only_reserved_names_written", &format!("project={} mode={}", p.name, mode), &|| {
                let out = root.join(p.name).join(format!("out_io_{}", mode));
                let _ = fs::remove_dir_all(&out);
                fs::create_dir_all(out.join("notes")).map_err(|e| e.to_string())?;
                let decoys = ["helpers.ts", "my-types.ts", "types.tmp", "types.ts.bak", "commands.tmp", "index.tmp", "events.tmp", "index.js", "types.tsx", "README.md", ".typecache.old", ".write_test", ".gitkeep", "commands.test.ts", "index.spec.ts", "dependency-graph.png", "dependency-graph.svg", "dependency-graph.txt.bak", "notes/keep.txt"];
                for d in decoys { fs::write(out.join(d), format!("foreign {}", d)).map_err(|e| e.to_string())?; }
                let before = snapshot(&out);
                let mut cfg = GenerateConfig::default();
                cfg.project_path = dir.to_string_lossy().to_string();
                cfg.output_path = out.to_string_lossy().to_string();
                cfg.validation_library = mode.to_string();
                for _ in 0..2 { generate_from_config(&cfg).map_err(|e| format!("generate_from_config returned Err: {}", e))?; }
                let after = snapshot(&out);
                for (k, v) in &before { if after.get(k) != Some(v) { return Err(format!("foreign file {} was modified or removed", k)); } }
                for k in after.keys() { if !before.contains_key(k) && !reserved(k) { return Err(format!("file {} was created: not a reserved generated name", k)); } }
                if fs::read_to_string(out.join("notes/keep.txt")).ok().as_deref() != Some("foreign notes/keep.txt") { return Err("notes/keep.txt changed".into()); }
                Ok(format!("{:?}", after.keys().filter(|k| !before.contains_key(*k)).collect::<Vec<_>>()))
            });
        }
        // ---- C15: an unparsable file (multi-byte text before the error) neither panics nor changes the rest
        let broken = [
            ("broken_ascii.rs", "pub fn oops( { let x = ; }\n"),
            ("broken_utf8.rs", "pub fn f() {\n    let greeting = \"こんにちは、世界\" name;\n}\n"),
            ("broken_utf8_2.rs", "pub fn g() {\n    let x = \"éééé\" +;\n    let y = \"ééé\" +;\n}\n"),
            ("not_rust.rs", "ß€😀 this is not Rust at all ]]]\n"),
        ];
        for (bf, bsrc) in broken {
            rep.case("bad_file_isolated", &format!("project={} bad_file={}", p.name, bf), &|| {
                let (clean, _) = analyse(&dir)?;
                let d2 = write_proj(&root.join("with_bad"), &p, &[(bf, bsrc)]);
                let (with_bad, _) = analyse(&d2)?;
                if clean != with_bad { return Err(format!("adding the unparsable file changed the analysis: {:?} vs {:?}", clean.0, with_bad.0)); }
                Ok(format!("{:?}", clean.0))
            });
        }
    }
    // ---- C12: one discovered event per emit site in every documented placement
    {
        let p = corpus().into_iter().find(|p| p.name == "events").unwrap();
        let dir = write_proj(&root, &p, &[]);
        rep.case("emit_in_every_placement_is_discovered", "project=events", &|| {
            let ((_, _, _, events), _) = analyse(&dir)?;
            let want = ["e-stmt", "e-let", "e-let-typed", "e-if", "e-else", "e-match", "e-for", "e-while", "e-loop", "e-nested", "e-try", "e-emit-to"];
            let got: BTreeSet<&str> = events.iter().map(|s| s.as_str()).collect();
            let missing: Vec<&&str> = want.iter().filter(|w| !got.contains(**w)).collect();
            if !missing.is_empty() { return Err(format!("emit sites not discovered: {:?} (discovered {:?})", missing, events)); }
            let extra: Vec<&&str> = got.iter().filter(|g| !want.contains(*g)).collect();
            if !extra.is_empty() { return Err(format!("events discovered that no emit site names: {:?}", extra)); }
            Ok(format!("{:?}", events))
        });
    }
    // ---- C16: the build-script entry point (BuildSystem::run_generation: probe, generation, cleanup) with foreign files around
    for (mode, force) in [("none", true), ("zod", true), ("none", false), ("zod", false)] {
        rep.case("build_script_run_touches_only_reserved_names", &format!("mode={} force={} (three runs: the later ones hit the cache unless forced)", mode, force), &|| {
            let proj = root.join(format!("build_{}_{}", mode, force));
            let _ = fs::remove_dir_all(&proj);
            let src = proj.join("src-tauri/src");
            fs::create_dir_all(&src).map_err(|e| e.to_string())?;
            fs::write(src.join("lib.rs"), format!("{}{}#[tauri::command]\npub fn get_user(id: i32) -> Result<User, String> {{ todo!() }}\n", HDR, st("User", &[("id", "i32")]))).map_err(|e| e.to_string())?;
            let out = proj.join("src/generated");
            fs::create_dir_all(out.join("notes")).map_err(|e| e.to_string())?;
            fs::write(proj.join("tauri.conf.json"), format!("{{\n  \"productName\": \"demo\",\n  \"plugins\": {{ \"typegen\": {{ \"projectPath\": {:?}, \"outputPath\": {:?}, \"validationLibrary\": {:?}, \"force\": {} }} }}\n}}\n",
                proj.join("src-tauri").to_string_lossy(), out.to_string_lossy(), mode, force)).map_err(|e| e.to_string())?;
            let decoys = ["helpers.ts", "commands.test.ts", "index.spec.ts", "types.mock.ts", "bindings.helpers.ts", "mytypes.ts", "types.tsx", "README.md", "MyHelpers.ts", "Types.ts", "API.md", ".write_test", ".gitkeep", "types.ts.bak", "dependency-graph.png", "dependency-graph.svg", "notes/keep.txt"];
            for d in decoys { fs::write(out.join(d), format!("foreign {}", d)).map_err(|e| e.to_string())?; }
            fs::write(out.join("models.ts"), "// stale generated file").map_err(|e| e.to_string())?;
            // kept copies of earlier output: generated-looking content under names that are not reserved
            for d in ["api-v1.ts", "types.backup.ts", "notes/types.ts"] { fs::write(out.join(d), "/**\n * Auto-generated TypeScript bindings for Tauri commands\n * Generated by tauri-typegen v0.4.2\n * Generated at: 2025-01-01T00:00:00+00:00\n * Generator: none\n *\n * Do not edit manually - regenerate using: cargo tauri-typegen generate\n */\n\nexport interface Kept { id: number; }\n").map_err(|e| e.to_string())?; }
            // a stale reserved name that is a symbolic link to a hand-written file elsewhere: the link may go, its target may not
            #[cfg(unix)]
            {
                fs::create_dir_all(proj.join("src/validation")).map_err(|e| e.to_string())?;
                fs::write(proj.join("src/validation/schemas.ts"), "// hand written\nexport const x = 1;\n").map_err(|e| e.to_string())?;
                let _ = std::os::unix::fs::symlink("../validation/schemas.ts", out.join("schemas.ts"));
                let _ = std::os::unix::fs::symlink(proj.join("src/validation/schemas.ts"), out.join("bindings.ts"));
                // names this run writes, standing there as links: a symbolic link to a hand-written module, a hard link to another one
                fs::write(proj.join("src/main_entry.ts"), "// hand written entry\n").map_err(|e| e.to_string())?;
                fs::write(proj.join("src/api.ts"), "// hand written api\n").map_err(|e| e.to_string())?;
                let _ = std::os::unix::fs::symlink("../main_entry.ts", out.join("index.ts"));
                let _ = fs::hard_link(proj.join("src/api.ts"), out.join("commands.ts"));
                // the write probe of the build script carries a generated_ name: as a link it is replaced, not written through
                fs::write(proj.join("src/notes.txt"), "hand written notes\n").map_err(|e| e.to_string())?;
                let _ = std::os::unix::fs::symlink("../notes.txt", out.join("generated_write_test.tmp"));
            }
            // a cache file from elsewhere (merged, edited): whatever it lists, only reserved names may be removed
            fs::write(out.join(".typecache"), "{\n  \"version\": 1,\n  \"commands_hash\": \"0\",\n  \"structs_hash\": \"0\",\n  \"config_hash\": \"0\",\n  \"combined_hash\": \"0\",\n  \"generated_files\": [\"types.ts\", \"helpers.ts\", \"README.md\", \"notes/keep.txt\", \"../../src-tauri/src/lib.rs\", \"../../tauri.conf.json\"]\n}\n").map_err(|e| e.to_string())?;
            let conf_before = fs::read_to_string(proj.join("tauri.conf.json")).unwrap_or_default();
            let src_before = fs::read_to_string(src.join("lib.rs")).unwrap_or_default();
            let before = snapshot(&out);
            let cwd = std::env::current_dir().map_err(|e| e.to_string())?;
            std::env::set_current_dir(&proj).map_err(|e| e.to_string())?;
            let mut result = Ok(());
            for _ in 0..3 { if let Err(e) = tauri_typegen::BuildSystem::new(false, false).run_generation() { result = Err(format!("run_generation returned Err: {}", e)); break; } }
            let _ = std::env::set_current_dir(&cwd);
            result?;
            let after = snapshot(&out);
            if !after.contains_key("types.ts") { return Err("the build-script run generated no types.ts".into()); }
            for (k, v) in &before { if !reserved(k) && after.get(k) != Some(v) { return Err(format!("foreign file {:?} in the output directory was modified or removed by the build-script run", k)); } }
            for k in after.keys() { if !before.contains_key(k) && !reserved(k) { return Err(format!("file {:?} was created: not a reserved generated name", k)); } }
            if fs::read_to_string(out.join("notes/keep.txt")).ok().as_deref() != Some("foreign notes/keep.txt") { return Err("notes/keep.txt changed".into()); }
            #[cfg(unix)]
            if fs::read_to_string(proj.join("src/validation/schemas.ts")).ok().as_deref() != Some("// hand written\nexport const x = 1;\n") { return Err("src/validation/schemas.ts (outside the output directory, the target of a stale symbolic link named schemas.ts) was modified or removed".into()); }
            #[cfg(unix)]
            for (f, text) in [("src/main_entry.ts", "// hand written entry\n"), ("src/api.ts", "// hand written api\n"), ("src/notes.txt", "hand written notes\n")] {
                if fs::read_to_string(proj.join(f)).ok().as_deref() != Some(text) { return Err(format!("{} (outside the output directory, reached through a link under a generated name) was modified or removed", f)); }
            }
            if fs::read_to_string(proj.join("tauri.conf.json")).unwrap_or_default() != conf_before { return Err("tauri.conf.json was modified".into()); }
            if fs::read_to_string(src.join("lib.rs")).unwrap_or_default() != src_before { return Err("a project source was modified".into()); }
            Ok(format!("{:?}", after.keys().filter(|k| !before.contains_key(*k)).collect::<Vec<_>>()))
        });
    }
    // ---- C04 / C06 / C11 / C12 / C05 / C02: the build-script path through the generation cache equals a fresh run
    {
        const LIB_EDIT: &str = "use serde::{Serialize, Deserialize};\nuse tauri::Emitter;\nuse tauri::ipc::Channel;\n#[derive(Serialize, Deserialize, Clone)]\n#[serde(rename_all = \"camelCase\")]\npub struct Profile { #[validate(length(min = 1, max = 20))] pub user_name: String, pub age: Option<u32>, #[serde(rename = \"mail\")] pub email: String }\n#[derive(Serialize, Deserialize, Clone)]\npub enum Level { Low, High }\n#[tauri::command]\npub fn save(app: tauri::AppHandle, user_name: String, retry_count: u32, note: Option<String>, on_progress: Channel<u32>, profile: Profile) -> Result<Level, String> { app.emit(\"saved\", retry_count).ok(); todo!() }\n";
        let edits: Vec<(&str, &str, &str, &str)> = vec![
            ("incremental_run_sees_parameter_edits", "rename a parameter", "user_name: String, retry", "display_name: String, retry"),
            ("incremental_run_sees_parameter_edits", "rename the channel parameter", "on_progress: Channel", "on_tick: Channel"),
            ("incremental_run_sees_parameter_edits", "rename_all of the command", "#[tauri::command]\npub fn save", "#[tauri::command(rename_all = \"snake_case\")]\npub fn save"),
            ("incremental_run_sees_serde_edits", "rename_all of the struct", "rename_all = \"camelCase\"", "rename_all = \"SCREAMING_SNAKE_CASE\""),
            ("incremental_run_sees_serde_edits", "rename of a field", "rename = \"mail\"", "rename = \"e_mail\""),
            ("incremental_run_sees_serde_edits", "new variant", "Low, High", "Low, Medium, High"),
            ("incremental_run_sees_validator_edits", "bound", "max = 20", "max = 30"),
            ("incremental_run_sees_validator_edits", "validator added", "pub email:", "#[validate(email)] pub email:"),
            ("incremental_run_sees_event_edits", "event name", "\"saved\"", "\"stored\""),
            ("incremental_run_sees_event_edits", "payload", "emit(\"saved\", retry_count)", "emit(\"saved\", user_name.clone())"),
            ("incremental_run_sees_type_edits", "return type", "-> Result<Level, String>", "-> Result<Vec<Level>, String>"),
            ("incremental_run_sees_type_edits", "channel message type", "Channel<u32>", "Channel<Level>"),
            ("lost_generated_file_is_written_again", "delete types.ts", "", ""),
            ("lost_generated_file_is_written_again", "delete events.ts", "", ""),
        ];
        let strip = |m: BTreeMap<String, String>| -> BTreeMap<String, String> { m.into_iter().filter(|(k, _)| k != ".typecache").map(|(k, v)| (k, v.lines().filter(|l| !has_timestamp(l)).collect::<Vec<_>>().join("\n"))).collect() };
        let run_in = |proj: &std::path::Path| -> Result<(), String> {
            let cwd = std::env::current_dir().map_err(|e| e.to_string())?;
            std::env::set_current_dir(proj).map_err(|e| e.to_string())?;
            let r = tauri_typegen::BuildSystem::new(false, false).run_generation().map_err(|e| format!("run_generation returned Err: {}", e));
            let _ = std::env::set_current_dir(&cwd);
            r
        };
        let setup = |proj: &std::path::Path, lib: &str, mode: &str| -> Result<(), String> {
            let _ = fs::remove_dir_all(proj);
            fs::create_dir_all(proj.join("src-tauri/src")).map_err(|e| e.to_string())?;
            fs::write(proj.join("src-tauri/src/lib.rs"), lib).map_err(|e| e.to_string())?;
            fs::write(proj.join("tauri.conf.json"), format!("{{\n  \"productName\": \"demo\",\n  \"plugins\": {{ \"typegen\": {{ \"projectPath\": {:?}, \"outputPath\": {:?}, \"validationLibrary\": {:?} }} }}\n}}\n",
                proj.join("src-tauri").to_string_lossy(), proj.join("src/generated").to_string_lossy(), mode)).map_err(|e| e.to_string())
        };
        for mode in ["none", "zod"] {
            for (i, (check, what, from, to)) in edits.iter().enumerate() {
                rep.case(check, &format!("build-script path mode={} edit: {} (`{}` -> `{}`)", mode, what, from, to), &|| {
                    if !LIB_EDIT.contains(from) { return Err(format!("UNPARSED: the corpus source does not contain `{}`", from)); }
                    let proj = root.join(format!("binc_{}_{}", mode, i));
                    let fresh = root.join(format!("binc_{}_{}_fresh", mode, i));
                    let edited = if from.is_empty() { LIB_EDIT.to_string() } else { LIB_EDIT.replacen(from, to, 1) };
                    setup(&proj, LIB_EDIT, mode)?;
                    run_in(&proj)?;
                    if from.is_empty() {
                        let f = what.trim_start_matches("delete ");
                        fs::remove_file(proj.join("src/generated").join(f)).map_err(|e| format!("UNPARSED: the first run wrote no {}: {}", f, e))?;
                    } else {
                        fs::write(proj.join("src-tauri/src/lib.rs"), &edited).map_err(|e| e.to_string())?;
                    }
                    run_in(&proj)?;
                    setup(&fresh, &edited, mode)?;
                    run_in(&fresh)?;
                    let second = strip(snapshot(&proj.join("src/generated"))); let want = strip(snapshot(&fresh.join("src/generated")));
                    for (f, text) in &want {
                        match second.get(f) {
                            None => return Err(format!("{} is missing after a build-script run that reported success", f)),
                            Some(t) if t != text => return Err(format!("after the edit, {} of a build-script run through the cache differs from a fresh run: the bindings on disk still describe the old source", f)),
                            _ => {}
                        }
                    }
                    Ok("ok".into())
                });
            }
        }
    }
    // ---- C16: the deletion predicate of the build-script cleanup, on names near the reserved ones
    {
        let stems = ["types", "commands", "events", "index", "schemas", "models", "bindings", "dependency-graph", "foo", "", "generated", "mytypes"];
        let mids = ["", ".d", ".test", ".spec", ".mock", ".d.d", ".D", ".", ".helpers.d", "_v2", "-old", " "];
        let exts = [".ts", ".tsx", ".js", "", ".ts.bak", ".d.ts", ".TS", ".txt", ".dot", ".ts~", ".mts"];
        let pres = ["", "my", ".", "_", "x.", "Types."];
        let mut names: BTreeSet<String> = BTreeSet::new();
        for st in stems { for m in mids { for e in exts { for pr in pres {
            let n = format!("{}{}{}{}", pr, st, m, e);
            if !n.is_empty() && n != "." && n != ".." && !n.contains('/') { names.insert(n); }
        } } } }
        for extra in [".typecache", ".typecache.old", ".typecache2", "generated_x.ts", "x_generated.ts", "generatedx.ts", "xgenerated_.ts", "GENERATED_x.ts", "README.md", "tsconfig.json", "package.json"] { names.insert(extra.to_string()); }
        for n in &names {
            rep.case("deletion_predicate_only_reserved", &format!("name={:?}", n), &|| {
                let om = tauri_typegen::build::OutputManager::new("/nonexistent-verif-dir");
                let r = om.verif_is_generated_file(n);
                if r && !reserved(n) { return Err(format!("{:?} is treated as a generated file (cleanup may delete it) but is not a reserved name", n)); }
                Ok(format!("{}", r))
            });
        }
        // the real cleanup on a directory holding all of them (no file is current, nothing registered)
        let all: Vec<String> = names.iter().cloned().collect();
        rep.case("cleanup_removes_only_reserved", &format!("{} names near the reserved ones", all.len()), &|| {
            let out = root.join("cleanup_dir");
            let _ = fs::remove_dir_all(&out);
            fs::create_dir_all(out.join("sub")).map_err(|e| e.to_string())?;
            for n in &all { fs::write(out.join(n), format!("foreign {}", n)).map_err(|e| format!("{}: {}", n, e))?; }
            fs::write(out.join("sub/types.ts"), "foreign sub/types.ts").map_err(|e| e.to_string())?;
            let before = snapshot(&out);
            let om = tauri_typegen::build::OutputManager::new(&out);
            let removed = om.cleanup_old_files(&[]).map_err(|e| format!("cleanup_old_files returned Err: {}", e))?;
            let after = snapshot(&out);
            for (k, v) in &before {
                if after.get(k) != Some(v) && !reserved(k) { return Err(format!("foreign file {:?} was modified or removed by cleanup_old_files", k)); }
            }
            for k in after.keys() { if !before.contains_key(k) { return Err(format!("cleanup created {:?}", k)); } }
            if fs::read_to_string(out.join("sub/types.ts")).ok().as_deref() != Some("foreign sub/types.ts") { return Err("sub/types.ts (in a subdirectory of the output directory) changed".into()); }
            for r in &removed { if !reserved(r) { return Err(format!("cleanup reports removing {:?}: not a reserved name", r)); } }
            Ok(format!("{} removed", removed.len()))
        });
    }
    let _ = fs::remove_dir_all(&root);
    rep.finish()
}
