// BOUNDED stand-in for the command-line entry points (src/bin/cargo-tauri-typegen.rs: run_generate, run_init), which no
// contract reaches (clap, fs, process exit): the binary built from /repo's working tree ($VERIF_CLI_BIN, built by ./check)
// is run on small project trees that are snapshotted before and after.
//   C16: `init` modifies, besides reserved generated names inside the generated path, only the configuration file it was
//        pointed at; `generate` modifies nothing outside the output directory
//   C15: on any tree the process ends by itself with status 0 or 1 (never a panic status, never a signal)
use std::collections::BTreeMap;
use std::fs;
use std::path::{Path, PathBuf};
use std::process::Command;
use verif_native::*;

const LIB: &str = "use serde::{Serialize, Deserialize};\n#[derive(Serialize, Deserialize)]\npub struct User { pub id: u32, pub name: String }\n#[tauri::command]\npub fn get_user(id: u32) -> Option<User> { None }\n";

const LIB_ALIAS: &str = "use serde::{Serialize, Deserialize};\n#[derive(Serialize, Deserialize)]\npub struct Settings { pub dark: bool }\n#[derive(Serialize, Deserialize)]\npub struct AppError { pub code: u32 }\n#[derive(Serialize, Deserialize)]\npub struct Unused { pub n: u32, pub inner: Inner }\n#[derive(Serialize, Deserialize)]\npub struct Inner { pub m: u32 }\n#[allow(non_camel_case_types)]\n#[derive(Serialize, Deserialize)]\npub struct point { pub x: i32 }\npub type Result<T> = std::result::Result<T, AppError>;\n#[tauri::command]\npub fn settings() -> Result<Settings> { todo!() }\n#[tauri::command]\npub fn origin() -> Option<point> { None }\n";
const LIB_EDIT: &str = "use serde::{Serialize, Deserialize};\nuse tauri::Emitter;\nuse tauri::ipc::Channel;\n#[derive(Serialize, Deserialize, Clone)]\n#[serde(rename_all = \"camelCase\")]\npub struct Profile { #[validate(length(min = 1, max = 20))] pub user_name: String, pub age: Option<u32>, #[serde(rename = \"mail\")] pub email: String }\n#[derive(Serialize, Deserialize, Clone)]\npub enum Level { Low, High }\n#[derive(Serialize, Deserialize, Clone)]\npub enum Shape { Dot(u32), Rounded { corner_radius: u32 } }\n#[tauri::command]\npub fn draw(shape: Shape) {}\n#[tauri::command]\npub fn save(app: tauri::AppHandle, user_name: String, retry_count: u32, note: Option<String>, on_progress: Channel<u32>, profile: Profile) -> Result<Level, String> { app.emit(\"saved\", retry_count).ok(); todo!() }\n#[tauri::command]\npub fn greet(first_name: String, last_name: String) -> String { todo!() }\npub fn again(app: &tauri::AppHandle, again_count: u32) { app.emit(\"saved\", again_count).ok(); }\n";

fn reserved(f: &str) -> bool {
    const R: [&str; 17] = ["types.ts", "types.d.ts", "commands.ts", "commands.d.ts", "events.ts", "events.d.ts", "index.ts", "index.d.ts",
        "schemas.ts", "schemas.d.ts", "models.ts", "models.d.ts", "bindings.ts", "bindings.d.ts", ".typecache", "dependency-graph.txt", "dependency-graph.dot"];
    R.contains(&f) || f.starts_with("generated_") || f.contains("_generated")
}

/// every file below `dir` (relative path -> bytes)
fn snapshot(dir: &Path) -> BTreeMap<String, Vec<u8>> {
    fn walk(base: &Path, d: &Path, m: &mut BTreeMap<String, Vec<u8>>) {
        if let Ok(rd) = fs::read_dir(d) {
            for e in rd.flatten() {
                let p = e.path();
                if p.is_dir() { walk(base, &p, m); } else { m.insert(p.strip_prefix(base).unwrap().to_string_lossy().to_string(), fs::read(&p).unwrap_or_default()); }
            }
        }
    }
    let mut m = BTreeMap::new();
    walk(dir, dir, &mut m);
    m
}

fn run(cli: &Path, cwd: &Path, args: &[&str]) -> Result<(i32, String), String> {
    let out = Command::new(cli).arg("tauri-typegen").args(args).current_dir(cwd).env("NO_COLOR", "1").output().map_err(|e| format!("cannot run {}: {}", cli.display(), e))?;
    let text = format!("{}{}", String::from_utf8_lossy(&out.stdout), String::from_utf8_lossy(&out.stderr));
    match out.status.code() {
        Some(c) => Ok((c, text)),
        None => Err(format!("the process was ended by a signal; output: {}", text.chars().take(300).collect::<String>())),
    }
}

fn project(root: &Path, name: &str, tauri_conf: Option<&str>) -> PathBuf {
    let p = root.join(name);
    let _ = fs::remove_dir_all(&p);
    fs::create_dir_all(p.join("src-tauri/src")).unwrap();
    fs::create_dir_all(p.join("src")).unwrap();
    fs::write(p.join("src-tauri/src/lib.rs"), LIB).unwrap();
    fs::write(p.join("src-tauri/Cargo.toml"), "[package]\nname = \"demo\"\nversion = \"0.1.0\"\n").unwrap();
    fs::write(p.join("package.json"), "{ \"name\": \"demo\", \"private\": true }\n").unwrap();
    fs::write(p.join("README.md"), "# demo\n").unwrap();
    fs::write(p.join("src/main.ts"), "console.log('hand written');\n").unwrap();
    if let Some(c) = tauri_conf { fs::write(p.join("src-tauri/tauri.conf.json"), c).unwrap(); }
    p
}

fn main() {
    let mut rep = Report::new();
    let cli = match std::env::var("VERIF_CLI_BIN") { Ok(p) => PathBuf::from(p), Err(_) => { println!("EVALS 0"); println!("DISTINCT 0"); eprintln!("VERIF_CLI_BIN is not set"); std::process::exit(3); } };
    let root = std::env::temp_dir().join(format!("verif_cli_{}", std::process::id()));
    let _ = fs::create_dir_all(&root);

    let conf_plain = "{\n  \"productName\": \"demo\",\n  \"version\": \"0.1.0\",\n  \"identifier\": \"com.demo.app\",\n  \"build\": { \"frontendDist\": \"../dist\" },\n  \"app\": { \"windows\": [ { \"title\": \"demo\", \"width\": 800 } ] }\n}\n";
    let conf_with_section = |p: &Path| format!("{{\n  \"productName\": \"demo\",\n  \"identifier\": \"com.demo.app\",\n  \"plugins\": {{\n    \"updater\": {{ \"active\": false }},\n    \"typegen\": {{ \"projectPath\": {:?}, \"outputPath\": {:?}, \"validationLibrary\": \"none\" }}\n  }}\n}}\n",
        p.join("src-tauri").to_string_lossy(), p.join("src/generated").to_string_lossy());

    // ---------------------------------------------------------------- C16: init
    // (scenario, has tauri.conf.json, with typegen section, init target: None = default (tauri.conf.json) / Some(custom file))
    let scenarios: Vec<(&str, bool, bool, Option<&str>)> = vec![
        ("conf-default-target", true, false, None),
        ("conf-with-section-default-target", true, true, None),
        ("custom-target-no-conf", false, false, Some("typegen.json")),
        ("custom-target-conf-without-section", true, false, Some("typegen.json")),
        ("custom-target-conf-with-section", true, true, Some("typegen.json")),
        ("custom-target-in-subdir", true, true, Some("config/typegen.json")),
        // a file named like the default, given explicitly and relative to the working directory: it is the pointed one
        ("bare-conf-name-in-cwd", true, false, Some("rel:tauri.conf.json")),
        ("bare-conf-name-in-cwd-with-section", true, true, Some("rel:tauri.conf.json")),
        ("relative-custom-target", true, false, Some("rel:typegen.json")),
    ];
    for (sname, has_conf, with_section, target) in &scenarios {
        for mode in ["none", "zod"] {
            rep.case("init_modifies_only_the_pointed_config", &format!("{} --validation {}", sname, mode), &|| {
                let p = project(&root, &format!("init_{}_{}", sname, mode), None);
                if *has_conf { fs::write(p.join("src-tauri/tauri.conf.json"), if *with_section { conf_with_section(&p) } else { conf_plain.to_string() }).map_err(|e| e.to_string())?; }
                let relative = target.map(|t| t.starts_with("rel:")).unwrap_or(false);
                let target: Option<&str> = target.map(|t| t.trim_start_matches("rel:"));
                let target = &target;
                if let Some(t) = target { if let Some(parent) = p.join(t).parent() { fs::create_dir_all(parent).map_err(|e| e.to_string())?; } }
                if relative { if let Some(t) = target { if t.ends_with("tauri.conf.json") { fs::write(p.join(t), "{\n  \"productName\": \"root-config\"\n}\n").map_err(|e| e.to_string())?; } } }
                // files a tool might think of as its own side files of the pointed configuration: they are the user's
                { let base = match target { Some(t) => p.join(t), None => p.join("src-tauri/tauri.conf.json") };
                  for suffix in [".bak", ".orig", "~", ".old", ".tmp"] { let mut n = base.clone().into_os_string(); n.push(suffix); fs::write(std::path::PathBuf::from(n), "kept by the user\n").map_err(|e| e.to_string())?; } }
                let before = snapshot(&p);
                let pp = p.join("src-tauri"); let gp = p.join("src/generated");
                let mut args: Vec<String> = vec!["init".into(), "--project-path".into(), pp.to_string_lossy().into(), "--generated-path".into(), gp.to_string_lossy().into(), "--validation".into(), mode.into()];
                let pointed: String = match target { Some(t) => { args.push("--output".into()); args.push(if relative { t.to_string() } else { p.join(t).to_string_lossy().into() }); t.to_string() } None => "src-tauri/tauri.conf.json".to_string() };
                let a: Vec<&str> = args.iter().map(|s| s.as_str()).collect();
                let (code, text) = run(&cli, &p, &a)?;
                if code != 0 && code != 1 { return Err(format!("init ended with status {}: {}", code, text.chars().take(300).collect::<String>())); }
                let after = snapshot(&p);
                for (f, bytes) in &before {
                    if *f == pointed { continue; }
                    match after.get(f) { Some(b) if b == bytes => {}, Some(_) => return Err(format!("init was pointed at {} but {} was modified", pointed, f)), None => return Err(format!("init was pointed at {} but {} was removed", pointed, f)) }
                }
                for f in after.keys() {
                    if before.contains_key(f) || *f == pointed { continue; }
                    let in_generated = f.starts_with("src/generated/") && reserved(&f["src/generated/".len()..]);
                    if !in_generated { return Err(format!("init was pointed at {} but created {}", pointed, f)); }
                }
                if code == 0 && !after.contains_key(&pointed) { return Err(format!("init reported success but {} does not exist", pointed)); }
                // the same command again, then with --force (a stand-alone file that exists is only replaced when forced):
                // still nothing but the pointed file and reserved names in the generated path
                let mut prev = after;
                for (step, extra) in [("again", None), ("again with --force", Some("--force")), ("a third time with --force", Some("--force"))] {
                    let mut a2: Vec<&str> = a.clone();
                    if let Some(x) = extra { a2.push(x); }
                    let (code2, text2) = run(&cli, &p, &a2)?;
                    if code2 != 0 && code2 != 1 { return Err(format!("init {} ended with status {}: {}", step, code2, text2.chars().take(300).collect::<String>())); }
                    let now = snapshot(&p);
                    for (f, bytes) in &prev {
                        if *f == pointed || (f.starts_with("src/generated/") && reserved(&f["src/generated/".len()..])) { continue; }
                        match now.get(f) { Some(b) if b == bytes => {}, Some(_) => return Err(format!("init {} was pointed at {} but {} was modified", step, pointed, f)), None => return Err(format!("init {} was pointed at {} but {} was removed", step, pointed, f)) }
                    }
                    for f in now.keys() {
                        if prev.contains_key(f) || *f == pointed { continue; }
                        let in_generated = f.starts_with("src/generated/") && reserved(&f["src/generated/".len()..]);
                        if !in_generated { return Err(format!("init {} was pointed at {} but created {}", step, pointed, f)); }
                    }
                    prev = now;
                }
                Ok(format!("status {}", code))
            });
        }
    }

    // ---------------------------------------------------------------- C16: an empty output path is the working directory
    rep.case("empty_output_path_is_the_working_directory", "output_path \"\" in a stand-alone configuration", &|| {
        let p = project(&root, "gen_empty_out", Some(conf_plain));
        fs::write(p.join("typegen.json"), "{ \"project_path\": \"src-tauri\", \"output_path\": \"\", \"validation_library\": \"none\" }").map_err(|e| e.to_string())?;
        let root_names = ["types.ts", "commands.ts", "index.ts", "events.ts", "schemas.ts", ".typecache"];
        let there_before: Vec<bool> = root_names.iter().map(|n| Path::new("/").join(n).exists()).collect();
        let before = snapshot(&p);
        let (code, text) = run(&cli, &p, &["generate", "--config", "typegen.json", "--force"])?;
        let mut stray = Vec::new();
        for (n, was) in root_names.iter().zip(&there_before) { let f = Path::new("/").join(n); if !*was && f.exists() { stray.push(f.to_string_lossy().to_string()); let _ = fs::remove_file(&f); } }
        if !stray.is_empty() { return Err(format!("run in {} with an empty output path created {}", p.display(), stray.join(", "))); }
        let after = snapshot(&p);
        for (f, bytes) in &before { if after.get(f) != Some(bytes) { return Err(format!("{} was modified or removed", f)); } }
        for f in after.keys() { if !before.contains_key(f) && !reserved(f) { return Err(format!("created {}", f)); } }
        if code == 0 && !after.contains_key("types.ts") { return Err(format!("reported success, but no types.ts in the working directory: {}", text.chars().take(200).collect::<String>())); }
        Ok(format!("status {}", code))
    });

    // ---------------------------------------------------------------- C16: generate touches only the output directory
    for mode in ["none", "zod"] {
        rep.case("generate_modifies_only_the_output_directory", &format!("--validation {}", mode), &|| {
            let p = project(&root, &format!("gen_{}", mode), Some(conf_plain));
            fs::create_dir_all(p.join("src/generated")).map_err(|e| e.to_string())?;
            for d in ["helpers.ts", "commands.test.ts", ".gitkeep", ".write_test", "README.md", "dependency-graph.png", "dependency-graph.svg"] { fs::write(p.join("src/generated").join(d), format!("foreign {}", d)).map_err(|e| e.to_string())?; }
            // kept copies of earlier output: their content looks generated, their names are not reserved
            for d in ["api-v1.ts", "types.backup.ts", "old/types.ts"] {
                fs::create_dir_all(p.join("src/generated/old")).map_err(|e| e.to_string())?;
                fs::write(p.join("src/generated").join(d), "/**\n * Auto-generated TypeScript bindings for Tauri commands\n * Generated by tauri-typegen v0.4.2\n * Generated at: 2025-01-01T00:00:00+00:00\n * Generator: none\n *\n * Do not edit manually - regenerate using: cargo tauri-typegen generate\n */\n\nexport interface Kept { id: number; }\n").map_err(|e| e.to_string())?;
            }
            // a cache file that did not come from this tool version (merged, edited): whatever it lists, only reserved names may go
            fs::write(p.join("src/generated/.typecache"), "{\n  \"version\": 1,\n  \"commands_hash\": \"0\",\n  \"structs_hash\": \"0\",\n  \"config_hash\": \"0\",\n  \"combined_hash\": \"0\",\n  \"generated_files\": [\"types.ts\", \"helpers.ts\", \"README.md\", \"old/types.ts\", \"../main.ts\", \"../../src-tauri/src/lib.rs\", \"../../README.md\"]\n}\n").map_err(|e| e.to_string())?;
            let before = { let mut b = snapshot(&p); b.remove("src/generated/.typecache"); b };
            let pp = p.join("src-tauri"); let gp = p.join("src/generated");
            for (force, viz) in [(true, false), (false, false), (true, true), (true, false), (false, false)] {
                let mut a = vec!["generate", "--project-path", pp.to_str().unwrap(), "--output-path", gp.to_str().unwrap(), "--validation", mode];
                if force { a.push("--force"); }
                if viz { a.push("--visualize-deps"); }
                let (code, text) = run(&cli, &p, &a)?;
                if code != 0 { return Err(format!("generate ended with status {}: {}", code, text.chars().take(300).collect::<String>())); }
            }
            let after = snapshot(&p);
            for (f, bytes) in &before { if after.get(f) != Some(bytes) { return Err(format!("{} was modified or removed by generate", f)); } }
            for f in after.keys() { if !before.contains_key(f) && !(f.starts_with("src/generated/") && reserved(&f["src/generated/".len()..])) { return Err(format!("generate created {}", f)); } }
            if !after.contains_key("src/generated/types.ts") { return Err("no types.ts was generated".into()); }
            Ok("ok".into())
        });
    }

    // ---------------------------------------------------------------- C16: a generated name that is a link is replaced, never written through
    for mode in ["none", "zod"] {
        rep.case("generated_names_that_are_links_are_replaced", &format!("--validation {} types.ts -> project source, commands.ts hard-linked to a hand-written file, index.ts / .typecache / graph files dangling links to places outside", mode), &|| {
            let p = project(&root, &format!("links_{}", mode), Some(conf_plain));
            let gp = p.join("src/generated"); let pp = p.join("src-tauri");
            fs::create_dir_all(&gp).map_err(|e| e.to_string())?;
            fs::create_dir_all(p.join("shared")).map_err(|e| e.to_string())?;
            fs::write(p.join("shared/api.ts"), "export const handWritten = 1;\n").map_err(|e| e.to_string())?;
            let link = |target: &str, name: &str| std::os::unix::fs::symlink(target, gp.join(name)).map_err(|e| format!("symlink {}: {}", name, e));
            link("../../src-tauri/src/lib.rs", "types.ts")?;
            fs::hard_link(p.join("shared/api.ts"), gp.join("commands.ts")).map_err(|e| format!("hard link: {}", e))?;
            link("../../shared/brand_new.ts", "index.ts")?;
            link("../../shared/cache.json", ".typecache")?;
            link("../../shared/graph.txt", "dependency-graph.txt")?;
            link("../main.ts", "dependency-graph.dot")?;
            let outside = |m: BTreeMap<String, Vec<u8>>| -> BTreeMap<String, Vec<u8>> { m.into_iter().filter(|(f, _)| !f.starts_with("src/generated/")).collect() };
            let before = outside(snapshot(&p));
            for force in [true, false, true] {
                let mut a = vec!["generate", "--project-path", pp.to_str().unwrap(), "--output-path", gp.to_str().unwrap(), "--validation", mode, "--visualize-deps"];
                if force { a.push("--force"); }
                let (code, text) = run(&cli, &p, &a)?;
                if code != 0 && code != 1 { return Err(format!("generate ended with status {}: {}", code, text.chars().take(300).collect::<String>())); }
                let after = outside(snapshot(&p));
                for (f, bytes) in &before { if after.get(f) != Some(bytes) { return Err(format!("{} (outside the output directory) was modified or removed through a link under a generated name", f)); } }
                for f in after.keys() { if !before.contains_key(f) { return Err(format!("{} was created outside the output directory through a link under a generated name", f)); } }
            }
            Ok("ok".into())
        });
    }

    // ---------------------------------------------------------------- C13 / C16: --visualize-deps and --verbose only add the two graph files
    for mode in ["none", "zod"] {
      for (lname, lib) in [("plain", LIB), ("alias", LIB_ALIAS)] {
        rep.case("visualisation_and_verbosity_only_add_the_graph_files", &format!("--validation {} project={}", mode, lname), &|| {
            let p = project(&root, &format!("viz_{}_{}", mode, lname), Some(conf_plain));
            fs::write(p.join("src-tauri/src/lib.rs"), lib).map_err(|e| e.to_string())?;
            let pp = p.join("src-tauri");
            let strip = |m: BTreeMap<String, Vec<u8>>| -> BTreeMap<String, String> { m.into_iter().map(|(k, v)| (k, String::from_utf8_lossy(&v).lines().filter(|l| !has_timestamp(l)).collect::<Vec<_>>().join("\n"))).collect() };
            let mut outs = Vec::new();
            for (i, extra) in [vec![], vec!["--visualize-deps"], vec!["--verbose"], vec!["--verbose", "--visualize-deps"]].iter().enumerate() {
                let gp = p.join(format!("gen{}", i));
                let mut a = vec!["generate", "--project-path", pp.to_str().unwrap(), "--output-path", gp.to_str().unwrap(), "--validation", mode, "--force"];
                a.extend(extra.iter());
                let (code, text) = run(&cli, &p, &a)?;
                if code != 0 { return Err(format!("generate {:?} ended with status {}: {}", extra, code, text.chars().take(200).collect::<String>())); }
                outs.push((extra.clone(), strip(snapshot(&gp))));
            }
            let base = outs[0].1.clone();
            for (extra, files) in &outs[1..] {
                for (f, text) in &base { if f != ".typecache" && files.get(f) != Some(text) { return Err(format!("{} differs when generated with {:?}", f, extra)); } }
                for f in files.keys() {
                    if base.contains_key(f) { continue; }
                    let graph = f == "dependency-graph.txt" || f == "dependency-graph.dot";
                    if !(graph && extra.contains(&"--visualize-deps")) { return Err(format!("{:?} added the file {}", extra, f)); }
                }
                if extra.contains(&"--visualize-deps") && !(files.contains_key("dependency-graph.txt") && files.contains_key("dependency-graph.dot")) { return Err("--visualize-deps did not write its two files".into()); }
            }
            Ok("ok".into())
        });
      }
    }

    // ---------------------------------------------------------------- C13: every file of a run (cache and graph files too) is the same from run to run
    for mode in ["none", "zod"] {
        rep.case("repeated_runs_write_identical_files", &format!("--validation {} with five type mappings and --visualize-deps, 8 runs", mode), &|| {
            let p = project(&root, &format!("rep_{}", mode), Some(conf_plain));
            let mut lib = String::from("use serde::{Serialize, Deserialize};\n");
            // a graph with many nodes and edges: T0 .. T9, each naming the three that follow it
            for i in 0..10 { lib.push_str(&format!("#[derive(Serialize, Deserialize)]\npub struct T{} {{ pub a: Option<T{}>, pub b: Vec<T{}>, pub c: Option<Box<T{}>>, pub n: Stamp{} }}\n", i, i + 1, i + 2, i + 3, i % 5)); }
            for i in 10..13 { lib.push_str(&format!("#[derive(Serialize, Deserialize)]\npub struct T{} {{ pub n: u32 }}\n", i)); }
            for i in 0..4 { lib.push_str(&format!("#[tauri::command]\npub fn c{}(t: T{}, s: Stamp{}) -> T{} {{ todo!() }}\n", i, i, i, i + 4)); }
            fs::write(p.join("src-tauri/src/lib.rs"), lib).map_err(|e| e.to_string())?;
            fs::write(p.join("typegen.json"), format!("{{ \"project_path\": \"src-tauri\", \"output_path\": \"gen\", \"validation_library\": {:?}, \"type_mappings\": {{ \"Stamp0\": \"string\", \"Stamp1\": \"number\", \"Stamp2\": \"boolean\", \"Stamp3\": \"string\", \"Stamp4\": \"number\" }} }}", mode)).map_err(|e| e.to_string())?;
            let strip = |m: BTreeMap<String, Vec<u8>>| -> BTreeMap<String, String> { m.into_iter().map(|(k, v)| (k, String::from_utf8_lossy(&v).lines().filter(|l| !has_timestamp(l)).collect::<Vec<_>>().join("\n"))).collect() };
            let mut first: Option<BTreeMap<String, String>> = None;
            for i in 0..8 {
                let _ = fs::remove_dir_all(p.join("gen"));
                let (code, text) = run(&cli, &p, &["generate", "--config", "typegen.json", "--visualize-deps", "--force"])?;
                if code != 0 { return Err(format!("run {} ended with status {}: {}", i, code, text.chars().take(200).collect::<String>())); }
                let files = strip(snapshot(&p.join("gen")));
                if !files.contains_key(".typecache") || !files.contains_key("dependency-graph.txt") || !files.contains_key("dependency-graph.dot") { return Err(format!("run {} wrote {:?}", i, files.keys().collect::<Vec<_>>())); }
                match &first {
                    None => first = Some(files),
                    Some(f0) => {
                        if f0.keys().ne(files.keys()) { return Err(format!("run {} wrote {:?}, run 0 wrote {:?}", i, files.keys().collect::<Vec<_>>(), f0.keys().collect::<Vec<_>>())); }
                        for (f, text) in f0 { if files.get(f) != Some(text) {
                            let other = &files[f];
                            let line = text.lines().zip(other.lines()).position(|(a, b)| a != b).unwrap_or(0);
                            return Err(format!("{} of run {} differs from run 0 at line {}: `{}` / `{}`", f, i, line + 1, text.lines().nth(line).unwrap_or(""), other.lines().nth(line).unwrap_or("")));
                        } }
                    }
                }
            }
            Ok("8 runs identical".into())
        });
    }

    // ---------------------------------------------------------------- C16: a run that fails half-way leaves every foreign file alone
    for mode in ["none", "zod"] {
        for blocked in ["types.ts", "commands.ts", "index.ts"] {
            for cached in [false, true] {
                rep.case("failed_run_leaves_foreign_files_alone", &format!("--validation {} a directory named {} blocks the write, earlier successful run: {}", mode, blocked, cached), &|| {
                    let p = project(&root, &format!("fail_{}_{}_{}", mode, blocked.replace('.', "_"), cached), Some(conf_plain));
                    let pp = p.join("src-tauri"); let gp = p.join("src/generated");
                    if cached {
                        let (code, text) = run(&cli, &p, &["generate", "--project-path", pp.to_str().unwrap(), "--output-path", gp.to_str().unwrap(), "--validation", mode])?;
                        if code != 0 { return Err(format!("the preparing run ended with status {}: {}", code, text.chars().take(200).collect::<String>())); }
                        fs::remove_file(gp.join(blocked)).map_err(|e| e.to_string())?;
                    }
                    fs::create_dir_all(gp.join(blocked)).map_err(|e| e.to_string())?;
                    fs::create_dir_all(gp.join("hand/written")).map_err(|e| e.to_string())?;
                    for d in [format!("{}/inside.txt", blocked), "NOTES.md".to_string(), "helpers.ts".to_string(), "hand/written/util.ts".to_string()] { fs::write(gp.join(&d), format!("foreign {}", d)).map_err(|e| e.to_string())?; }
                    let before = snapshot(&p);
                    let (code, text) = run(&cli, &p, &["generate", "--project-path", pp.to_str().unwrap(), "--output-path", gp.to_str().unwrap(), "--validation", mode, "--force"])?;
                    if text.contains("panicked at") { return Err(format!("the process panicked (status {})", code)); }
                    let after = snapshot(&p);
                    for (f, bytes) in &before {
                        let generated = f.starts_with("src/generated/") && !f["src/generated/".len()..].contains('/') && reserved(&f["src/generated/".len()..]);
                        if !generated && after.get(f) != Some(bytes) { return Err(format!("{} was modified or removed by the failing run (status {})", f, code)); }
                    }
                    for f in after.keys() { if !before.contains_key(f) && !(f.starts_with("src/generated/") && reserved(&f["src/generated/".len()..])) { return Err(format!("the failing run created {}", f)); } }
                    Ok(format!("status {}", code))
                });
            }
        }
    }

    // ---------------------------------------------------------------- C02: a generated file that was deleted is written again by the next (non-forced) run
    for mode in ["none", "zod"] {
        for lost in ["types.ts", "commands.ts", "events.ts", "index.ts"] {
            rep.case("lost_generated_file_is_written_again", &format!("--validation {} delete {}", mode, lost), &|| {
                let p = project(&root, &format!("lost_{}_{}", mode, lost.replace('.', "_")), Some(conf_plain));
                let pp = p.join("src-tauri"); let gp = p.join("out");
                fs::write(pp.join("src/lib.rs"), LIB_EDIT).map_err(|e| e.to_string())?;
                let a = ["generate", "--project-path", pp.to_str().unwrap(), "--output-path", gp.to_str().unwrap(), "--validation", mode];
                let (code, text) = run(&cli, &p, &a)?;
                if code != 0 { return Err(format!("the first run ended with status {}: {}", code, text.chars().take(200).collect::<String>())); }
                let first = snapshot(&gp);
                if !first.contains_key(lost) { return Err(format!("UNPARSED: the first run wrote no {}", lost)); }
                fs::remove_file(gp.join(lost)).map_err(|e| e.to_string())?;
                let (code, text) = run(&cli, &p, &a)?;
                if code != 0 { return Err(format!("the second run ended with status {}: {}", code, text.chars().take(200).collect::<String>())); }
                let second = snapshot(&gp);
                for f in first.keys() { if !second.contains_key(f) { return Err(format!("{} was deleted, the next run reported success, and {} is still missing: the other modules import from a file that does not exist", lost, f)); } }
                Ok("ok".into())
            });
        }
    }

    // ---------------------------------------------------------------- C04: the parameter case configured in the file given with --config applies, whatever else lies next to that file
    for mode in ["none", "zod"] {
        for neighbour in ["none", "tauri.conf.json without typegen section", "tauri.conf.json with typegen section"] {
            rep.case("configured_parameter_case_reaches_the_cli", &format!("--validation {} --config typegen.json (default_parameter_case = snake_case), next to it: {}", mode, neighbour), &|| {
                let p = project(&root, &format!("cfg_{}_{}", mode, neighbour.len()), None);
                let pp = p.join("src-tauri"); let gp = p.join("out");
                fs::write(pp.join("src/lib.rs"), LIB_EDIT).map_err(|e| e.to_string())?;
                fs::write(pp.join("typegen.json"), format!("{{ \"project_path\": {:?}, \"output_path\": {:?}, \"validation_library\": {:?}, \"default_parameter_case\": \"snake_case\" }}\n", pp.to_string_lossy(), gp.to_string_lossy(), mode)).map_err(|e| e.to_string())?;
                match neighbour {
                    "tauri.conf.json without typegen section" => fs::write(pp.join("tauri.conf.json"), conf_plain).map_err(|e| e.to_string())?,
                    "tauri.conf.json with typegen section" => fs::write(pp.join("tauri.conf.json"), format!("{{ \"productName\": \"demo\", \"plugins\": {{ \"typegen\": {{ \"projectPath\": {:?}, \"outputPath\": {:?}, \"validationLibrary\": {:?} }} }} }}\n", pp.to_string_lossy(), p.join("elsewhere").to_string_lossy(), mode)).map_err(|e| e.to_string())?,
                    _ => {}
                }
                let (code, text) = run(&cli, &pp, &["generate", "--config", pp.join("typegen.json").to_str().unwrap(), "--force"])?;
                if code != 0 { return Err(format!("generate --config ended with status {}: {}", code, text.chars().take(300).collect::<String>())); }
                let t = fs::read_to_string(gp.join("types.ts")).map_err(|e| format!("no types.ts in the output path of the config file: {}", e))?;
                // the declarations of the parameter object of `save` (interface and, in zod mode, schema)
                let blocks: String = t.split("\n\n").filter(|b| b.contains("SaveParams")).collect::<Vec<_>>().join("\n");
                if blocks.is_empty() { return Err("UNPARSED: no declaration of SaveParams".into()); }
                for k in ["user_name", "retry_count", "on_progress"] { if !blocks.contains(k) { return Err(format!("SaveParams has no key `{}`: the file given with --config sets default_parameter_case = snake_case", k)); } }
                for k in ["userName", "retryCount", "onProgress"] { if blocks.contains(&format!("{}:", k)) || blocks.contains(&format!("{}?:", k)) { return Err(format!("SaveParams has the key `{}` although the file given with --config sets default_parameter_case = snake_case", k)); } }
                Ok("ok".into())
            });
        }
    }

    // ---------------------------------------------------------------- C16: an output directory that cannot be created gets nothing, and nothing goes elsewhere
    for mode in ["none", "zod"] {
        rep.case("uncreatable_output_directory_writes_nothing", &format!("--output-path <proj>/blocker/gen where blocker is a file, OUT_DIR and TMPDIR set --validation {}", mode), &|| {
            let p = project(&root, &format!("blocked_{}", mode), Some(conf_plain));
            let pp = p.join("src-tauri");
            fs::write(p.join("blocker"), "a file, not a directory\n").map_err(|e| e.to_string())?;
            fs::create_dir_all(p.join("outdir")).map_err(|e| e.to_string())?;
            fs::create_dir_all(p.join("tmp")).map_err(|e| e.to_string())?;
            let before = snapshot(&p);
            let out = Command::new(&cli).arg("tauri-typegen").args(["generate", "--project-path", pp.to_str().unwrap(), "--output-path", p.join("blocker/gen").to_str().unwrap(), "--validation", mode, "--force"])
                .current_dir(&p).env("NO_COLOR", "1").env("OUT_DIR", p.join("outdir")).env("TMPDIR", p.join("tmp")).output().map_err(|e| e.to_string())?;
            let after = snapshot(&p);
            for (f, bytes) in &before { if after.get(f) != Some(bytes) { return Err(format!("{} was modified or removed", f)); } }
            for f in after.keys() { if !before.contains_key(f) { return Err(format!("the run (status {:?}) created {} although the configured output directory cannot exist", out.status.code(), f)); } }
            if out.status.code() == Some(0) { return Err("status 0 although no binding could be written to the configured output directory".into()); }
            Ok(format!("status {:?}", out.status.code()))
        });
    }
    // ---------------------------------------------------------------- C18: every mapping of the typegen section reaches the generator, whatever its target is
    for mode in ["none", "zod"] {
        rep.case("mappings_of_the_typegen_section_reach_the_generator", &format!("typeMappings {{ Level2: 'low' | 'high', Stamp: number, Ratio: -1 | 0 | 1, Handler: (x: number) => void }} in tauri.conf.json --validation {}", mode), &|| {
            let p = project(&root, &format!("secmap_{}", mode), None);
            let pp = p.join("src-tauri"); let gp = p.join("out");
            fs::write(pp.join("src/lib.rs"), "use serde::{Serialize, Deserialize};\n#[derive(Serialize, Deserialize)]\npub enum Level2 { Low, High }\n#[derive(Serialize, Deserialize)]\npub struct Stamp { pub secs: u64 }\n#[derive(Serialize, Deserialize)]\npub struct Ratio { pub n: i8 }\n#[derive(Serialize, Deserialize)]\npub struct Handler { pub id: u32 }\n#[derive(Serialize, Deserialize)]\npub struct Visit { pub level: Level2, pub at: Stamp, pub ratio: Ratio, pub handler: Handler }\n#[tauri::command]\npub fn visit(v: Visit) -> u32 { 0 }\n").map_err(|e| e.to_string())?;
            fs::write(pp.join("tauri.conf.json"), format!("{{ \"productName\": \"demo\", \"plugins\": {{ \"typegen\": {{ \"projectPath\": {:?}, \"outputPath\": {:?}, \"validationLibrary\": {:?}, \"typeMappings\": {{ \"Level2\": \"'low' | 'high'\", \"Stamp\": \"number\", \"Ratio\": \"-1 | 0 | 1\", \"Handler\": \"(x: number) => void\" }} }} }} }}\n", pp.to_string_lossy(), gp.to_string_lossy(), mode)).map_err(|e| e.to_string())?;
            let (code, text) = run(&cli, &pp, &["generate", "--force"])?;
            if code != 0 { return Err(format!("status {}: {}", code, text.chars().take(200).collect::<String>())); }
            let t = fs::read_to_string(gp.join("types.ts")).map_err(|e| format!("no types.ts: {}", e))?;
            for n in ["Level2", "Stamp", "Ratio", "Handler"] {
                for decl in [format!("export interface {} ", n), format!("export type {} ", n), format!("export const {}Schema", n)] { if t.contains(&decl) { return Err(format!("types.ts declares `{}` although the typegen section maps {}", decl.trim(), n)); } }
            }
            Ok("ok".into())
        });
    }
    // ---------------------------------------------------------------- C16: the configured output directory is found behind a root tauri.conf.json that has no typegen section
    rep.case("configured_output_directory_is_found", "./tauri.conf.json without a typegen section, ./src-tauri/tauri.conf.json with one (outputPath = ./configured); generate without arguments", &|| {
        let p = project(&root, "cfgsearch", None);
        let pp = p.join("src-tauri");
        fs::write(p.join("tauri.conf.json"), conf_plain).map_err(|e| e.to_string())?;
        fs::write(pp.join("tauri.conf.json"), format!("{{ \"productName\": \"demo\", \"plugins\": {{ \"typegen\": {{ \"projectPath\": {:?}, \"outputPath\": {:?}, \"validationLibrary\": \"none\" }} }} }}\n", pp.to_string_lossy(), p.join("configured").to_string_lossy())).map_err(|e| e.to_string())?;
        let before = snapshot(&p);
        let (code, text) = run(&cli, &p, &["generate", "--force"])?;
        if code != 0 && code != 1 { return Err(format!("status {}: {}", code, text.chars().take(200).collect::<String>())); }
        let after = snapshot(&p);
        for f in after.keys() { if !before.contains_key(f) && !f.starts_with("configured/") { return Err(format!("the run created {}: the typegen section of src-tauri/tauri.conf.json configures ./configured as output directory", f)); } }
        if code == 0 && !after.contains_key("configured/types.ts") { return Err("status 0, but the configured output directory holds no types.ts".into()); }
        Ok(format!("status {}", code))
    });
    // ---------------------------------------------------------------- C18 / C16: init keeps what it does not set (the type mappings of an existing section)
    rep.case("init_keeps_the_settings_it_does_not_set", "init on a tauri.conf.json whose typegen section carries typeMappings { Stamp: number }", &|| {
        let p = project(&root, "initkeep", None);
        let pp = p.join("src-tauri"); let gp = p.join("src/generated");
        fs::write(pp.join("src/lib.rs"), "use serde::{Serialize, Deserialize};\n#[derive(Serialize, Deserialize)]\npub struct Stamp { pub secs: u64 }\n#[tauri::command]\npub fn now() -> Stamp { todo!() }\n").map_err(|e| e.to_string())?;
        fs::write(pp.join("tauri.conf.json"), format!("{{ \"productName\": \"demo\", \"plugins\": {{ \"typegen\": {{ \"projectPath\": {:?}, \"outputPath\": {:?}, \"validationLibrary\": \"none\", \"typeMappings\": {{ \"Stamp\": \"number\" }} }} }} }}\n", pp.to_string_lossy(), gp.to_string_lossy())).map_err(|e| e.to_string())?;
        let (code, text) = run(&cli, &p, &["init", "--project-path", pp.to_str().unwrap(), "--generated-path", gp.to_str().unwrap(), "--validation", "none"])?;
        if code != 0 && code != 1 { return Err(format!("status {}: {}", code, text.chars().take(200).collect::<String>())); }
        let conf: String = fs::read_to_string(pp.join("tauri.conf.json")).map_err(|e| e.to_string())?;
        let flat: String = conf.chars().filter(|c| !c.is_whitespace()).collect();
        if !flat.contains("\"typeMappings\":{\"Stamp\":\"number\"}") { return Err(format!("after init the typegen section no longer maps Stamp to number: {}", flat.chars().take(300).collect::<String>())); }
        if let Ok(c) = fs::read_to_string(gp.join("commands.ts")) { if c.contains("types.Stamp") { return Err("the bindings init generated refer to types.Stamp although the section maps Stamp to number".into()); } }
        Ok("ok".into())
    });

    // ---------------------------------------------------------------- C04: the parameter case configured in the typegen section of tauri.conf.json (what the build script reads)
    for mode in ["none", "zod"] {
        rep.case("configured_parameter_case_reaches_the_cli", &format!("--validation {} plugins.typegen.defaultParameterCase = snake_case in tauri.conf.json, no --config", mode), &|| {
            let p = project(&root, &format!("cfgsec_{}", mode), None);
            let pp = p.join("src-tauri"); let gp = p.join("out");
            fs::write(pp.join("src/lib.rs"), LIB_EDIT).map_err(|e| e.to_string())?;
            fs::write(pp.join("tauri.conf.json"), format!("{{ \"productName\": \"demo\", \"plugins\": {{ \"typegen\": {{ \"projectPath\": {:?}, \"outputPath\": {:?}, \"validationLibrary\": {:?}, \"defaultParameterCase\": \"snake_case\" }} }} }}\n", pp.to_string_lossy(), gp.to_string_lossy(), mode)).map_err(|e| e.to_string())?;
            let (code, text) = run(&cli, &pp, &["generate", "--force"])?;
            if code != 0 { return Err(format!("generate ended with status {}: {}", code, text.chars().take(300).collect::<String>())); }
            let t = fs::read_to_string(gp.join("types.ts")).map_err(|e| format!("no types.ts in the output path of the section: {}", e))?;
            let blocks: String = t.split("\n\n").filter(|b| b.contains("SaveParams")).collect::<Vec<_>>().join("\n");
            if blocks.is_empty() { return Err("UNPARSED: no declaration of SaveParams".into()); }
            for k in ["user_name", "retry_count", "on_progress"] { if !blocks.contains(k) { return Err(format!("SaveParams has no key `{}`: the typegen section sets defaultParameterCase = snake_case", k)); } }
            Ok("ok".into())
        });
    }

    // ---------------------------------------------------------------- C10 / C13: a run of the library entry point keeps the cache in step with the files it wrote
    rep.case("library_run_refreshes_the_cache", "command line (zod), generate_from_config (none) into the same directory, command line (zod) again", &|| {
        let p = project(&root, "libcache", Some(conf_plain));
        let pp = p.join("src-tauri"); let gp = p.join("out");
        fs::write(pp.join("src/lib.rs"), LIB_EDIT).map_err(|e| e.to_string())?;
        let cli_zod = |label: &str| -> Result<(), String> {
            let (code, text) = run(&cli, &p, &["generate", "--project-path", pp.to_str().unwrap(), "--output-path", gp.to_str().unwrap(), "--validation", "zod"])?;
            if code != 0 { return Err(format!("the {} command-line run ended with status {}: {}", label, code, text.chars().take(200).collect::<String>())); }
            Ok(())
        };
        cli_zod("first")?;
        let mut cfg = tauri_typegen::GenerateConfig::default();
        cfg.project_path = pp.to_string_lossy().to_string();
        cfg.output_path = gp.to_string_lossy().to_string();
        cfg.validation_library = "none".to_string();
        tauri_typegen::generate_from_config(&cfg).map_err(|e| format!("generate_from_config returned Err: {}", e))?;
        if fs::read_to_string(gp.join("types.ts")).unwrap_or_default().contains("z.object(") { return Err("UNPARSED: the library run with validation none left Zod schemas".into()); }
        cli_zod("second")?;
        let t = fs::read_to_string(gp.join("types.ts")).map_err(|e| e.to_string())?;
        if !t.contains("z.object(") { return Err("after the second command-line run in Zod mode types.ts has no schema: the run took the files of the library run (validation none) for its own, because the cache still described the first run".into()); }
        Ok("ok".into())
    });

    // ---------------------------------------------------------------- C02: index.ts re-exports the files of the same run, not what an earlier run left behind
    for mode in ["none", "zod"] {
        rep.case("index_reexports_the_files_of_the_same_run", &format!("--validation {} second run after the only emit was removed", mode), &|| {
            let p = project(&root, &format!("idx_{}", mode), Some(conf_plain));
            let pp = p.join("src-tauri"); let gp = p.join("out"); let fp = p.join("fresh");
            fs::write(pp.join("src/lib.rs"), LIB_EDIT).map_err(|e| e.to_string())?;
            let (code, text) = run(&cli, &p, &["generate", "--project-path", pp.to_str().unwrap(), "--output-path", gp.to_str().unwrap(), "--validation", mode, "--force"])?;
            if code != 0 { return Err(format!("the first run ended with status {}: {}", code, text.chars().take(200).collect::<String>())); }
            if !gp.join("events.ts").exists() { return Err("UNPARSED: the first run wrote no events.ts".into()); }
            fs::write(pp.join("src/lib.rs"), LIB_EDIT.replacen("app.emit(\"saved\", retry_count).ok(); ", "", 1).replacen("app.emit(\"saved\", again_count).ok();", "", 1)).map_err(|e| e.to_string())?;
            for (dir, label) in [(&gp, "second"), (&fp, "fresh")] {
                let (code, text) = run(&cli, &p, &["generate", "--project-path", pp.to_str().unwrap(), "--output-path", dir.to_str().unwrap(), "--validation", mode, "--force"])?;
                if code != 0 { return Err(format!("the {} run ended with status {}: {}", label, code, text.chars().take(200).collect::<String>())); }
            }
            let exports = |d: &Path| -> Result<Vec<String>, String> { Ok(fs::read_to_string(d.join("index.ts")).map_err(|e| format!("index.ts: {}", e))?.lines().filter(|l| l.trim_start().starts_with("export ")).map(|l| l.trim().to_string()).collect()) };
            let (a, b) = (exports(&gp)?, exports(&fp)?);
            if fp.join("events.ts").exists() { return Err("UNPARSED: a fresh run of the project without emit still writes events.ts".into()); }
            if a != b { return Err(format!("index.ts of the second run re-exports {:?}; the run wrote what a fresh run writes, whose index.ts re-exports {:?}", a, b)); }
            // with no events there is no events module: the file of the earlier run does not stay next to an index.ts that no longer names it
            let names = |d: &Path| -> Vec<String> { snapshot(d).into_keys().collect() };
            if names(&gp) != names(&fp) { return Err(format!("after the second run the directory holds {:?}, a fresh run of the same sources writes {:?}", names(&gp), names(&fp))); }
            Ok(format!("{:?}", a))
        });
    }

    // ---------------------------------------------------------------- C04 / C06 / C11 / C12 / C05: a second run through the generation cache equals a forced run
    let edits: Vec<(&str, &str, &str, &str)> = vec![
        ("incremental_run_sees_parameter_edits", "rename a parameter", "user_name: String, retry", "display_name: String, retry"),
        ("incremental_run_sees_parameter_edits", "rename two parameters", "user_name: String, retry_count: u32", "display_name: String, max_attempts: u32"),
        ("incremental_run_sees_parameter_edits", "rename the channel parameter", "on_progress: Channel", "on_tick: Channel"),
        ("incremental_run_sees_parameter_edits", "Option parameter becomes required", "note: Option<String>", "note: String"),
        ("incremental_run_sees_parameter_edits", "required parameter becomes Option", "retry_count: u32", "retry_count: Option<u32>"),
        ("incremental_run_sees_parameter_edits", "add a parameter", "retry_count: u32", "retry_count: u32, dry_run: bool"),
        ("incremental_run_sees_parameter_edits", "swap two parameters of the same type", "first_name: String, last_name: String", "last_name: String, first_name: String"),
        ("incremental_run_sees_parameter_edits", "injected parameter becomes a frontend parameter", "app: tauri::AppHandle, user_name", "app: u32, user_name"),
        ("incremental_run_sees_serde_edits", "rename_all of the struct", "rename_all = \"camelCase\"", "rename_all = \"SCREAMING_SNAKE_CASE\""),
        ("incremental_run_sees_serde_edits", "rename of a field", "rename = \"mail\"", "rename = \"e_mail\""),
        ("incremental_run_sees_serde_edits", "field name", "pub age:", "pub years:"),
        ("incremental_run_sees_serde_edits", "skip a field", "pub age:", "#[serde(skip)] pub age:"),
        ("incremental_run_sees_serde_edits", "new variant", "Low, High", "Low, Medium, High"),
        ("incremental_run_sees_serde_edits", "rename_all of the enum", "pub enum Level", "#[serde(rename_all = \"lowercase\")]\npub enum Level"),
        ("incremental_run_sees_serde_edits", "rename of a variant", "Low, High", "#[serde(rename = \"lo\")] Low, High"),
        ("incremental_run_sees_validator_edits", "bound", "max = 20", "max = 30"),
        ("incremental_run_sees_validator_edits", "validator removed", "#[validate(length(min = 1, max = 20))] ", ""),
        ("incremental_run_sees_validator_edits", "validator added", "pub email:", "#[validate(email)] pub email:"),
        ("incremental_run_sees_validator_edits", "message added", "max = 20)", "max = 20, message = \"too long\")"),
        ("incremental_run_sees_event_edits", "event name", "\"saved\"", "\"stored\""),
        ("incremental_run_sees_event_edits", "payload", "emit(\"saved\", retry_count)", "emit(\"saved\", user_name.clone())"),
        ("incremental_run_sees_event_edits", "second emit", "todo!()", "app.emit(\"done\", true).ok(); todo!()"),
        ("incremental_run_sees_event_edits", "payload type of the second site of an event", "again_count: u32", "again_count: String"),
        ("incremental_run_sees_event_edits", "second site of an event removed", "app.emit(\"saved\", again_count).ok();", ""),
        ("incremental_run_sees_parameter_edits", "rename_all of the command", "#[tauri::command]\npub fn save", "#[tauri::command(rename_all = \"snake_case\")]\npub fn save"),
        ("incremental_run_sees_serde_edits", "rename_all_fields of the enum", "pub enum Shape", "#[serde(rename_all_fields = \"camelCase\")]\npub enum Shape"),
        ("incremental_run_sees_serde_edits", "field of a struct variant", "corner_radius: u32", "corner_size: u32"),
        ("incremental_run_sees_serde_edits", "rename of a struct-variant field", "corner_radius: u32", "#[serde(rename = \"r\")] corner_radius: u32"),
        ("incremental_run_sees_serde_edits", "tuple variant becomes a unit variant", "Dot(u32)", "Dot"),
        ("incremental_run_sees_type_edits", "type of a struct-variant field", "corner_radius: u32", "corner_radius: String"),
        ("incremental_run_sees_type_edits", "payload of a tuple variant", "Dot(u32)", "Dot(String)"),
        ("incremental_run_sees_type_edits", "return type", "-> Result<Level, String>", "-> Result<Vec<Level>, String>"),
        ("incremental_run_sees_type_edits", "field type", "pub age: Option<u32>", "pub age: Option<String>"),
        ("incremental_run_sees_type_edits", "channel message type", "Channel<u32>", "Channel<Level>"),
        ("incremental_run_sees_type_edits", "parameter type", "retry_count: u32", "retry_count: String"),
    ];
    for mode in ["none", "zod"] {
        for (i, (check, what, from, to)) in edits.iter().enumerate() {
            rep.case(check, &format!("--validation {} edit: {} (`{}` -> `{}`)", mode, what, from, to), &|| {
                if !LIB_EDIT.contains(from) { return Err(format!("UNPARSED: the corpus source does not contain `{}`", from)); }
                let p = project(&root, &format!("inc_{}_{}", mode, i), Some(conf_plain));
                let pp = p.join("src-tauri"); let gp = p.join("out"); let fp = p.join("fresh");
                let strip = |m: BTreeMap<String, Vec<u8>>| -> BTreeMap<String, String> { m.into_iter().filter(|(k, _)| k != ".typecache").map(|(k, v)| (k, String::from_utf8_lossy(&v).lines().filter(|l| !has_timestamp(l)).collect::<Vec<_>>().join("\n"))).collect() };
                fs::write(pp.join("src/lib.rs"), LIB_EDIT).map_err(|e| e.to_string())?;
                let (code, text) = run(&cli, &p, &["generate", "--project-path", pp.to_str().unwrap(), "--output-path", gp.to_str().unwrap(), "--validation", mode])?;
                if code != 0 { return Err(format!("the first run ended with status {}: {}", code, text.chars().take(200).collect::<String>())); }
                let first = strip(snapshot(&gp));
                fs::write(pp.join("src/lib.rs"), LIB_EDIT.replacen(from, to, 1)).map_err(|e| e.to_string())?;
                let (code, text) = run(&cli, &p, &["generate", "--project-path", pp.to_str().unwrap(), "--output-path", gp.to_str().unwrap(), "--validation", mode])?;
                if code != 0 { return Err(format!("the second run ended with status {}: {}", code, text.chars().take(200).collect::<String>())); }
                let (code, text) = run(&cli, &p, &["generate", "--project-path", pp.to_str().unwrap(), "--output-path", fp.to_str().unwrap(), "--validation", mode, "--force"])?;
                if code != 0 { return Err(format!("the forced run ended with status {}: {}", code, text.chars().take(200).collect::<String>())); }
                let second = strip(snapshot(&gp)); let fresh = strip(snapshot(&fp));
                for (f, text) in &fresh { if second.get(f) != Some(text) { return Err(format!("after the edit, {} of a run through the cache differs from a forced run: the bindings on disk still describe the old source", f)); } }
                for f in second.keys() { if !fresh.contains_key(f) { return Err(format!("the run through the cache left {} behind, a forced run does not write it", f)); } }
                Ok(if fresh == first { "the edit has no effect on the bindings of this mode".to_string() } else { "ok".to_string() })
            });
        }
    }

    // ---------------------------------------------------------------- C15: exit status on odd trees
    let odd: Vec<(&str, Vec<(&str, &str)>)> = vec![
        ("empty-project", vec![]),
        ("no-commands", vec![("lib.rs", "pub fn helper() {}\n")]),
        ("unparsable-only", vec![("lib.rs", "pub fn oops( { let x = ; }\n")]),
        ("unparsable-utf8", vec![("lib.rs", LIB), ("bad.rs", "pub fn f() {\n    let greeting = \"こんにちは、世界\" name;\n}\n")]),
        ("not-rust", vec![("lib.rs", LIB), ("notes.rs", "ß€😀 this is not Rust at all ]]]\n")]),
        ("odd-validators", vec![("lib.rs", "use serde::{Serialize, Deserialize};\n#[derive(Serialize, Deserialize)]\npub struct Odd { #[validate(range(min = NaN, max = 100))] pub n: f64, #[validate(length(min = 10, max = 1), email(), url(code))] pub s: String }\n#[tauri::command]\npub fn odd(o: Odd) -> u32 { 0 }\n")]),
        ("odd-serde", vec![("lib.rs", "use serde::{Serialize, Deserialize};\n#[derive(Serialize, Deserialize)]\n#[serde(rename_all = \"camelCase\")]\npub struct Odd { #[serde(serialize_with = \"ser_rename\", deserialize_with = \"de_rename\")] pub a: u32, #[serde(rename_all = \"x\", alias = \"prename\", rename = \"ß\")] pub b: u32, #[serde(rename = \"\")] pub c: u32 }\n#[derive(Serialize, Deserialize)]\n#[serde(rename_all = \"camelCase\")]\npub enum É { Émile, __ }\n#[tauri::command]\npub fn odd(o: Odd, e: É) -> u32 { 0 }\n")]),
        ("odd-names", vec![("lib.rs", "#[tauri::command]\npub fn __(émile: i32, r#type: u8) -> u32 { 0 }\n#[tauri::command]\npub fn _1st() {}\n#[tauri::command]\npub fn r#match(r#in: u8) {}\n")]),
        ("odd-emits", vec![("lib.rs", "use tauri::Emitter;\n#[tauri::command]\npub fn e(app: tauri::AppHandle) { app.emit_to(\"only-target\"); app.emit(\"one-arg\"); app.emit(); app.emit(\"it's\", 1u32).ok(); app.emit(\"\", ()).ok(); app.emit(\"a\\\\b\", 1).ok(); }\n")]),
        ("deep-nesting", vec![("lib.rs", "#[tauri::command]\npub fn deep(x: Option<Vec<Option<Vec<Option<Vec<Option<Vec<Option<Vec<Option<Vec<(u8, Result<Vec<Option<u8>>, String>)>>>>>>>>>>>>>) -> Vec<Vec<Vec<Vec<Vec<Vec<Vec<Vec<u8>>>>>>>> { todo!() }\n")]),
    ];
    for (oname, files) in &odd {
        for mode in ["none", "zod"] {
            rep.case("cli_ends_with_status_0_or_1", &format!("{} --validation {}", oname, mode), &|| {
                let p = root.join(format!("odd_{}_{}", oname, mode));
                let _ = fs::remove_dir_all(&p);
                fs::create_dir_all(p.join("src-tauri/src")).map_err(|e| e.to_string())?;
                for (f, c) in files { fs::write(p.join("src-tauri/src").join(f), c).map_err(|e| e.to_string())?; }
                let pp = p.join("src-tauri"); let gp = p.join("out");
                let (code, text) = run(&cli, &p, &["generate", "--project-path", pp.to_str().unwrap(), "--output-path", gp.to_str().unwrap(), "--validation", mode, "--force"])?;
                if text.contains("panicked at") { return Err(format!("the process panicked (status {}): {}", code, text.lines().find(|l| l.contains("panicked at")).unwrap_or("").chars().take(200).collect::<String>())); }
                if code != 0 && code != 1 { return Err(format!("status {} (neither success nor the documented error status 1): {}", code, text.chars().take(200).collect::<String>())); }
                Ok(format!("status {}", code))
            });
        }
    }
    // C15, second sentence: a file that does not parse — wherever it lies and whatever it is called — is reported and skipped, the rest is generated
    for (where_, bad) in [("src/broken.rs", "src/broken.rs"), ("the crate root src/lib.rs", "src/lib.rs"), ("the crate root src/main.rs", "src/main.rs"), ("src/commands/mod.rs", "src/commands/mod.rs")] {
        for mode in ["none", "zod"] {
            rep.case("unparsable_file_is_skipped_wherever_it_lies", &format!("{} --validation {}", where_, mode), &|| {
                let p = root.join(format!("skip_{}_{}", bad.replace('/', "_").replace('.', "_"), mode));
                let _ = fs::remove_dir_all(&p);
                let pp = p.join("src-tauri");
                fs::create_dir_all(pp.join("src/commands")).map_err(|e| e.to_string())?;
                fs::write(pp.join("src/good.rs"), LIB).map_err(|e| e.to_string())?;
                fs::write(pp.join(bad), "pub fn oops( { let x = ; }\n#[tauri::command]\npub fn never_seen() {}\n").map_err(|e| e.to_string())?;
                let gp = p.join("out");
                let (code, text) = run(&cli, &p, &["generate", "--project-path", pp.to_str().unwrap(), "--output-path", gp.to_str().unwrap(), "--validation", mode, "--force"])?;
                if text.contains("panicked at") { return Err(format!("the process panicked (status {})", code)); }
                if code != 0 { return Err(format!("one unparsable file ({}) stopped the whole run: status {}: {}", where_, code, text.chars().take(200).collect::<String>())); }
                let c = fs::read_to_string(gp.join("commands.ts")).map_err(|e| format!("no commands.ts: {}", e))?;
                if !c.contains("getUser") { return Err("commands.ts lacks the command of the valid file".into()); }
                Ok("ok".into())
            });
        }
    }
    // unusable paths
    for (pname, args) in [("missing-project-path", vec!["generate", "--project-path", "/nonexistent/verif/project", "--output-path", "out", "--validation", "none"]),
                          ("unknown-validation-library", vec!["generate", "--project-path", ".", "--output-path", "out", "--validation", "yup"]),
                          ("missing-config-file", vec!["generate", "--config", "/nonexistent/verif/typegen.json"])] {
        rep.case("cli_ends_with_status_0_or_1", pname, &|| {
            let p = root.join(format!("paths_{}", pname));
            let _ = fs::remove_dir_all(&p);
            fs::create_dir_all(&p).map_err(|e| e.to_string())?;
            let (code, text) = run(&cli, &p, &args)?;
            if text.contains("panicked at") { return Err(format!("the process panicked (status {})", code)); }
            if code != 0 && code != 1 { return Err(format!("status {}: {}", code, text.chars().take(200).collect::<String>())); }
            Ok(format!("status {}", code))
        });
    }
    // ---------------------------------------------------------------- C12: the command line writes the listeners of a project without commands
    for mode in ["none", "zod"] {
        rep.case("events_without_commands_get_their_listeners", &format!("--validation {} a project with one emit and no command", mode), &|| {
            let p = project(&root, &format!("evonly_{}", mode), Some(conf_plain));
            let pp = p.join("src-tauri"); let gp = p.join("src/generated");
            fs::write(pp.join("src/lib.rs"), "use tauri::Emitter;\npub fn start(app: tauri::AppHandle) { app.emit(\"beat\", 1u32).ok(); }\n").map_err(|e| e.to_string())?;
            let (code, text) = run(&cli, &p, &["generate", "--project-path", pp.to_str().unwrap(), "--output-path", gp.to_str().unwrap(), "--validation", mode, "--force"])?;
            if code != 0 { return Err(format!("status {}: {}", code, text.chars().take(200).collect::<String>())); }
            let ev = fs::read_to_string(gp.join("events.ts")).map_err(|_| format!("no events.ts was written: {}", text.chars().take(200).collect::<String>()))?;
            if !ev.contains("('beat',") { return Err("events.ts has no listener subscribed to 'beat'".into()); }
            Ok("ok".into())
        });
    }

    // ---------------------------------------------------------------- findings of the bug hunt that are recorded, not repaired (known_findings.json lists each input)
    // C16: the configured output directory is used as given, also when its name is not UTF-8
    #[cfg(unix)]
    rep.case("output_directory_is_used_as_given", "--output-path out/gen\\xe9 (a Latin-1 name, legal on Linux) --validation none", &|| {
        use std::os::unix::ffi::OsStrExt;
        let p = project(&root, "nonutf8", Some(conf_plain));
        let gp = p.join("out").join(std::ffi::OsStr::from_bytes(b"gen\xe9"));
        fs::create_dir_all(&gp).map_err(|e| e.to_string())?;
        fs::write(gp.join("readme.txt"), "foreign").map_err(|e| e.to_string())?;
        let pp = p.join("src-tauri");
        let out = Command::new(&cli).arg("tauri-typegen").args(["generate", "--project-path"]).arg(&pp).arg("--output-path").arg(&gp).args(["--validation", "none", "--force"]).current_dir(&p).env("NO_COLOR", "1").output().map_err(|e| e.to_string())?;
        let entries: Vec<Vec<u8>> = fs::read_dir(p.join("out")).map_err(|e| e.to_string())?.flatten().map(|e| e.file_name().as_bytes().to_vec()).collect();
        if entries.len() != 1 { return Err(format!("the run (status {:?}) left {} entries in out/: {:?} - files went into a directory other than the configured one", out.status.code(), entries.len(), entries.iter().map(|e| String::from_utf8_lossy(e).to_string()).collect::<Vec<_>>())); }
        if out.status.code() == Some(0) && !gp.join("types.ts").exists() { return Err("status 0, but the configured directory holds no types.ts".into()); }
        Ok("ok".into())
    });
    // C15: sources that rustc accepts never abort the tool, however deeply they nest
    for (what, body) in [
        ("5000 nested parentheses in a function without commands", format!("pub fn deep() -> u32 {{ {}1{} }}\n", "(".repeat(5000), ")".repeat(5000))),
        ("a sum of 20000 literals in a function without commands", format!("pub fn flat() -> u64 {{ 0{} }}\n", " + 1".repeat(20000))),
        ("a chain of 6000 else-if branches in a function without commands", format!("pub fn pick(x: u32) -> u32 {{ if x == 0 {{ 0 }}{} else {{ 1 }} }}\n", (1..6000).map(|i| format!(" else if x == {} {{ {} }}", i, i)).collect::<String>())),
    ] {
        rep.case("deeply_nested_sources_do_not_abort_the_run", &format!("src/deep.rs: {} --validation none", what), &|| {
            let p = project(&root, &format!("deep_{}", what.len()), Some(conf_plain));
            let pp = p.join("src-tauri"); let gp = p.join("src/generated");
            fs::write(pp.join("src/deep.rs"), &body).map_err(|e| e.to_string())?;
            let (code, text) = match run(&cli, &p, &["generate", "--project-path", pp.to_str().unwrap(), "--output-path", gp.to_str().unwrap(), "--validation", "none", "--force"]) {
                Ok(r) => r,
                Err(e) => return Err(format!("the run neither succeeded nor returned an error: {}", e.chars().take(200).collect::<String>())),
            };
            if code != 0 && code != 1 { return Err(format!("status {}: {}", code, text.chars().take(200).collect::<String>())); }
            if code == 0 && !gp.join("types.ts").exists() { return Err("status 0 but no types.ts".into()); }
            Ok(format!("status {}", code))
        });
    }
    // C15: a reader that goes away (generate --verbose | head -n 3) ends the run with an error, not with a panic
    rep.case("closed_stdout_does_not_panic", "generate --verbose --force with the read end of stdout closed", &|| {
        let p = project(&root, "epipe", Some(conf_plain));
        let pp = p.join("src-tauri"); let gp = p.join("src/generated");
        let mut child = Command::new(&cli).arg("tauri-typegen").args(["generate", "--project-path", pp.to_str().unwrap(), "--output-path", gp.to_str().unwrap(), "--validation", "none", "--force", "--verbose"])
            .current_dir(&p).env("NO_COLOR", "1").stdout(std::process::Stdio::piped()).stderr(std::process::Stdio::piped()).spawn().map_err(|e| e.to_string())?;
        drop(child.stdout.take());
        let out = child.wait_with_output().map_err(|e| e.to_string())?;
        let err = String::from_utf8_lossy(&out.stderr).to_string();
        if err.contains("panicked at") || out.status.code() == Some(101) { return Err(format!("status {:?}: {}", out.status.code(), err.lines().find(|l| l.contains("panicked")).unwrap_or("").chars().take(200).collect::<String>())); }
        Ok(format!("status {:?}", out.status.code()))
    });
    let _ = fs::remove_dir_all(&root);
    rep.finish()
}
