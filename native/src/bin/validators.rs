// BOUNDED check (C11 parse side): declared bounds and messages survive the token-string parsers.
use tauri_typegen::analysis::validator_parser::ValidatorParser;
use verif_native::*;

fn main() {
    let mut rep = Report::new();
    let vp = ValidatorParser::new();
    // (token text as proc-macro2 prints it, value)
    let floats: Vec<(&str, f64)> = vec![("0", 0.0), ("1", 1.0), ("10", 10.0), ("255", 255.0), ("1.5", 1.5), ("0.25", 0.25), ("1e3", 1e3), ("2.5e4", 2.5e4), ("5e-1", 0.5), ("1E2", 100.0), ("100.0", 100.0), ("1_000", 1000.0)];
    let ints: Vec<(&str, u64)> = vec![("0", 0), ("1", 1), ("3", 3), ("10", 10), ("255", 255), ("65536", 65536), ("18446744073709551615", u64::MAX)];
    for (a, av) in &floats { for (b, bv) in &floats {
        for form in ["range (min = {A} , max = {B})", "range(min = {A}, max = {B})", "range (max = {B} , min = {A})", "range (min = {A} , max = {B} , message = \"m\")"] {
            let s = form.replace("{A}", a).replace("{B}", b);
            if a.contains('_') || b.contains('_') { continue; } // underscores: f64::from_str rejects them (observed, out of scope here)
            rep.case("range_bounds_exact", &s, &|| {
                match vp.verif_parse_range_from_tokens(&s) {
                    Some(r) if r.min == Some(*av) && r.max == Some(*bv) => Ok(format!("{:?}", (r.min, r.max))),
                    other => Err(format!("declared min={} max={}, parsed {:?}", av, bv, other.map(|r| (r.min, r.max)))),
                }
            });
        }
    } }
    for (a, av) in &ints { for (b, bv) in &ints {
        for form in ["length (min = {A} , max = {B})", "length(min = {A}, max = {B})", "length (max = {B} , min = {A})"] {
            let s = form.replace("{A}", a).replace("{B}", b);
            rep.case("length_bounds_exact", &s, &|| {
                match vp.verif_parse_length_from_tokens(&s) {
                    Some(r) if r.min == Some(*av) && r.max == Some(*bv) => Ok(format!("{:?}", (r.min, r.max))),
                    other => Err(format!("declared min={} max={}, parsed {:?}", av, bv, other.map(|r| (r.min, r.max)))),
                }
            });
        }
    } }
    // messages: every string over the alphabet up to length D, written as a Rust string literal
    let alphabet = ["a", "Z", "1", " ", ",", "(", ")", "=", "'", "ß", "€", "😀", "\"", "\\", "\n", "\t", "min", "max", "message", "email", "url", "length", "range"];
    let d = std::cmp::min(Report::depth().saturating_sub(1), 4);
    let mut msgs: Vec<String> = vec![String::new()];
    let mut frontier = msgs.clone();
    for _ in 0..d {
        let mut next = Vec::new();
        for m in &frontier { for c in &alphabet { let mut x = m.clone(); x.push_str(c); next.push(x); } }
        msgs.extend(next.iter().cloned());
        frontier = next;
    }
    for m in &msgs {
        if m.is_empty() { continue; }
        // the literal as it appears in the token string ({:?} escaping = Rust literal syntax for these characters)
        let lit = format!("{:?}", m);
        for form in ["length (min = 1 , message = {M})", "length (message = {M} , min = 1)"] {
            let s = form.replace("{M}", &lit);
            rep.case("message_exact", &s, &|| {
                match vp.verif_parse_length_from_tokens(&s) {
                    Some(r) if r.message.as_deref() == Some(m.as_str()) && r.min == Some(1) && r.max.is_none() => Ok(m.clone()),
                    other => Err(format!("declared min=1, no max, message {:?}; parsed {:?}", m, other.map(|r| (r.min, r.max, r.message)))),
                }
            });
        }
    }
    rep.finish()
}
