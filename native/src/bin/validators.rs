// BOUNDED check (C11 parse side): declared bounds and messages survive the token-string parsers.
use tauri_typegen::analysis::validator_parser::ValidatorParser;
use tauri_typegen::generators::zod::schema_builder::ZodSchemaBuilder;
use tauri_typegen::models::{LengthConstraint, RangeConstraint, ValidatorAttributes};
use tauri_typegen::GenerateConfig;

/// decode the body of a JavaScript double-quoted string literal (ES2019); None = not a valid body
fn js_decode(body: &str) -> Option<String> {
    let cs: Vec<char> = body.chars().collect();
    let mut out = String::new();
    let mut units: Vec<u16> = Vec::new();
    let flush = |units: &mut Vec<u16>, out: &mut String| -> bool { if units.is_empty() { return true; } match String::from_utf16(units) { Ok(s) => { out.push_str(&s); units.clear(); true } Err(_) => false } };
    let mut i = 0;
    while i < cs.len() {
        let c = cs[i];
        if c == '\\' {
            i += 1;
            let e = *cs.get(i)?;
            match e {
                'u' => {
                    if cs.get(i + 1) == Some(&'{') {
                        let close = (i + 2..cs.len()).find(|k| cs[*k] == '}')?;
                        let v = u32::from_str_radix(&cs[i + 2..close].iter().collect::<String>(), 16).ok()?;
                        if !flush(&mut units, &mut out) { return None; }
                        out.push(char::from_u32(v)?);
                        i = close;
                    } else {
                        let hex: String = cs.get(i + 1..i + 5)?.iter().collect();
                        units.push(u16::from_str_radix(&hex, 16).ok()?);
                        i += 4;
                    }
                }
                _ => {
                    if !flush(&mut units, &mut out) { return None; }
                    match e { 'n' => out.push('\n'), 't' => out.push('\t'), 'r' => out.push('\r'), '0' => out.push('\0'), 'b' => out.push('\u{8}'), 'f' => out.push('\u{c}'), 'v' => out.push('\u{b}'),
                        'x' => { let hex: String = cs.get(i + 1..i + 3)?.iter().collect(); out.push(char::from_u32(u32::from_str_radix(&hex, 16).ok()?)?); i += 2; }
                        other => out.push(other) }
                }
            }
        } else if c == '"' || c == '\n' || c == '\r' {
            return None;
        } else {
            if !flush(&mut units, &mut out) { return None; }
            out.push(c);
        }
        i += 1;
    }
    if !flush(&mut units, &mut out) { return None; }
    Some(out)
}

/// the message literal of `.min(1, { message: "..." })` in a schema text
fn message_literal(schema: &str) -> Option<&str> {
    // the literal may be written with any of JavaScript's three quote characters
    let key = schema.find("message:")? + "message:".len();
    let after = schema[key..].trim_start();
    let q = after.chars().next()?;
    if q != '"' && q != '\'' && q != '`' { return None; }
    let rest = &after[1..];
    let mut esc = false;
    for (i, ch) in rest.char_indices() {
        if esc { esc = false; continue; }
        if ch == '\\' { esc = true; continue; }
        if ch == q { return Some(&rest[..i]); }
    }
    None
}
use verif_native::*;

fn main() {
    let mut rep = Report::new();
    let vp = ValidatorParser::new();
    // (token text as proc-macro2 prints it, value)
    let floats: Vec<(&str, f64)> = vec![("0", 0.0), ("1", 1.0), ("10", 10.0), ("255", 255.0), ("1.5", 1.5), ("0.25", 0.25), ("1e3", 1e3), ("2.5e4", 2.5e4), ("5e-1", 0.5), ("1E2", 100.0), ("100.0", 100.0), ("1_000", 1000.0),
        // negative literals as the token stream prints them (`- 1`) and as written; suffixed literals
        ("- 1", -1.0), ("- 2.5", -2.5), ("-7", -7.0), ("- 0.5e1", -5.0), ("2.5f64", 2.5), ("10u32", 10.0), ("- 3i64", -3.0)];
    let ints: Vec<(&str, u64)> = vec![("0", 0), ("1", 1), ("3", 3), ("10", 10), ("255", 255), ("65536", 65536), ("18446744073709551615", u64::MAX), ("1_000", 1000), ("10usize", 10)];
    for (a, av) in &floats { for (b, bv) in &floats {
        for form in ["range (min = {A} , max = {B})", "range(min = {A}, max = {B})", "range (max = {B} , min = {A})", "range (min = {A} , max = {B} , message = \"m\")",
            // a trailing comma (how the attribute is written once it is broken over several lines), other validators around it
            "range (min = {A} , max = {B} ,)", "range (min = {A} , max = {B} , message = \"m\" ,)", "range (\n min = {A} ,\n max = {B} ,\n)", "email , range (min = {A} , max = {B} ,) , url"] {
            let s = form.replace("{A}", a).replace("{B}", b);
            rep.case("range_bounds_exact", &s, &|| {
                match vp.verif_parse_range_from_tokens(&s) {
                    Some(r) if r.min == Some(*av) && r.max == Some(*bv) => Ok(format!("{:?}", (r.min, r.max))),
                    other => Err(format!("declared min={} max={}, parsed {:?}", av, bv, other.map(|r| (r.min, r.max)))),
                }
            });
        }
    } }
    for (a, av) in &ints { for (b, bv) in &ints {
        for form in ["length (min = {A} , max = {B})", "length(min = {A}, max = {B})", "length (max = {B} , min = {A})",
            "length (min = {A} , max = {B} ,)", "length (min = {A} , max = {B} , message = \"m\" ,)", "length (\n min = {A} ,\n max = {B} ,\n)"] {
            let s = form.replace("{A}", a).replace("{B}", b);
            rep.case("length_bounds_exact", &s, &|| {
                match vp.verif_parse_length_from_tokens(&s) {
                    Some(r) if r.min == Some(*av) && r.max == Some(*bv) => Ok(format!("{:?}", (r.min, r.max))),
                    other => Err(format!("declared min={} max={}, parsed {:?}", av, bv, other.map(|r| (r.min, r.max)))),
                }
            });
        }
    } }
    // messages: every string over the alphabet up to length D, written as a Rust string literal
    let alphabet = ["a", "Z", "1", " ", ",", "(", ")", "=", "'", "ß", "€", "😀", "\"", "\\", "\n", "\t", "n", "t", "min", "max", "message", "email", "url", "length", "range"];
    let d = std::cmp::min(Report::depth().saturating_sub(1), 4);
    let mut msgs: Vec<String> = vec![String::new()];
    let mut frontier = msgs.clone();
    for _ in 0..d {
        let mut next = Vec::new();
        for m in &frontier { for c in &alphabet { let mut x = m.clone(); x.push_str(c); next.push(x); } }
        msgs.extend(next.iter().cloned());
        frontier = next;
    }
    for m in &msgs {
        if m.is_empty() { continue; }
        // the literal as it appears in the token string ({:?} escaping = Rust literal syntax for these characters)
        let lit = format!("{:?}", m);
        for form in ["length (min = 1 , message = {M})", "length (message = {M} , min = 1)"] {
            let s = form.replace("{M}", &lit);
            rep.case("message_exact", &s, &|| {
                match vp.verif_parse_length_from_tokens(&s) {
                    Some(r) if r.message.as_deref() == Some(m.as_str()) && r.min == Some(1) && r.max.is_none() => Ok(m.clone()),
                    other => Err(format!("declared min=1, no max, message {:?}; parsed {:?}", m, other.map(|r| (r.min, r.max, r.message)))),
                }
            });
        }
    }
    // other spellings of a Rust string literal: every escape the language has, and raw strings (also with quotes
    // inside, followed by further bounds)
    let spellings: Vec<(&str, &str)> = vec![
        (r#""line\r\nbreak""#, "line\r\nbreak"),
        (r#""caf\u{e9} \u{1F600}""#, "caf\u{e9} \u{1F600}"),
        (r#""\x41BC""#, "ABC"),
        (r#""nul\0end""#, "nul\0end"),
        ("\"a\\\n      b\"", "ab"),
        (r##"r"plain raw""##, "plain raw"),
        (r###"r#"raw "quoted" \n stays"#"###, "raw \"quoted\" \\n stays"),
        (r####"r##"a "# b"##"####, "a \"# b"),
        (r###"r#"max = 99, min = 50"#"###, "max = 99, min = 50"),
        (r###"r#"say "max = 99""#"###, "say \"max = 99\""),
        // a source file with CR LF line endings: the compiler reads the line break inside a literal as LF
        ("r\"line1\r\nline2\"", "line1\nline2"),
        ("\"line1\r\nline2\"", "line1\nline2"),
    ];
    for (lit, value) in &spellings {
        for form in ["length (min = 1 , message = {M} , max = 7)", "length (message = {M} , min = 1 , max = 7)", "length (min = 1 , max = 7 , message = {M})"] {
            let s = form.replace("{M}", lit);
            rep.case("message_exact", &s, &|| {
                match vp.verif_parse_length_from_tokens(&s) {
                    Some(r) if r.message.as_deref() == Some(*value) && r.min == Some(1) && r.max == Some(7) => Ok(value.to_string()),
                    other => Err(format!("declared min=1, max=7, message {:?}; parsed {:?}", value, other.map(|r| (r.min, r.max, r.message)))),
                }
            });
        }
        let s = format!("range (min = 1 , message = {} , max = 7)", lit);
        rep.case("message_exact", &s, &|| {
            match vp.verif_parse_range_from_tokens(&s) {
                Some(r) if r.message.as_deref() == Some(*value) && r.min == Some(1.0) && r.max == Some(7.0) => Ok(value.to_string()),
                other => Err(format!("declared min=1, max=7, message {:?}; parsed {:?}", value, other.map(|r| (r.min, r.max, r.message)))),
            }
        });
    }
    // C11 render side, end to end through build_schema: the emitted literal decodes (JavaScript rules) to
    // exactly the declared message — any correct escaping style is accepted
    let cfg = GenerateConfig::default();
    let string_ty = tauri_typegen::models::TypeStructure::Primitive("string".to_string());
    let number_ty = tauri_typegen::models::TypeStructure::Primitive("number".to_string());
    for m in &msgs {
        if m.is_empty() { continue; }
        let va = ValidatorAttributes { length: Some(LengthConstraint { min: Some(1), max: None, message: Some(m.clone()) }), range: None, email: false, url: false, custom_message: None };
        rep.case("message_literal_round_trips", &format!("length message {:?}", m), &|| {
            let schema = ZodSchemaBuilder::new(&cfg).build_schema(&string_ty, &Some(va.clone()));
            let lit = message_literal(&schema).ok_or(format!("no message literal in `{}`", schema))?;
            match js_decode(lit) { Some(d) if d == *m => Ok(schema.clone()), other => Err(format!("literal `{}` decodes to {:?}, declared {:?}", lit, other, m)) }
        });
        let vr = ValidatorAttributes { length: None, range: Some(RangeConstraint { min: None, max: Some(9.5), message: Some(m.clone()) }), email: false, url: false, custom_message: None };
        rep.case("message_literal_round_trips", &format!("range message {:?}", m), &|| {
            let schema = ZodSchemaBuilder::new(&cfg).build_schema(&number_ty, &Some(vr.clone()));
            let lit = message_literal(&schema).ok_or(format!("no message literal in `{}`", schema))?;
            match js_decode(lit) { Some(d) if d == *m => Ok(schema.clone()), other => Err(format!("literal `{}` decodes to {:?}, declared {:?}", lit, other, m)) }
        });
    }
    // C11 render side for bounds: the numbers in .min(..)/.max(..) are exactly the declared ones, in the declared roles
    // (also when min > max); C15: non-finite bounds never panic
    let bound_of = |schema: &str, which: &str| -> Option<String> {
        let st = schema.find(which)? + which.len();
        let rest = &schema[st..];
        let end = rest.find(|c| c == ')' || c == ',')?;
        Some(rest[..end].trim().to_string())
    };
    let vals = [0.0, 1.0, -1.0, 10.0, -10.0, 1.5, -2.5, 1e3, 0.1, 1e21, -1e-7, 255.0];
    for a in vals { for b in vals {
        let vr = ValidatorAttributes { length: None, range: Some(RangeConstraint { min: Some(a), max: Some(b), message: None }), email: false, url: false, custom_message: None };
        rep.case("range_bounds_rendered_exactly", &format!("range min={} max={}", a, b), &|| {
            let schema = ZodSchemaBuilder::new(&cfg).build_schema(&number_ty, &Some(vr.clone()));
            let mn = bound_of(&schema, ".min(").ok_or(format!("no .min( in `{}`", schema))?;
            let mx = bound_of(&schema, ".max(").ok_or(format!("no .max( in `{}`", schema))?;
            if mn.parse::<f64>().ok() != Some(a) || mx.parse::<f64>().ok() != Some(b) { return Err(format!("declared min={} max={}, schema `{}`", a, b, schema)); }
            Ok(schema)
        });
        let vm = ValidatorAttributes { length: None, range: Some(RangeConstraint { min: Some(a), max: Some(b), message: Some("in range please".to_string()) }), email: false, url: false, custom_message: None };
        rep.case("declared_message_is_kept", &format!("range min={} max={} message", a, b), &|| {
            let schema = ZodSchemaBuilder::new(&cfg).build_schema(&number_ty, &Some(vm.clone()));
            if schema.contains("in range please") { Ok(schema) } else { Err(format!("the declared message is missing from `{}`", schema)) }
        });
    } }
    let ivals: [u64; 6] = [0, 1, 3, 10, 255, u64::MAX];
    for a in ivals { for b in ivals {
        let va = ValidatorAttributes { length: Some(LengthConstraint { min: Some(a), max: Some(b), message: None }), range: None, email: false, url: false, custom_message: None };
        rep.case("length_bounds_rendered_exactly", &format!("length min={} max={}", a, b), &|| {
            let schema = ZodSchemaBuilder::new(&cfg).build_schema(&string_ty, &Some(va.clone()));
            // `.length(n)` is the same constraint as `.min(n).max(n)`
            let exact = bound_of(&schema, ".length(");
            let (mn, mx) = match (&exact, bound_of(&schema, ".min("), bound_of(&schema, ".max(")) { (Some(e), None, None) => (e.clone(), e.clone()), (_, Some(x), Some(y)) => (x, y), _ => return Err(format!("declared min={} max={}, schema `{}` has no such bounds", a, b, schema)) };
            if mn.parse::<u64>().ok() != Some(a) || mx.parse::<u64>().ok() != Some(b) { return Err(format!("declared min={} max={}, schema `{}`", a, b, schema)); }
            Ok(schema)
        });
        let vm = ValidatorAttributes { length: Some(LengthConstraint { min: Some(a), max: Some(b), message: Some("exactly so".to_string()) }), range: None, email: false, url: false, custom_message: None };
        rep.case("declared_message_is_kept", &format!("length min={} max={} message", a, b), &|| {
            let schema = ZodSchemaBuilder::new(&cfg).build_schema(&string_ty, &Some(vm.clone()));
            if schema.contains("exactly so") { Ok(schema) } else { Err(format!("the declared message is missing from `{}`", schema)) }
        });
    } }
    for a in [f64::NAN, f64::INFINITY, f64::NEG_INFINITY, 0.0] { for b in [f64::NAN, f64::INFINITY, f64::NEG_INFINITY, 1.0] {
        for msg in [None, Some("m".to_string())] {
            let vr = ValidatorAttributes { length: None, range: Some(RangeConstraint { min: Some(a), max: Some(b), message: msg.clone() }), email: false, url: false, custom_message: None };
            rep.case("non_finite_bounds_do_not_panic", &format!("range min={} max={} message={:?}", a, b, msg), &|| Ok(ZodSchemaBuilder::new(&cfg).build_schema(&number_ty, &Some(vr.clone()))));
        }
    } }
    rep.finish()
}
