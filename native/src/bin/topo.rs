// BOUNDED witness search / stand-in for unit topo (C20, C09, C13): the real
// TypeDependencyGraph::topological_sort_types on EVERY directed graph with at most N labelled nodes
// (self-loops included; quick: all graphs on <= 3 nodes + every 23rd graph on 4 nodes; thorough: all graphs on <= 4 nodes) and every non-empty requested subset,
// each built twice (fresh hash seeds, reversed insertion order).  The postcondition checked is the
// property statement itself, computed independently (Floyd–Warshall reachability).
use std::collections::HashSet;
use tauri_typegen::analysis::dependency_graph::TypeDependencyGraph;
use tauri_typegen::build::dependency_resolver::{Dependency, DependencyNode, DependencyNodeType, DependencyResolver, DependencyType};
use verif_native::*;

const NAMES: [&str; 4] = ["A", "B", "C", "D"];

fn build(n: usize, edges: u32, reverse: bool) -> TypeDependencyGraph {
    let mut g = TypeDependencyGraph::new();
    let mut list = Vec::new();
    for u in 0..n { for v in 0..n { if edges & (1 << (u * n + v)) != 0 { list.push((u, v)); } } }
    if reverse { list.reverse(); }
    for (u, v) in list { g.add_dependency(NAMES[u].to_string(), NAMES[v].to_string()); }
    g
}

fn reach(n: usize, edges: u32) -> Vec<Vec<bool>> {
    let mut r = vec![vec![false; n]; n];
    for u in 0..n { r[u][u] = true; for v in 0..n { if edges & (1 << (u * n + v)) != 0 { r[u][v] = true; } } }
    for k in 0..n { for i in 0..n { for j in 0..n { if r[i][k] && r[k][j] { r[i][j] = true; } } } }
    r
}

fn violates(n: usize, edges: u32, req: u32, res: &[String]) -> Option<String> {
    let r = reach(n, edges);
    let mut pos = vec![usize::MAX; n];
    for (i, s) in res.iter().enumerate() {
        match NAMES.iter().position(|x| x == s) {
            None => return Some(format!("unknown name {} in result", s)),
            Some(k) => { if pos[k] != usize::MAX { return Some(format!("{} returned twice", s)); } pos[k] = i; }
        }
    }
    for v in 0..n {
        let should = (0..n).any(|t| req & (1 << t) != 0 && r[t][v]);
        if should && pos[v] == usize::MAX { return Some(format!("{} is requested or a transitive dependency but missing", NAMES[v])); }
        if !should && pos[v] != usize::MAX { return Some(format!("{} returned but not reachable from the requested set", NAMES[v])); }
    }
    for u in 0..n { for v in 0..n {
        if u != v && edges & (1 << (u * n + v)) != 0 && pos[u] != usize::MAX && pos[v] != usize::MAX && pos[v] > pos[u] && !r[v][u] {
            return Some(format!("{} depends on {} (no common cycle) but comes first", NAMES[u], NAMES[v]));
        }
    } }
    None
}

fn describe(n: usize, edges: u32, req: u32) -> String {
    let mut e = Vec::new();
    for u in 0..n { for v in 0..n { if edges & (1 << (u * n + v)) != 0 { e.push(format!("{}->{}", NAMES[u], NAMES[v])); } } }
    let rq: Vec<&str> = (0..n).filter(|t| req & (1 << t) != 0).map(|t| NAMES[t]).collect();
    format!("n={} edges={} requested={} [{} ; {}]", n, edges, req, e.join(","), rq.join(","))
}

fn node(i: usize) -> DependencyNode {
    // all five kinds of node occur; the kind of a node never matters for the order
    let kinds = [DependencyNodeType::Command, DependencyNodeType::Struct, DependencyNodeType::Module, DependencyNodeType::Enum, DependencyNodeType::Type];
    DependencyNode { name: NAMES[i].to_string(), path: format!("{}.rs", NAMES[i]), node_type: kinds[i % 5].clone() }
}

/// C20, second sentence: the build-order resolver (Kahn) — BOUNDED only
fn kahn_case(n: usize, edges: u32, repeat: usize) -> Result<String, String> { kahn_case_registered(n, edges, repeat, 0) }

/// `registration`: 0 = every node once, before the edges; 1 = every node before and again after the edges; 2 = the edges first
/// (their ends become known through them), then every node (which adds the isolated ones); 3 = node 0 twice in a row
fn kahn_case_registered(n: usize, edges: u32, repeat: usize, registration: usize) -> Result<String, String> {
    let mut r = DependencyResolver::new();
    if registration != 2 { for i in 0..n { r.add_node(node(i)); } }
    if registration == 3 { r.add_node(node(0)); }
    // `repeat` > 1: the same (from, to) pair is recorded several times, with different dependency kinds (a struct that uses a
    // type both as a field and as a generic argument)
    // every kind of dependency orders its two ends; the kind of an edge is chosen from its position so that all five occur
    let kinds = [DependencyType::Field, DependencyType::Generic, DependencyType::Direct, DependencyType::Import, DependencyType::Variant];
    for k in 0..repeat { for u in 0..n { for v in 0..n { if edges & (1 << (u * n + v)) != 0 {
        r.add_dependency(Dependency { from: node(u), to: node(v), dependency_type: kinds[(k + u * n + v) % 5].clone() });
    } } } }
    if registration == 1 || registration == 2 { for i in 0..n { r.add_node(node(i)); } }
    let reach_m = reach(n, edges);
    let acyclic = (0..n).all(|u| edges & (1 << (u * n + u)) == 0 && (0..n).all(|v| u == v || !(reach_m[u][v] && reach_m[v][u])));
    match r.resolve_build_order() {
        Ok(order) => {
            if !acyclic { return Err(format!("graph is cyclic but an order was returned: {:?}", order.iter().map(|x| x.name.clone()).collect::<Vec<_>>())); }
            if order.len() != n { return Err(format!("{} nodes, order has {}", n, order.len())); }
            let pos = |i: usize| order.iter().position(|x| x.name == NAMES[i]);
            for i in 0..n { if pos(i).is_none() { return Err(format!("{} missing from the order", NAMES[i])); } }
            for u in 0..n { for v in 0..n { if edges & (1 << (u * n + v)) != 0 && pos(v) > pos(u) {
                return Err(format!("{} depends on {} but is ordered before it", NAMES[u], NAMES[v]));
            } } }
            Ok(format!("{:?}", order.iter().map(|x| x.name.clone()).collect::<Vec<_>>()))
        }
        Err(e) => if acyclic { Err(format!("graph is acyclic but the resolver reported {}", e)) } else { Ok("circular".into()) },
    }
}

/// C20-r7: nodes are (name, path, type) triples — two nodes may share a name
fn kahn_same_names() -> Vec<(String, Result<String, String>)> {
    let mk = |name: &str, path: &str, t: DependencyNodeType| DependencyNode { name: name.to_string(), path: path.to_string(), node_type: t };
    let mut out = Vec::new();
    // Config@v2 -> Config@v1 (acyclic), plus a user of v2
    let cases: Vec<(&str, Vec<DependencyNode>, Vec<(usize, usize)>)> = vec![
        ("Config@v2 -> Config@v1, load -> Config@v2", vec![mk("Config", "src/v1.rs", DependencyNodeType::Struct), mk("Config", "src/v2.rs", DependencyNodeType::Struct), mk("load", "src/cmd.rs", DependencyNodeType::Command)], vec![(1, 0), (2, 1)]),
        ("Status struct and Status enum, each with a dependent", vec![mk("Status", "a.rs", DependencyNodeType::Struct), mk("Status", "a.rs", DependencyNodeType::Enum), mk("UsesStruct", "b.rs", DependencyNodeType::Struct), mk("UsesEnum", "b.rs", DependencyNodeType::Struct)], vec![(2, 0), (3, 1)]),
        ("same name in three files, chain", vec![mk("Item", "a.rs", DependencyNodeType::Struct), mk("Item", "b.rs", DependencyNodeType::Struct), mk("Item", "c.rs", DependencyNodeType::Struct)], vec![(0, 1), (1, 2)]),
        ("same name, genuine 2-cycle", vec![mk("Item", "a.rs", DependencyNodeType::Struct), mk("Item", "b.rs", DependencyNodeType::Struct)], vec![(0, 1), (1, 0)]),
    ];
    for (label, nodes, edges) in cases {
        let mut r = DependencyResolver::new();
        for n in &nodes { r.add_node(n.clone()); }
        for (u, v) in &edges { r.add_dependency(Dependency { from: nodes[*u].clone(), to: nodes[*v].clone(), dependency_type: DependencyType::Field }); }
        let cyclic = label.contains("cycle");
        let res = std::panic::catch_unwind(std::panic::AssertUnwindSafe(|| r.resolve_build_order()));
        let verdict = match res {
            Err(_) => Err("panic inside resolve_build_order".to_string()),
            Ok(Ok(order)) => {
                if cyclic { Err("graph is cyclic but an order was returned".to_string()) }
                else if order.len() != nodes.len() { Err(format!("{} nodes, order has {}", nodes.len(), order.len())) }
                else {
                    let pos = |n: &DependencyNode| order.iter().position(|x| x == n);
                    let mut bad = None;
                    for n in &nodes { if pos(n).is_none() { bad = Some(format!("{}@{} missing from the order", n.name, n.path)); } }
                    for (u, v) in &edges { if pos(&nodes[*v]) > pos(&nodes[*u]) { bad = Some(format!("{}@{} depends on {}@{} but is ordered before it", nodes[*u].name, nodes[*u].path, nodes[*v].name, nodes[*v].path)); } }
                    match bad { Some(b) => Err(b), None => Ok(format!("{:?}", order.iter().map(|x| format!("{}@{}", x.name, x.path)).collect::<Vec<_>>())) }
                }
            }
            Ok(Err(e)) => if cyclic { Ok("circular".to_string()) } else { Err(format!("graph is acyclic but the resolver reported {}", e)) },
        };
        out.push((label.to_string(), verdict));
    }
    out
}

/// one resolver asked more than once: what it returns describes the graph at the time of the question
fn kahn_repeated_questions() -> Vec<(String, Result<String, String>)> {
    let mut out = Vec::new();
    let names = |o: &Vec<DependencyNode>| o.iter().map(|x| x.name.clone()).collect::<Vec<_>>();
    // resolve, register one more (isolated) node, resolve again
    {
        let mut r = DependencyResolver::new();
        r.add_node(node(0)); r.add_node(node(1));
        r.add_dependency(Dependency { from: node(1), to: node(0), dependency_type: DependencyType::Field });
        let first = r.resolve_build_order().map(|o| names(&o));
        r.add_node(node(2));
        let second = r.resolve_build_order().map(|o| names(&o));
        out.push(("resolve, add_node(C), resolve".to_string(), match (first, second) {
            (Ok(a), Ok(b)) => if a.len() == 2 && b.len() == 3 && b.contains(&NAMES[2].to_string()) { Ok(format!("{:?} then {:?}", a, b)) } else { Err(format!("first order {:?}, after add_node({}) the order is {:?}: every node exactly once", a, NAMES[2], b)) },
            (a, b) => Err(format!("acyclic graph, but {:?} / {:?}", a.map_err(|e| e.to_string()), b.map_err(|e| e.to_string()))),
        }));
    }
    // resolve, add an edge that closes a cycle, resolve again; and the other way round is not possible (edges are not removed)
    {
        let mut r = DependencyResolver::new();
        r.add_node(node(0)); r.add_node(node(1));
        r.add_dependency(Dependency { from: node(1), to: node(0), dependency_type: DependencyType::Field });
        let first = r.resolve_build_order().is_ok();
        r.add_dependency(Dependency { from: node(0), to: node(1), dependency_type: DependencyType::Generic });
        let second = r.resolve_build_order();
        out.push(("resolve, add the edge that closes a cycle, resolve".to_string(), if first && second.is_err() { Ok("order, then circular".into()) } else { Err(format!("first resolution ok: {}, after the closing edge: {:?}", first, second.map(|o| names(&o)).map_err(|e| e.to_string()))) }));
    }
    // the same question twice gives the same answer
    {
        let mut r = DependencyResolver::new();
        for i in 0..4 { r.add_node(node(i)); }
        r.add_dependency(Dependency { from: node(3), to: node(1), dependency_type: DependencyType::Field });
        r.add_dependency(Dependency { from: node(1), to: node(0), dependency_type: DependencyType::Import });
        let a = r.resolve_build_order().map(|o| names(&o)); let b = r.resolve_build_order().map(|o| names(&o));
        out.push(("resolve twice".to_string(), match (a, b) { (Ok(a), Ok(b)) if a.len() == 4 && b.len() == 4 => Ok(format!("{:?}", a)), (a, b) => Err(format!("{:?} / {:?}", a.map_err(|e| e.to_string()), b.map_err(|e| e.to_string()))) }));
    }
    out
}

fn main() {
    let mut rep = Report::new();
    for (label, verdict) in kahn_repeated_questions() { rep.case("resolve_build_order", &format!("one resolver, several questions: {}", label), &|| verdict.clone()); }
    for (label, verdict) in kahn_same_names() { rep.case("resolve_build_order", &format!("nodes sharing a name: {}", label), &|| verdict.clone()); }
    for n in 1..=4usize {
        for edges in 0..(1u32 << (n * n)) {
            if n == 4 && Report::depth() < 5 && edges % 7 != 0 { continue; }
            rep.case("resolve_build_order", &format!("n={} edges={}", n, edges), &|| kahn_case(n, edges, 1));
            if n <= 3 || edges % 5 == 0 { rep.case("resolve_build_order", &format!("n={} edges={} every edge recorded twice", n, edges), &|| kahn_case(n, edges, 2)); }
            if n <= 3 { rep.case("resolve_build_order", &format!("n={} edges={} every edge recorded three times", n, edges), &|| kahn_case(n, edges, 3)); }
            // a node is one node however often and whenever it is registered
            if n <= 3 || edges % 7 == 0 {
                for (reg, label) in [(1, "every node registered before and after the edges"), (2, "edges first, then every node"), (3, "the first node registered twice")] {
                    rep.case("resolve_build_order", &format!("n={} edges={} {}", n, edges, label), &|| kahn_case_registered(n, edges, 1, reg));
                }
            }
        }
    }
    // quick (depth <= 4): all graphs on <= 3 nodes, every 23rd graph on 4 nodes; thorough: all 65 536
    let full4 = Report::depth() >= 5;
    for n in 1..=4 {
        for edges in 0..(1u32 << (n * n)) {
            if n == 4 && !full4 && edges % 23 != 0 { continue; }
            let r = reach(n, edges);
            let acyclic = (0..n).all(|u| edges & (1 << (u * n + u)) == 0 && (0..n).all(|v| u == v || !(r[u][v] && r[v][u])));
            for req in 1..(1u32 << n) {
                let input = describe(n, edges, req);
                let types: HashSet<String> = (0..n).filter(|t| req & (1 << t) != 0).map(|t| NAMES[t].to_string()).collect();
                let run = |rev: bool| -> Vec<String> {
                    let g = build(n, edges, rev);
                    let t2: HashSet<String> = if rev { let mut v: Vec<_> = types.iter().cloned().collect(); v.reverse(); v.into_iter().collect() } else { types.clone() };
                    g.topological_sort_types(&t2)
                };
                rep.case("topological_sort_types", &input, &|| {
                    let res = run(false);
                    match violates(n, edges, req, &res) { None => Ok(format!("{:?}", res)), Some(w) => Err(format!("{} (result {:?})", w, res)) }
                });
                if acyclic {
                    rep.case("acyclic_order", &input, &|| {
                        let res = run(true);
                        match violates(n, edges, req, &res) { None => Ok(format!("{:?}", res)), Some(w) => Err(format!("{} (result {:?})", w, res)) }
                    });
                }
                rep.case("determinism", &input, &|| {
                    let (a, b) = (run(false), run(true));
                    if a == b { Ok(format!("{:?}", a)) } else { Err(format!("two constructions of the same graph gave {:?} and {:?}", a, b)) }
                });
            }
        }
    }
    // names that differ only in letter case are different types (legal Rust): all graphs on 3 such names
    {
        let cn = ["UserId", "UserID", "userid"];
        for edges in 0..(1u32 << 9) {
            for req in 1..(1u32 << 3) {
                let types: HashSet<String> = (0..3).filter(|t| req & (1 << t) != 0).map(|t| cn[t].to_string()).collect();
                let input = format!("case-colliding names edges={} requested={}", edges, req);
                rep.case("topological_sort_types", &input, &|| {
                    let mut g = TypeDependencyGraph::new();
                    for u in 0..3 { for v in 0..3 { if edges & (1 << (u * 3 + v)) != 0 { g.add_dependency(cn[u].to_string(), cn[v].to_string()); } } }
                    let res = g.topological_sort_types(&types);
                    // the same oracle as above, on positions 0..3
                    let mapped: Vec<String> = res.iter().map(|n| NAMES[cn.iter().position(|c| c == n).unwrap_or(3)].to_string()).collect();
                    match violates(3, edges, req, &mapped) { None => Ok(format!("{:?}", res)), Some(w) => Err(format!("{} (result {:?}; A=UserId B=UserID C=userid)", w, res)) }
                });
            }
        }
    }
    // large structured graphs (deep chains, ladders, wide fans, one long cycle): size-dependent behaviour
    // (depth limits, early exits) is invisible on the 4-node family above
    for (gname, names, es) in big_graphs() {
        for (rname, req) in [("all", names.clone()), ("first", vec![names[0].clone()]), ("first+last", vec![names[0].clone(), names[names.len() - 1].clone()]), ("every-third", names.iter().step_by(3).cloned().collect::<Vec<_>>())] {
            let input = format!("{} requested={}", gname, rname);
            let build2 = |rev: bool| { let mut g = TypeDependencyGraph::new(); let mut l = es.clone(); if rev { l.reverse(); } for (a, b) in l { g.add_dependency(a, b); } g };
            let types: HashSet<String> = req.iter().cloned().collect();
            let check = |res: &Vec<String>| -> Option<String> {
                // reachability by BFS from the requested names
                let mut reach: HashSet<String> = types.clone();
                let mut todo: Vec<String> = types.iter().cloned().collect();
                while let Some(x) = todo.pop() { for (a, b) in &es { if *a == x && reach.insert(b.clone()) { todo.push(b.clone()); } } }
                let pos: std::collections::HashMap<&String, usize> = res.iter().enumerate().map(|(i, n)| (n, i)).collect();
                if pos.len() != res.len() { return Some("a name is returned twice".into()); }
                for n in &reach { if !pos.contains_key(n) { return Some(format!("{} is requested or a transitive dependency but missing", n)); } }
                for n in res { if !reach.contains(n) { return Some(format!("{} returned but not reachable from the requested set", n)); } }
                if !gname.contains("cycle") { for (a, b) in &es { if let (Some(pa), Some(pb)) = (pos.get(a), pos.get(b)) { if pb > pa { return Some(format!("{} depends on {} but is placed before it", a, b)); } } } }
                None
            };
            rep.case("topological_sort_types", &input, &|| { let res = build2(false).topological_sort_types(&types); match check(&res) { None => Ok(format!("{} names", res.len())), Some(w) => Err(w) } });
            if !gname.contains("cycle") {
                rep.case("acyclic_order", &input, &|| { let res = build2(true).topological_sort_types(&types); match check(&res) { None => Ok(format!("{} names", res.len())), Some(w) => Err(w) } });
            }
            rep.case("determinism", &input, &|| { let (a, b) = (build2(false).topological_sort_types(&types), build2(true).topological_sort_types(&types)); if a == b { Ok(format!("{} names", a.len())) } else { Err("two constructions of the same graph gave different orders".into()) } });
        }
    }
    rep.finish()
}

/// (name, node names, edges dependent -> dependency)
fn big_graphs() -> Vec<(String, Vec<String>, Vec<(String, String)>)> {
    let mut v = Vec::new();
    for n in [33usize, 40, 70, 130] {
        // chain whose head sorts first (Level000 -> Level001 -> ...) and chain whose head sorts last
        let up: Vec<String> = (0..n).map(|i| format!("Level{:03}", i)).collect();
        v.push((format!("chain-{}-head-first", n), up.clone(), (0..n - 1).map(|i| (up[i].clone(), up[i + 1].clone())).collect()));
        let down: Vec<String> = (0..n).map(|i| format!("Level{:03}", n - 1 - i)).collect();
        v.push((format!("chain-{}-head-last", n), down.clone(), (0..n - 1).map(|i| (down[i].clone(), down[i + 1].clone())).collect()));
        // ladder: two chains with rungs
        let l: Vec<String> = (0..n).map(|i| format!("L{:03}", i)).collect();
        let r: Vec<String> = (0..n).map(|i| format!("R{:03}", i)).collect();
        let mut es = Vec::new();
        for i in 0..n - 1 { es.push((l[i].clone(), l[i + 1].clone())); es.push((r[i].clone(), r[i + 1].clone())); es.push((l[i].clone(), r[i + 1].clone())); }
        let mut names = l.clone(); names.extend(r.clone());
        v.push((format!("ladder-{}", n), names, es));
        // fan: one root with n dependencies, each with one shared leaf
        let root = "Root".to_string();
        let mids: Vec<String> = (0..n).map(|i| format!("Mid{:03}", i)).collect();
        let mut es = Vec::new();
        for m in &mids { es.push((root.clone(), m.clone())); es.push((m.clone(), "Leaf".to_string())); }
        let mut names = vec![root.clone()]; names.extend(mids.clone()); names.push("Leaf".to_string());
        v.push((format!("fan-{}", n), names, es));
        // braid: layers of two nodes, each depending on both nodes of the next layer (2^n paths, 2n nodes)
        let a: Vec<String> = (0..n).map(|i| format!("A{:03}", i)).collect();
        let b: Vec<String> = (0..n).map(|i| format!("B{:03}", i)).collect();
        let mut es = Vec::new();
        for i in 0..n - 1 { for x in [&a[i], &b[i]] { for y in [&a[i + 1], &b[i + 1]] { es.push((x.clone(), y.clone())); } } }
        let mut names = a.clone(); names.extend(b.clone());
        v.push((format!("braid-{}", n), names, es));
        // one long cycle
        let c: Vec<String> = (0..n).map(|i| format!("C{:03}", i)).collect();
        v.push((format!("cycle-{}", n), c.clone(), (0..n).map(|i| (c[i].clone(), c[(i + 1) % n].clone())).collect()));
    }
    v
}
