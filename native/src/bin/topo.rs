// BOUNDED witness search / stand-in for unit topo (C20, C09, C13): the real
// TypeDependencyGraph::topological_sort_types on EVERY directed graph with at most N labelled nodes
// (self-loops included; quick: all graphs on <= 3 nodes + every 23rd graph on 4 nodes; thorough: all graphs on <= 4 nodes) and every non-empty requested subset,
// each built twice (fresh hash seeds, reversed insertion order).  The postcondition checked is the
// property statement itself, computed independently (Floyd–Warshall reachability).
use std::collections::HashSet;
use tauri_typegen::analysis::dependency_graph::TypeDependencyGraph;
use verif_native::*;

const NAMES: [&str; 4] = ["A", "B", "C", "D"];

fn build(n: usize, edges: u32, reverse: bool) -> TypeDependencyGraph {
    let mut g = TypeDependencyGraph::new();
    let mut list = Vec::new();
    for u in 0..n { for v in 0..n { if edges & (1 << (u * n + v)) != 0 { list.push((u, v)); } } }
    if reverse { list.reverse(); }
    for (u, v) in list { g.add_dependency(NAMES[u].to_string(), NAMES[v].to_string()); }
    g
}

fn reach(n: usize, edges: u32) -> Vec<Vec<bool>> {
    let mut r = vec![vec![false; n]; n];
    for u in 0..n { r[u][u] = true; for v in 0..n { if edges & (1 << (u * n + v)) != 0 { r[u][v] = true; } } }
    for k in 0..n { for i in 0..n { for j in 0..n { if r[i][k] && r[k][j] { r[i][j] = true; } } } }
    r
}

fn violates(n: usize, edges: u32, req: u32, res: &[String]) -> Option<String> {
    let r = reach(n, edges);
    let mut pos = vec![usize::MAX; n];
    for (i, s) in res.iter().enumerate() {
        match NAMES.iter().position(|x| x == s) {
            None => return Some(format!("unknown name {} in result", s)),
            Some(k) => { if pos[k] != usize::MAX { return Some(format!("{} returned twice", s)); } pos[k] = i; }
        }
    }
    for v in 0..n {
        let should = (0..n).any(|t| req & (1 << t) != 0 && r[t][v]);
        if should && pos[v] == usize::MAX { return Some(format!("{} is requested or a transitive dependency but missing", NAMES[v])); }
        if !should && pos[v] != usize::MAX { return Some(format!("{} returned but not reachable from the requested set", NAMES[v])); }
    }
    for u in 0..n { for v in 0..n {
        if u != v && edges & (1 << (u * n + v)) != 0 && pos[u] != usize::MAX && pos[v] != usize::MAX && pos[v] > pos[u] && !r[v][u] {
            return Some(format!("{} depends on {} (no common cycle) but comes first", NAMES[u], NAMES[v]));
        }
    } }
    None
}

fn describe(n: usize, edges: u32, req: u32) -> String {
    let mut e = Vec::new();
    for u in 0..n { for v in 0..n { if edges & (1 << (u * n + v)) != 0 { e.push(format!("{}->{}", NAMES[u], NAMES[v])); } } }
    let rq: Vec<&str> = (0..n).filter(|t| req & (1 << t) != 0).map(|t| NAMES[t]).collect();
    format!("n={} edges={} requested={} [{} ; {}]", n, edges, req, e.join(","), rq.join(","))
}

fn main() {
    let mut rep = Report::new();
    // quick (depth <= 4): all graphs on <= 3 nodes, every 23rd graph on 4 nodes; thorough: all 65 536
    let full4 = Report::depth() >= 5;
    for n in 1..=4 {
        for edges in 0..(1u32 << (n * n)) {
            if n == 4 && !full4 && edges % 23 != 0 { continue; }
            let r = reach(n, edges);
            let acyclic = (0..n).all(|u| edges & (1 << (u * n + u)) == 0 && (0..n).all(|v| u == v || !(r[u][v] && r[v][u])));
            for req in 1..(1u32 << n) {
                let input = describe(n, edges, req);
                let types: HashSet<String> = (0..n).filter(|t| req & (1 << t) != 0).map(|t| NAMES[t].to_string()).collect();
                let run = |rev: bool| -> Vec<String> {
                    let g = build(n, edges, rev);
                    let t2: HashSet<String> = if rev { let mut v: Vec<_> = types.iter().cloned().collect(); v.reverse(); v.into_iter().collect() } else { types.clone() };
                    g.topological_sort_types(&t2)
                };
                rep.case("topological_sort_types", &input, &|| {
                    let res = run(false);
                    match violates(n, edges, req, &res) { None => Ok(format!("{:?}", res)), Some(w) => Err(format!("{} (result {:?})", w, res)) }
                });
                if acyclic {
                    rep.case("acyclic_order", &input, &|| {
                        let res = run(true);
                        match violates(n, edges, req, &res) { None => Ok(format!("{:?}", res)), Some(w) => Err(format!("{} (result {:?})", w, res)) }
                    });
                }
                rep.case("determinism", &input, &|| {
                    let (a, b) = (run(false), run(true));
                    if a == b { Ok(format!("{:?}", a)) } else { Err(format!("two constructions of the same graph gave {:?} and {:?}", a, b)) }
                });
            }
        }
    }
    rep.finish()
}
