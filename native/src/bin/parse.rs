// BOUNDED differential check (C05 parse half, C07/C09 discovery): the real string -> TypeStructure
// parser against the README table, and the real name harvester against the parsed tree, on every
// Rust type expression of depth <= D over a fixed leaf set.
use std::collections::{BTreeSet, HashSet};
use tauri_typegen::analysis::type_resolver::TypeResolver;
use tauri_typegen::analysis::CommandAnalyzer;
use verif_native::*;

fn main() {
    let mut rep = Report::new();
    let d = std::cmp::min(Report::depth().saturating_sub(2), 3);
    let leaves = ["String", "i32", "bool", "User", "Item", "Über"];
    let tr = TypeResolver::new();
    let ca = CommandAnalyzer::new();
    for t in rtrees(d, &leaves) {
        let s = rprint(&t);
        let want = rtree(&t);
        rep.case("parse_type_structure", &s, &|| {
            let got = tr.parse_type_structure(&s);
            if show(&got) == show(&want) { Ok(show(&got)) } else { Err(format!("parsed as {}, the type table gives {}", show(&got), show(&want))) }
        });
        rep.case("harvest_covers_parsed_customs", &s, &|| {
            let mut names = HashSet::new();
            ca.extract_type_names(&s, &mut names);
            let mut cs = BTreeSet::new();
            customs(&want, &mut cs);
            let missing: Vec<&String> = cs.iter().filter(|c| !names.contains(*c)).collect();
            if missing.is_empty() { Ok(format!("{:?}", cs)) } else { Err(format!("project types {:?} occur in the type but extract_type_names harvested only {:?}", missing, { let mut v: Vec<_> = names.iter().collect(); v.sort(); v })) }
        });
    }
    // C18: a mapped source name must reach the visitors verbatim (the mapping lookup is by exact name),
    // alone and under every constructor
    for name in ["PathBuf", "Uuid", "DateTime<Utc>", "DateTime<chrono::Utc>", "Tagged<String, u32>", "a::b::Foo<X, Y>", "Über"] {
        for (ctx, wrap) in [("{}", 0), ("Option<{}>", 1), ("Vec<{}>", 2), ("HashMap<String, {}>", 3), ("({}, u32)", 4), ("Result<{}, String>", 5)] {
            let s = ctx.replace("{}", name);
            rep.case("custom_name_survives_parsing", &s, &|| {
                // as in the pipeline: the analyzer's resolver knows the configured mapping keys
                let mut tr = TypeResolver::new();
                tr.add_type_mapping(name.to_string(), "string".to_string());
                let got = tr.parse_type_structure(&s);
                let mut cs = BTreeSet::new();
                customs(&got, &mut cs);
                let _ = wrap;
                if cs.len() == 1 && cs.contains(name) { Ok(show(&got)) } else { Err(format!("the named type `{}` is not a Custom leaf of the parsed tree {} (custom leaves: {:?})", name, show(&got), cs)) }
            });
        }
    }
    // C05 / C07 / C01: a project type written with a module path is the type of its last segment (no mapping involved)
    let cus = |n: &str| TypeStructure::Custom(n.to_string());
    let pathy: Vec<(&str, TypeStructure)> = vec![
        ("crate::models::User", cus("User")),
        ("self::Item", cus("Item")),
        ("super::m::Über", cus("Über")),
        ("::my_crate::User", cus("User")),
        ("Vec<crate::models::User>", TypeStructure::Array(Box::new(cus("User")))),
        ("std::vec::Vec<crate::Item>", TypeStructure::Array(Box::new(cus("Item")))),
        ("core::option::Option<User>", TypeStructure::Optional(Box::new(cus("User")))),
        ("std::collections::HashMap<String, crate::models::User>", TypeStructure::Map { key: Box::new(TypeStructure::Primitive("string".into())), value: Box::new(cus("User")) }),
        ("std::result::Result<crate::User, String>", TypeStructure::Result(Box::new(cus("User")))),
        ("(crate::User, std::string::String)", TypeStructure::Tuple(vec![cus("User"), TypeStructure::Primitive("string".into())])),
        ("&crate::models::User", cus("User")),
        ("[User; _]", TypeStructure::Array(Box::new(cus("User")))),
        ("[crate::models::User; 3]", TypeStructure::Array(Box::new(cus("User")))),
        ("&[Item]", TypeStructure::Array(Box::new(cus("Item")))),
        ("[[u8; _]; _]", TypeStructure::Array(Box::new(TypeStructure::Array(Box::new(TypeStructure::Primitive("number".into())))))),
        ("Vec<[(String, User); 2]>", TypeStructure::Array(Box::new(TypeStructure::Array(Box::new(TypeStructure::Tuple(vec![TypeStructure::Primitive("string".into()), cus("User")])))))),
        ("Option<&crate::models::Item>", TypeStructure::Optional(Box::new(cus("Item")))),
    ];
    for (s, want) in &pathy {
        rep.case("parse_type_structure", s, &|| {
            let got = tr.parse_type_structure(s);
            if show(&got) == show(want) { Ok(show(&got)) } else { Err(format!("parsed as {}, the type table gives {} (a path-qualified name is the type named by its last segment)", show(&got), show(want))) }
        });
        rep.case("harvest_covers_parsed_customs", s, &|| {
            let mut names = HashSet::new();
            ca.extract_type_names(s, &mut names);
            let mut cs = BTreeSet::new();
            customs(want, &mut cs);
            let missing: Vec<&String> = cs.iter().filter(|c| !names.contains(*c)).collect();
            if missing.is_empty() { Ok(format!("{:?}", cs)) } else { Err(format!("project types {:?} occur in the type but extract_type_names harvested only {:?}", missing, { let mut v: Vec<_> = names.iter().collect(); v.sort(); v })) }
        });
    }
    // C07 / C09: differential between the two real functions on spellings outside the grammar above: every
    // non-generic custom leaf of the parsed tree must be harvested
    for s in ["Result<Settings>", "Result<Vec<Settings>>", "crate::Result<Settings>", "anyhow::Result<Option<User>>", "point", "Option<point>", "Vec<_Hidden>", "_Hidden",
              "HashMap<String, point>", "Result<(User, point), _Hidden>", "(User,)", "( User , Item )", "Vec< User >", "[User; _]", "[User]", "&[Item]", "Vec<[Item; 2]>", "[(User, [Item; 2])]", "[[User; _]; _]", "Option<[point; 4]>", "HashMap<String, [User; 3]>", "Option<Vec<(User, HashMap<String, Item>)>>"] {
        rep.case("harvest_covers_parsed_customs", s, &|| {
            let mut names = HashSet::new();
            ca.extract_type_names(s, &mut names);
            let mut cs = BTreeSet::new();
            customs(&tr.parse_type_structure(s), &mut cs);
            let missing: Vec<&String> = cs.iter().filter(|c| !c.contains('<') && !names.contains(*c)).collect();
            if missing.is_empty() { Ok(format!("{:?}", cs)) } else { Err(format!("the resolver reads {:?} as project types of `{}` but extract_type_names harvested only {:?}", missing, s, { let mut v: Vec<_> = names.iter().collect(); v.sort(); v })) }
        });
    }
    rep.finish()
}
