// BOUNDED check (C18, incremental path): the CLI skips generation when GenerationCache::needs_regeneration
// says the stored state equals the current one.  If an edit of the type-mapping table is not seen there,
// the bindings of the previous table stay in place: N is still rendered as the old M.  Checked here: for
// every ordered pair of DIFFERENT mapping tables over a small vocabulary, a cache saved under the first
// demands regeneration under the second; and the same table never does (within one process).
use std::collections::HashMap;
use std::fs;
use tauri_typegen::build::GenerationCache;
use tauri_typegen::GenerateConfig;
use verif_native::*;

fn main() {
    let mut rep = Report::new();
    let root = std::env::temp_dir().join(format!("verif_cache_{}", std::process::id()));
    let _ = fs::create_dir_all(&root);
    let sources = ["Uuid", "Timestamp", "PathBuf"];
    let targets: Vec<Option<&str>> = if Report::depth() >= 5 { vec![None, Some("string"), Some("number"), Some("Date")] } else { vec![None, Some("string"), Some("number")] };
    // every partial map sources -> targets
    let mut tables: Vec<Vec<(String, String)>> = vec![vec![]];
    for s in sources {
        let mut next = Vec::new();
        for t in &tables { for tg in &targets {
            let mut x = t.clone();
            if let Some(tg) = tg { x.push((s.to_string(), tg.to_string())); }
            next.push(x);
        } }
        tables = next;
    }
    let cfg_of = |t: &Vec<(String, String)>, mode: &str| {
        let mut c = GenerateConfig::default();
        c.validation_library = mode.to_string();
        c.type_mappings = if t.is_empty() { None } else { Some(t.iter().cloned().collect::<HashMap<_, _>>()) };
        c
    };
    let show = |t: &Vec<(String, String)>| format!("{{{}}}", t.iter().map(|(a, b)| format!("{}: {}", a, b)).collect::<Vec<_>>().join(", "));
    let structs = HashMap::new();
    for mode in ["none", "zod"] {
        for (i, t1) in tables.iter().enumerate() {
            let dir = root.join(format!("{}_{}", mode, i));
            let saved = GenerationCache::new(&[], &structs, &cfg_of(t1, mode)).map_err(|e| e.to_string()).and_then(|c| c.save(&dir).map_err(|e| e.to_string()));
            for t2 in &tables {
                let input = format!("mode={} cached under {} now {}", mode, show(t1), show(t2));
                rep.case("mapping_change_invalidates_cache", &input, &|| {
                    saved.clone()?;
                    let need = GenerationCache::needs_regeneration(&dir, &[], &structs, &cfg_of(t2, mode)).map_err(|e| e.to_string())?;
                    if t1 != t2 && !need { return Err(format!("the mapping table changed from {} to {} but the cache reports 'up to date': the old bindings (old targets) stay in place", show(t1), show(t2))); }
                    Ok(format!("{}", need))
                });
            }
        }
    }
    let _ = fs::remove_dir_all(&root);
    rep.finish()
}
