// BOUNDED stand-in for C15 (never counted as proved): the string-slicing functions named in the
// property's anchors, called in the real crate (private ones through the cfg-guarded hooks), on EVERY
// input of a finite family: skeleton ++ every sequence of at most D tokens of the alphabets below
// (2-, 3- and 4-byte characters and multi-byte whitespace included).  A panic is a violation.
use std::collections::HashSet;
use tauri_typegen::analysis::serde_parser::SerdeParser;
use tauri_typegen::analysis::type_resolver::TypeResolver;
use tauri_typegen::analysis::validator_parser::ValidatorParser;
use tauri_typegen::analysis::CommandAnalyzer;
use tauri_typegen::generators::base::templates::verif_add_types_prefix;
use verif_native::*;

const TEXT_ALPHABET: &[&str] = &["a", "1", "\"", "'", "\\", "=", ",", "(", ")", " ", "_", "ß", "€", "\u{2003}", "😀", "-"];
// keyword alphabets: repeated / overlapping keywords drive the search loops of the token-string parsers
const SERDE_ALPHABET: &[&str] = &["rename", "_all", "=", " ", "\"", ",", "a", "_", "de", "(", ")", "ß"];
const VALID_ALPHABET: &[&str] = &["min", "max", "message", "length", "range", "=", " ", "\"", ",", "(", ")", "1", "-", "a", "\\"];
const TYPE_ALPHABET: &[&str] = &["Option<", "Vec<", "Result<", "HashMap<", "HashSet<", "BTreeMap<", "(", ")", ">", ",", ", ", "&", "&'a ",
    "&mut ", "String", "i32", "T", "ß", "€", " ", "[", "]"];
const TS_ALPHABET: &[&str] = &["string", "User", "[]", " | null", " | undefined", "Record<", "Map<", "[", "]", "types.", ">", ", ", "ß", "€", "(", ")"];

fn enumerate(alphabet: &[&str], depth: usize, f: &mut dyn FnMut(&str)) {
    fn rec(alphabet: &[&str], depth: usize, cur: &mut String, f: &mut dyn FnMut(&str)) {
        f(cur);
        if depth == 0 { return; }
        for tok in alphabet {
            let n = cur.len();
            cur.push_str(tok);
            rec(alphabet, depth - 1, cur, f);
            cur.truncate(n);
        }
    }
    let mut s = String::new();
    rec(alphabet, depth, &mut s, f);
}

fn family(rep: &mut Report, name: &str, skeletons: &[(&str, &str)], alphabet: &[&str], depth: usize, call: &dyn Fn(&str) -> String) {
    for (pre, post) in skeletons {
        enumerate(alphabet, depth, &mut |mid: &str| {
            let input = format!("{}{}{}", pre, mid, post);
            rep.case(name, &input, &|| Ok(call(&input)));
        });
    }
}

fn main() {
    let mut rep = Report::new();
    let depth = Report::depth();
    let vp = ValidatorParser::new();
    let sp = SerdeParser::new();
    let tr = TypeResolver::new();
    let ca = CommandAnalyzer::new();
    family(&mut rep, "parse_message_from_content", &[("message = \"", "\""), ("message='", "'"), ("", ""), ("message", "")],
           TEXT_ALPHABET, depth, &|s| format!("{:?}", vp.verif_parse_message_from_content(s)));
    family(&mut rep, "parse_length_from_tokens", &[("length(min = 1, max = ", ")"), ("length(", ")"), ("length", ""), ("length(min = 1, message = \"", "\")")],
           TEXT_ALPHABET, depth, &|s| format!("{:?}", vp.verif_parse_length_from_tokens(s)));
    family(&mut rep, "parse_range_from_tokens", &[("range(min = 1, max = ", ")"), ("range(", ")"), ("range", ""), ("range(max = 2, message = '", "')")],
           TEXT_ALPHABET, depth, &|s| format!("{:?}", vp.verif_parse_range_from_tokens(s)));
    family(&mut rep, "parse_rename", &[("rename", ""), ("rename = \"", "\""), ("", "rename_all = \"camelCase\""), ("rename ", "_all = \"x\", rename = \"y\"")],
           TEXT_ALPHABET, depth, &|s| format!("{:?}", sp.verif_parse_rename(s)));
    family(&mut rep, "parse_rename_all", &[("rename_all", ""), ("rename_all = \"", "\""), ("", "")],
           TEXT_ALPHABET, depth, &|s| format!("{:?}", sp.verif_parse_rename_all(s).map(|r| r.to_rename_all_str())));
    family(&mut rep, "parse_rename", &[("", "")], SERDE_ALPHABET, depth + 1, &|s| format!("{:?}", sp.verif_parse_rename(s)));
    family(&mut rep, "parse_rename_all", &[("", "")], SERDE_ALPHABET, depth + 1, &|s| format!("{:?}", sp.verif_parse_rename_all(s).map(|r| r.to_rename_all_str())));
    family(&mut rep, "parse_message_from_content", &[("", "")], VALID_ALPHABET, depth, &|s| format!("{:?}", vp.verif_parse_message_from_content(s)));
    family(&mut rep, "parse_length_from_tokens", &[("", "")], VALID_ALPHABET, depth, &|s| format!("{:?}", vp.verif_parse_length_from_tokens(s)));
    family(&mut rep, "parse_range_from_tokens", &[("", "")], VALID_ALPHABET, depth, &|s| format!("{:?}", vp.verif_parse_range_from_tokens(s)));
    family(&mut rep, "parse_type_structure", &[("", ""), ("Result<", ", String>"), ("(", ")"), ("HashMap<", ">")],
           TYPE_ALPHABET, depth, &|s| format!("{:?}", tr.parse_type_structure(s)));
    family(&mut rep, "extract_type_names", &[("", ""), ("Result<", ">"), ("(", ")")],
           TYPE_ALPHABET, depth, &|s| { let mut h = HashSet::new(); ca.extract_type_names(s, &mut h); let mut v: Vec<_> = h.into_iter().collect(); v.sort(); format!("{:?}", v) });
    family(&mut rep, "add_types_prefix", &[("", "")], TS_ALPHABET, depth, &|s| verif_add_types_prefix(s));
    rep.finish()
}
