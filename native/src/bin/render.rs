// BOUNDED differential check (C05 render, C10, C18): the real visitors / schema builder against the
// executable oracles, on every type tree of depth <= D over a fixed leaf set and four mapping tables.
use std::collections::HashMap;
use tauri_typegen::generators::base::type_visitor::TypeVisitor;
use tauri_typegen::generators::ts::type_visitor::TypeScriptVisitor;
use tauri_typegen::generators::zod::schema_builder::ZodSchemaBuilder;
use tauri_typegen::generators::zod::type_visitor::ZodVisitor;
use tauri_typegen::GenerateConfig;
use verif_native::*;

fn main() {
    let mut rep = Report::new();
    let d = std::cmp::min(Report::depth().saturating_sub(2), 3); // quick (4) -> 2, thorough (5) -> 3
    let prim = |s: &str| TypeStructure::Primitive(s.to_string());
    let cus = |s: &str| TypeStructure::Custom(s.to_string());
    let leaves = vec![prim("string"), prim("number"), prim("boolean"), cus("User"), cus("PathBuf"), cus("DateTime<chrono::Utc>"), cus("Page<UserItem>")];
    let tables: Vec<(&str, Vec<(&str, &str)>)> = vec![
        ("none", vec![]),
        ("PathBuf->string", vec![("PathBuf", "string")]),
        ("DateTime<chrono::Utc>->string,PathBuf->number", vec![("DateTime<chrono::Utc>", "string"), ("PathBuf", "number")]),
        ("User->boolean", vec![("User", "boolean")]),
    ];
    let ts = trees(d, &leaves);
    for (tname, table) in &tables {
        let m: Mappings = table.iter().map(|(a, b)| (a.to_string(), b.to_string())).collect();
        let mut cfg = GenerateConfig::default();
        cfg.type_mappings = if m.is_empty() { None } else { Some(m.clone().into_iter().collect::<HashMap<_, _>>()) };
        for t in &ts {
            let input = format!("mappings[{}] {}", tname, show(t));
            let want_ts = pp(&den(&m, t), false);
            rep.case("ts_visit_type", &input, &|| {
                let got = TypeScriptVisitor::with_config(&cfg).visit_type(t);
                if got == want_ts { Ok(got) } else { Err(format!("TypeScriptVisitor::visit_type gives `{}`, C05/C18 table gives `{}`", got, want_ts)) }
            });
            rep.case("zod_interface_type", &input, &|| {
                let got = ZodVisitor::with_config(&cfg).visit_type_for_interface(t);
                if got == want_ts { Ok(got) } else { Err(format!("ZodVisitor::visit_type_for_interface gives `{}`, C05/C18 table gives `{}`", got, want_ts)) }
            });
            if m.is_empty() {
                // C02: the rendered type as it appears in commands.ts / events.ts
                let rendered = pp(&den(&m, t), false);
                let want_q = pp(&qualify(&den(&m, t), true), false);
                rep.case("prefix_qualifies", &format!("{} rendered as `{}`", show(t), rendered), &|| {
                    let got = tauri_typegen::generators::base::templates::verif_add_types_prefix(&rendered);
                    if got == want_q { Ok(got) } else { Err(format!("add_types_prefix(`{}`) = `{}`, C02 requires `{}`", rendered, got, want_q)) }
                });
                // C02, composed as the templates do: what the REAL visitors print, then the prefix filter.  Any text is
                // accepted in which exactly the project types are referenced, each through `types.` (names inside the
                // known-finding shapes record / tuple are judged by the oracle text instead)
                for (vname, real) in [("TypeScriptVisitor::visit_type", TypeScriptVisitor::with_config(&cfg).visit_type(t)), ("ZodVisitor::visit_type_for_interface", ZodVisitor::with_config(&cfg).visit_type_for_interface(t))] {
                    rep.case("prefix_of_rendered_qualifies", &format!("{} through {} = `{}`", show(t), vname, real), &|| {
                        let got = tauri_typegen::generators::base::templates::verif_add_types_prefix(&real);
                        if got == want_q { return Ok(got); }
                        if real == rendered { return Ok(got); } // same input as prefix_qualifies: judged there
                        let cs: Vec<char> = got.chars().collect();
                        let mut i = 0;
                        while i < cs.len() {
                            if cs[i].is_alphabetic() || cs[i] == '_' {
                                let st = i;
                                while i < cs.len() && (cs[i].is_alphanumeric() || cs[i] == '_') { i += 1; }
                                let id: String = cs[st..i].iter().collect();
                                let qualified = st >= 6 && cs[st - 6..st].iter().collect::<String>() == "types.";
                                let project = id == "User" || id == "PathBuf" || id == "DateTime" || id == "Page";
                                if qualified && !project { return Err(format!("add_types_prefix(`{}`) = `{}`: `types.{}` names nothing types.ts exports", real, got, id)); }
                                if !qualified && project { return Err(format!("add_types_prefix(`{}`) = `{}`: project type `{}` is not qualified", real, got, id)); }
                                continue;
                            }
                            i += 1;
                        }
                        Ok(got)
                    });
                }
            }
            let want_z = zs(&m, t, false, true);
            rep.case("zod_param_schema", &input, &|| {
                let got = ZodSchemaBuilder::new(&cfg).build_param_schema(t);
                if got == want_z { Ok(got) } else { Err(format!("build_param_schema gives `{}`, C10/C18 table gives `{}`", got, want_z)) }
            });
            rep.case("zod_field_schema", &input, &|| {
                let got = ZodSchemaBuilder::new(&cfg).build_schema(t, &None);
                if got == want_z { Ok(got) } else { Err(format!("build_schema gives `{}`, C10/C18 table gives `{}`", got, want_z)) }
            });
        }
    }
    rep.finish()
}
