// BOUNDED stand-in (syn / template glue, corpus-based): generated bindings of small projects that
// enumerate the SPELLINGS the properties quantify over — injected parameters (C04), derive and serde
// attribute forms (C06, C07, C02), emit placements and combinations (C12, C15), source transformations
// (C13), output paths (C16), both output modes (C10) — checked against expectations computed from the
// property statements.  Labelled bounded; never counted as proved.
use std::collections::{BTreeMap, BTreeSet};
use std::fs;
use std::path::{Path, PathBuf};
use tauri_typegen::analysis::CommandAnalyzer;
use tauri_typegen::{generate_from_config, GenerateConfig};
use verif_native::*;

const HDR: &str = "use serde::{Serialize, Deserialize};\nuse std::collections::HashMap;\n";

fn write_files(dir: &Path, files: &[(String, String)]) {
    let _ = fs::remove_dir_all(dir);
    for (f, c) in files {
        let p = dir.join(f);
        fs::create_dir_all(p.parent().unwrap()).unwrap();
        fs::write(p, c).unwrap();
    }
}

fn generate(src: &Path, out: &Path, mode: &str) -> Result<BTreeMap<String, String>, String> {
    let _ = fs::remove_dir_all(out);
    let mut cfg = GenerateConfig::default();
    cfg.project_path = src.to_string_lossy().to_string();
    cfg.output_path = out.to_string_lossy().to_string();
    cfg.validation_library = mode.to_string();
    generate_from_config(&cfg).map_err(|e| format!("generate_from_config returned Err: {}", e))?;
    let mut m = BTreeMap::new();
    for e in fs::read_dir(out).map_err(|e| e.to_string())?.flatten() {
        if e.path().is_file() { m.insert(e.file_name().to_string_lossy().to_string(), fs::read_to_string(e.path()).unwrap_or_default()); }
    }
    Ok(m)
}

/// keys of `export interface Name { ... }` (mode none) / `export const NameSchema = z.object({ ... })` (zod)
fn object_keys(types_ts: &str, name: &str, zod: bool) -> Option<Vec<String>> {
    Some(raw_object_keys(types_ts, name, zod)?.into_iter().map(|k| js_unquote(&k)).collect())
}

/// the text a printed key names: an identifier as it is, a quoted key with its escapes decoded
fn js_unquote(k: &str) -> String {
    let q = match k.chars().next() { Some(c) if (c == '"' || c == '\'') && k.len() >= 2 && k.ends_with(c) => c, _ => return k.to_string() };
    let _ = q;
    let inner = &k[1..k.len() - 1];
    let mut out = String::new();
    let mut chars = inner.chars();
    while let Some(c) = chars.next() {
        if c != '\\' { out.push(c); continue; }
        match chars.next() { Some('n') => out.push('\n'), Some('r') => out.push('\r'), Some('t') => out.push('\t'), Some('0') => out.push('\0'), Some(o) => out.push(o), None => out.push('\\') }
    }
    out
}

/// the keys of an interface with their `?` marks (`after?`)
fn raw_object_keys_with_marks(types_ts: &str, name: &str) -> Option<Vec<String>> {
    let head = format!("export interface {} {{", name);
    let cleaned = without_comments(types_ts);
    let start = cleaned.find(&head)? + head.len();
    let end = cleaned[start..].find("\n}")? + start;
    Some(cleaned[start..end].lines().filter_map(|l| l.split_once(':').map(|(k, _)| k.trim().to_string())).filter(|k| !k.starts_with('[')).collect())
}

/// the keys as printed (quotes kept)
fn raw_object_keys(types_ts: &str, name: &str, zod: bool) -> Option<Vec<String>> {
    Some(object_entries(types_ts, name, zod)?.into_iter().map(|(k, _)| k).collect())
}

/// (key as printed, value text) of every entry of the interface / z.object literal
fn object_entries(types_ts: &str, name: &str, zod: bool) -> Option<Vec<(String, String)>> {
    let head = if zod { format!("export const {}Schema = z.object({{", name) } else { format!("export interface {} {{", name) };
    let cleaned = without_comments(types_ts);
    let types_ts = cleaned.as_str();
    let start = types_ts.find(&head)? + head.len();
    let rest = &types_ts[start..];
    let mut depth = 0i32;
    let mut end = rest.len();
    let mut q: Option<char> = None;
    let mut esc = false;
    for (i, ch) in rest.char_indices() {
        if let Some(x) = q { if esc { esc = false; } else if ch == '\\' { esc = true; } else if ch == x { q = None; } continue; }
        match ch { '"' | '\'' => q = Some(ch), '{' | '(' | '[' => depth += 1, '}' | ')' | ']' => { if depth == 0 { end = i; break; } depth -= 1; } _ => {} }
    }
    // entries are separated by `,` `;` or a line break at nesting depth 0
    let mut entries: Vec<String> = vec![String::new()];
    let mut d = 0i32;
    let mut in_str: Option<char> = None;
    let mut esc2 = false;
    for ch in rest[..end].chars() {
        if let Some(q) = in_str { if esc2 { esc2 = false; } else if ch == '\\' { esc2 = true; } else if ch == q { in_str = None; } entries.last_mut().unwrap().push(ch); continue; }
        match ch {
            '"' | '\'' => { in_str = Some(ch); entries.last_mut().unwrap().push(ch); }
            '(' | '[' | '{' | '<' => { d += 1; entries.last_mut().unwrap().push(ch); }
            ')' | ']' | '}' | '>' => { d -= 1; entries.last_mut().unwrap().push(ch); }
            ',' | ';' | '\n' if d == 0 => entries.push(String::new()),
            _ => entries.last_mut().unwrap().push(ch),
        }
    }
    let mut out = Vec::new();
    for e in entries {
        let l = e.trim();
        if l.is_empty() || l.starts_with("//") || l.starts_with('[') { continue; }
        // the key ends at the first `:` outside quotes
        let mut q: Option<char> = None;
        let mut cut = None;
        let mut esc = false;
        for (i, ch) in l.char_indices() { if q.is_some() && esc { esc = false; continue; } match (q, ch) { (Some(_), '\\') => esc = true, (Some(x), c) if c == x => q = None, (Some(_), _) => {}, (None, '"') | (None, '\'') => q = Some(ch), (None, ':') => { cut = Some(i); break; } _ => {} } }
        if let Some(c) = cut { out.push((l[..c].trim().trim_end_matches('?').to_string(), l[c + 1..].trim().to_string())); }
    }
    Some(out)
}

/// literals of `export type Name = "a" | "b";` (none) / `export const NameSchema = z.enum(["a", "b"]);` (zod)
fn enum_literals(types_ts: &str, name: &str, zod: bool) -> Option<Vec<String>> {
    let head = if zod { format!("export const {}Schema = z.enum([", name) } else { format!("export type {} = ", name) };
    let start = types_ts.find(&head)? + head.len();
    // the values of the string literals up to the `;` that ends the declaration (JavaScript escapes decoded)
    let mut v = Vec::new();
    let mut cur: Option<String> = None;
    let mut chars = types_ts[start..].chars();
    while let Some(ch) = chars.next() {
        match (&mut cur, ch) {
            (None, ';') => return Some(v),
            (None, '"') => cur = Some(String::new()),
            (None, _) => {}
            (Some(s), '"') => { v.push(s.clone()); cur = None; }
            (Some(s), '\\') => match chars.next()? {
                'n' => s.push('\n'), 'r' => s.push('\r'), 't' => s.push('\t'), '0' => s.push('\0'),
                'u' => { let mut hex = String::new(); let mut c = chars.next()?; if c == '{' { loop { c = chars.next()?; if c == '}' { break; } hex.push(c); } } else { hex.push(c); for _ in 0..3 { hex.push(chars.next()?); } } s.push(char::from_u32(u32::from_str_radix(&hex, 16).ok()?)?); }
                c => s.push(c),
            },
            (Some(_), '\n') => return None,
            (Some(s), c) => s.push(c),
        }
    }
    None
}


/// C01 (lexical part): strings and comments skipped; brackets balanced; no Rust surface syntax; `types.` followed by an identifier
fn lexical_wellformed(files: &BTreeMap<String, String>) -> Result<String, String> {
    for (f, text) in files {
        if !f.ends_with(".ts") { continue; }
        let cs: Vec<char> = text.chars().collect();
        let mut stack: Vec<(char, usize)> = Vec::new();
        let mut i = 0;
        let mut line = 1;
        while i < cs.len() {
            let c = cs[i];
            if c == '\n' { line += 1; }
            if c == '/' && cs.get(i + 1) == Some(&'/') { while i < cs.len() && cs[i] != '\n' { i += 1; } continue; }
            if c == '/' && cs.get(i + 1) == Some(&'*') { i += 2; while i + 1 < cs.len() && !(cs[i] == '*' && cs[i + 1] == '/') { if cs[i] == '\n' { line += 1; } i += 1; } i += 2; continue; }
            if c == '"' || c == '\'' || c == '`' {
                let q = c; i += 1;
                while i < cs.len() && cs[i] != q { if cs[i] == '\\' { i += 1; } if i < cs.len() && cs[i] == '\n' && q != '`' { return Err(format!("{}:{} unterminated string literal", f, line)); } i += 1; }
                i += 1; continue;
            }
            match c {
                ';' if matches!(stack.last(), Some(('[', _)) | Some(('(', _))) => {
                    // inside `[..]` / `(..)` a `;` is only legal in a for-header; the generated files have none in type positions
                    let line_text: String = text.lines().nth(line - 1).unwrap_or("").to_string();
                    if !line_text.trim_start().starts_with("for ") && !line_text.trim_start().starts_with("for(") { return Err(format!("{}:{} `;` inside brackets (Rust array syntax `[T; N]` leaked?): `{}`", f, line, line_text.trim().chars().take(120).collect::<String>())); }
                }
                '(' | '[' | '{' => stack.push((c, line)),
                ')' | ']' | '}' => { let want = match c { ')' => '(', ']' => '[', _ => '{' }; match stack.pop() { Some((o, _)) if o == want => {}, other => return Err(format!("{}:{} unbalanced `{}` (open: {:?})", f, line, c, other)) } }
                ':' if cs.get(i + 1) == Some(&':') => return Err(format!("{}:{} Rust path syntax `::` leaked", f, line)),
                '#' if i >= 1 && cs[i - 1] == 'r' && (i < 2 || !(cs[i - 2].is_alphanumeric() || cs[i - 2] == '_')) && cs.get(i + 1).map_or(false, |c| c.is_alphabetic() || *c == '_') => return Err(format!("{}:{} a raw-identifier prefix `r#` leaked", f, line)),
                '=' if cs.get(i + 1) != Some(&'=') && cs.get(i + 1) != Some(&'>') && i >= 1 && !"=!<>+-*/%&|^".contains(cs[i - 1]) => {
                    // an assignment or alias needs a right-hand side
                    let mut k = i + 1; while k < cs.len() && (cs[k] == ' ' || cs[k] == '\t') { k += 1; }
                    if k < cs.len() && (cs[k] == ';' || cs[k] == '\n') && cs.get(k + 1).map_or(true, |_| true) && cs[k] == ';' { return Err(format!("{}:{} a declaration without a right-hand side (`= ;`)", f, line)); }
                }
                '.' if i >= 5 && cs[i - 5..i].iter().collect::<String>() == "types" => {
                    let nx = cs.get(i + 1).copied().unwrap_or(' ');
                    if !(nx.is_alphabetic() || nx == '_' || nx == '$') { return Err(format!("{}:{} `types.` is followed by `{}`, not an identifier", f, line, nx)); }
                }
                _ => {}
            }
            i += 1;
        }
        if let Some((o, l)) = stack.pop() { return Err(format!("{}:{} `{}` never closed", f, l, o)); }
        // statement shapes: a line that begins outside every bracket begins a declaration, an import, a comment or closes one
        {
            let mut depth = 0i32; let mut in_block_comment = false; let mut q: Option<char> = None;
            for (ln, l) in text.lines().enumerate() {
                let at_top = depth == 0 && !in_block_comment && q.is_none();
                let t = l.trim_start();
                if at_top && !t.is_empty() {
                    let ok = ["export ", "import ", "const ", "let ", "function ", "async function ", "type ", "interface ", "declare ", "//", "/*", "}", ")", "]", "};", ");"].iter().any(|p| t.starts_with(p));
                    if !ok { return Err(format!("{}:{} text outside every declaration: `{}`", f, ln + 1, t.chars().take(100).collect::<String>())); }
                }
                let cs: Vec<char> = l.chars().collect();
                let mut i = 0;
                while i < cs.len() {
                    let c = cs[i];
                    if in_block_comment { if c == '*' && cs.get(i + 1) == Some(&'/') { in_block_comment = false; i += 1; } i += 1; continue; }
                    if let Some(x) = q { if c == '\\' { i += 2; continue; } if c == x { q = None; } i += 1; continue; }
                    if c == '/' && cs.get(i + 1) == Some(&'/') { break; }
                    if c == '/' && cs.get(i + 1) == Some(&'*') { in_block_comment = true; i += 2; continue; }
                    match c { '"' | '\'' | '`' => q = Some(c), '(' | '[' | '{' => depth += 1, ')' | ']' | '}' => depth -= 1, _ => {} }
                    i += 1;
                }
                if let Some(x) = q { if x != '`' { q = None; } }
            }
        }
        // type-argument lists: on lines that carry a signature type, `<` and `>` balance (arrows `=>` aside, strings removed)
        for (ln, l) in text.lines().enumerate() {
            let t = l.trim_start();
            if t.starts_with("//") || t.starts_with('*') || t.starts_with("/*") { continue; }
            if !(l.contains("Promise<") || l.contains("listen<") || l.contains("CommandHooks<") || l.contains("Channel<") || l.contains("Record<")) { continue; }
            let mut depth = 0i32; let mut q: Option<char> = None; let mut prev = ' ';
            for ch in l.chars() {
                if let Some(x) = q { if ch == x && prev != '\\' { q = None; } prev = ch; continue; }
                match ch { '"' | '\'' | '`' => q = Some(ch), '<' => depth += 1, '>' if prev != '=' => { depth -= 1; if depth < 0 { break; } } _ => {} }
                prev = ch;
            }
            if depth != 0 { return Err(format!("{}:{} unbalanced type-argument brackets in `{}`", f, ln + 1, l.trim().chars().take(120).collect::<String>())); }
        }
    }
    Ok("ok".into())
}

/// names exported by a module text (`export interface|type|const|function|enum|class Name`)
fn exports_of(text: &str) -> BTreeSet<String> {
    let mut out = BTreeSet::new();
    for l in text.lines() {
        let l = l.trim_start();
        if let Some(rest) = l.strip_prefix("export ") {
            let mut it = rest.split(|c: char| !(c.is_alphanumeric() || c == '_' || c == '$')).filter(|w| !w.is_empty());
            let kw = it.next().unwrap_or("");
            let kw2 = if kw == "async" || kw == "declare" || kw == "default" { it.next().unwrap_or("") } else { kw };
            if ["interface", "type", "const", "function", "enum", "class", "let", "var"].contains(&kw2) { if let Some(n) = it.next() { out.insert(n.to_string()); } }
        }
    }
    out
}

/// C02: in commands.ts / events.ts every `types.X` names something types.ts exports, and no project type is
/// referenced without the qualifier (identifiers inside strings and comments are not references)
fn references_resolve(files: &BTreeMap<String, String>, project_types: &[&str]) -> Result<String, String> {
    let exp = exports_of(files.get("types.ts").map(|s| s.as_str()).unwrap_or(""));
    let mut n = 0;
    for f in ["commands.ts", "events.ts"] {
        let text = match files.get(f) { Some(t) => t, None => continue };
        let cs: Vec<char> = text.chars().collect();
        let mut i = 0;
        while i < cs.len() {
            let c = cs[i];
            if c == '/' && cs.get(i + 1) == Some(&'/') { while i < cs.len() && cs[i] != '\n' { i += 1; } continue; }
            if c == '/' && cs.get(i + 1) == Some(&'*') { i += 2; while i + 1 < cs.len() && !(cs[i] == '*' && cs[i + 1] == '/') { i += 1; } i += 2; continue; }
            if c == '"' || c == '\'' || c == '`' { let q = c; i += 1; while i < cs.len() && cs[i] != q { if cs[i] == '\\' { i += 1; } i += 1; } i += 1; continue; }
            if c.is_alphabetic() || c == '_' || c == '$' {
                let st = i;
                while i < cs.len() && (cs[i].is_alphanumeric() || cs[i] == '_' || cs[i] == '$') { i += 1; }
                let id: String = cs[st..i].iter().collect();
                let qualified = st >= 6 && cs[st - 6..st].iter().collect::<String>() == "types." && !(st >= 7 && (cs[st - 7].is_alphanumeric() || cs[st - 7] == '_' || cs[st - 7] == '.'));
                let member = st >= 1 && cs[st - 1] == '.';
                if qualified {
                    n += 1;
                    if !exp.contains(&id) { return Err(format!("{}: `types.{}` is referenced but types.ts exports no `{}`", f, id, id)); }
                } else if !member && project_types.contains(&id.as_str()) {
                    return Err(format!("{}: project type `{}` is referenced without the `types.` qualifier (it is not declared or imported in this module)", f, id));
                }
                continue;
            }
            i += 1;
        }
    }
    // no module declares the same exported name twice (a type and a value of one name live in different declaration spaces)
    for (f, text) in files {
        if !f.ends_with(".ts") { continue; }
        let mut seen: BTreeSet<(bool, String)> = BTreeSet::new();
        for l in text.lines() {
            let lt = l.trim_start();
            if !lt.starts_with("export ") || l.contains(" from ") { continue; }
            let mut it = lt["export ".len()..].split(|c: char| !(c.is_alphanumeric() || c == '_' || c == '$')).filter(|w| !w.is_empty());
            let mut kw = it.next().unwrap_or("");
            if kw == "async" || kw == "declare" || kw == "default" { kw = it.next().unwrap_or(""); }
            let name = match it.next() { Some(n) => n.to_string(), None => continue };
            let spaces: &[bool] = match kw { "interface" | "type" => &[true], "const" | "function" | "let" | "var" => &[false], "class" | "enum" => &[true, false], _ => continue };
            for sp in spaces { if !seen.insert((*sp, name.clone())) { return Err(format!("{}: `{}` is exported twice as a {}", f, name, if *sp { "type" } else { "value" })); } }
        }
    }
    Ok(format!("{} qualified references", n))
}

/// the schema expression of `key` inside `export const <name>Schema = z.object({ ... })`
fn zod_field(types_ts: &str, name: &str, key: &str) -> Option<String> {
    object_entries(types_ts, name, true)?.into_iter().find(|(k, _)| k.trim_matches('"') == key).map(|(_, v)| v)
}

/// Tauri's command macro: lowerCamelCase of the Rust parameter name (words = non-empty pieces between underscores)
fn lower_camel(name: &str) -> String {
    let name = name.strip_prefix("r#").unwrap_or(name);
    words_of_field(name).iter().enumerate().map(|(i, w)| if i == 0 { w.clone() } else { cap(w) }).collect()
}

/// C01: every declared function and exported type name is a legal identifier and no reserved word
fn declared_names_legal(files: &BTreeMap<String, String>) -> Result<String, String> {
    const RESERVED: [&str; 46] = ["break", "case", "catch", "class", "const", "continue", "debugger", "default", "delete", "do", "else", "enum", "export", "extends", "false", "finally", "for", "function", "if", "import",
        "in", "instanceof", "new", "null", "return", "super", "switch", "this", "throw", "true", "try", "typeof", "var", "void", "while", "with", "implements", "interface", "let", "package", "private", "protected", "public", "static", "yield", "await"];
    let mut n = 0;
    for (f, text) in files {
        if !f.ends_with(".ts") { continue; }
        for l in text.lines() {
            let t = l.trim_start();
            let mut rest = None;
            for pre in ["export async function ", "export function ", "async function ", "function ", "export interface ", "export type ", "export const ", "export enum ", "export class "] {
                if let Some(r) = t.strip_prefix(pre) { rest = Some(r); break; }
            }
            if let Some(rest) = rest {
                let name: String = rest.chars().take_while(|c| !['(', '<', ' ', '=', ':', '{'].contains(c)).collect();
                let ident = name.chars().next().map_or(false, |c| c.is_alphabetic() || c == '_' || c == '$') && name.chars().all(|c| c.is_alphanumeric() || c == '_' || c == '$');
                if !ident { return Err(format!("{}: declared name `{}` is not an identifier (`{}`)", f, name, t.chars().take(80).collect::<String>())); }
                if RESERVED.contains(&name.as_str()) || name == "arguments" || name == "eval" { return Err(format!("{}: declared name `{}` is a reserved word", f, name)); }
                n += 1;
            }
        }
    }
    Ok(format!("{} declarations", n))
}

/// C09: in a Zod types module no schema constant is read before its `export const` (mentions inside z.lazy(() => ..) excepted)
fn schemas_defined_before_use(types_ts: &str) -> Result<String, String> {
    let mut defined: BTreeSet<String> = BTreeSet::new();
    let mut n = 0;
    let mut current: Option<String> = None;
    // only constants this module defines somewhere can be read too early (a foreign, unmapped type has no schema at all: C02's premise)
    let all_defined: BTreeSet<String> = types_ts.lines().filter_map(|l| l.strip_prefix("export const ")).map(|r| r.chars().take_while(|c| c.is_alphanumeric() || *c == '_').collect::<String>()).collect();
    for (ln, l) in types_ts.lines().enumerate() {
        if let Some(rest) = l.strip_prefix("export const ") {
            let name: String = rest.chars().take_while(|c| c.is_alphanumeric() || *c == '_').collect();
            if name.ends_with("Schema") { current = Some(name); }
        }
        let lt = l.trim_start();
        if lt.starts_with("//") || lt.starts_with('*') || lt.starts_with("/*") { continue; }
        // `z.infer<typeof XSchema>` is a type-level mention, nothing is evaluated
        if lt.starts_with("export type") || lt.starts_with("export interface") || l.contains("z.infer<typeof") { if l.trim_end().ends_with(';') { current = None; } continue; }
        // identifiers ending in Schema on this line
        let cs: Vec<char> = l.chars().collect();
        let mut i = 0;
        while i < cs.len() {
            if cs[i].is_alphabetic() || cs[i] == '_' {
                let st = i;
                while i < cs.len() && (cs[i].is_alphanumeric() || cs[i] == '_') { i += 1; }
                let id: String = cs[st..i].iter().collect();
                if id.ends_with("Schema") && id.len() > 6 && Some(&id) != current.as_ref() {
                    let lazy = l[..l.char_indices().nth(st).map_or(0, |(b, _)| b)].contains("z.lazy(");
                    n += 1;
                    if all_defined.contains(&id) && !defined.contains(&id) && !lazy { return Err(format!("types.ts:{} `{}` is read before its definition (inside {:?})", ln + 1, id, current)); }
                }
                continue;
            }
            i += 1;
        }
        if l.trim_end().ends_with(';') || l.trim() == "});" { if let Some(c) = current.take() { defined.insert(c); } }
    }
    Ok(format!("{} schema references", n))
}

/// C07 / C02 inside types.ts: a project type that is mentioned is also declared there
fn types_module_is_closed(files: &BTreeMap<String, String>, project_types: &[&str]) -> Result<String, String> {
    let t = files.get("types.ts").ok_or("no types.ts")?;
    let exp = exports_of(t);
    let cs: Vec<char> = t.chars().collect();
    let mut i = 0;
    let mut n = 0;
    while i < cs.len() {
        let c = cs[i];
        if c == '/' && cs.get(i + 1) == Some(&'/') { while i < cs.len() && cs[i] != '\n' { i += 1; } continue; }
        if c == '/' && cs.get(i + 1) == Some(&'*') { i += 2; while i + 1 < cs.len() && !(cs[i] == '*' && cs[i + 1] == '/') { i += 1; } i += 2; continue; }
        if c == '"' || c == '\'' || c == '`' { let q = c; i += 1; while i < cs.len() && cs[i] != q { if cs[i] == '\\' { i += 1; } i += 1; } i += 1; continue; }
        if c.is_alphabetic() || c == '_' || c == '$' {
            let st = i;
            while i < cs.len() && (cs[i].is_alphanumeric() || cs[i] == '_' || cs[i] == '$') { i += 1; }
            let id: String = cs[st..i].iter().collect();
            let base = id.strip_suffix("Schema").unwrap_or(&id);
            if project_types.contains(&base) {
                n += 1;
                if !exp.contains(&id) { return Err(format!("types.ts mentions the project type `{}` but does not declare it", id)); }
            }
            continue;
        }
        i += 1;
    }
    Ok(format!("{} mentions", n))
}

// ---- serde's renaming rules, transcribed from the serde documentation (oracle)
fn words_of_field(f: &str) -> Vec<String> { f.split('_').filter(|w| !w.is_empty()).map(|w| w.to_string()).collect() }
fn cap(w: &str) -> String { let mut c = w.chars(); match c.next() { Some(f) => f.to_uppercase().collect::<String>() + c.as_str(), None => String::new() } }
fn apply_rule(rule: &str, name: &str, variant: bool) -> String {
    // transcribed from serde_derive's case.rs (apply_to_field / apply_to_variant)
    let pascal_field = |f: &str| -> String { let mut out = String::new(); let mut cap = true; for ch in f.chars() { if ch == '_' { cap = true; } else if cap { out.push(ch.to_ascii_uppercase()); cap = false; } else { out.push(ch); } } out };
    let snake_variant = |v: &str| -> String { let mut out = String::new(); for (i, ch) in v.char_indices() { if i > 0 && ch.is_uppercase() { out.push('_'); } out.push(ch.to_ascii_lowercase()); } out };
    if variant {
        match rule {
            "lowercase" => name.to_ascii_lowercase(),
            "UPPERCASE" => name.to_ascii_uppercase(),
            "PascalCase" => name.to_string(),
            "camelCase" => { let mut c = name.chars(); match c.next() { Some(f) => f.to_ascii_lowercase().to_string() + c.as_str(), None => String::new() } }
            "snake_case" => snake_variant(name),
            "SCREAMING_SNAKE_CASE" => snake_variant(name).to_ascii_uppercase(),
            "kebab-case" => snake_variant(name).replace('_', "-"),
            "SCREAMING-KEBAB-CASE" => snake_variant(name).to_ascii_uppercase().replace('_', "-"),
            _ => name.to_string(),
        }
    } else {
        match rule {
            "lowercase" | "snake_case" => name.to_string(),
            "UPPERCASE" | "SCREAMING_SNAKE_CASE" => name.to_ascii_uppercase(),
            "PascalCase" => pascal_field(name),
            "camelCase" => { let p = pascal_field(name); let mut c = p.chars(); match c.next() { Some(f) => f.to_ascii_lowercase().to_string() + c.as_str(), None => String::new() } }
            "kebab-case" => name.replace('_', "-"),
            "SCREAMING-KEBAB-CASE" => name.to_ascii_uppercase().replace('_', "-"),
            _ => name.to_string(),
        }
    }
}

fn main() {
    let mut rep = Report::new();
    let root = std::env::temp_dir().join(format!("verif_surface_{}", std::process::id()));
    let _ = fs::create_dir_all(&root);

    // ============================================================ shape probe: does this harness still understand the generated text?
    // A known-good two-item project is generated and read back with the parsers every check below relies on.  If they fail
    // (the templates were reformatted), nothing below can tell a violation from a parsing problem: failures are then UNDECIDED.
    {
        let src = format!("{}use tauri::Emitter;\n#[derive(Serialize, Deserialize, Clone)]\npub struct Probe {{ pub a: u32, pub b: Option<String> }}\n#[derive(Serialize, Deserialize, Clone)]\npub enum ProbeKind {{ One, Two }}\n\
            #[tauri::command]\npub fn probe(app: tauri::AppHandle, p: Probe) -> ProbeKind {{ app.emit(\"probe-ev\", p).ok(); ProbeKind::One }}\n", HDR);
        let dir = root.join("probe/src");
        write_files(&dir, &[("lib.rs".to_string(), src)]);
        let mut problems: Vec<String> = Vec::new();
        for mode in ["none", "zod"] {
            match generate(&dir, &root.join(format!("probe/out_{}", mode)), mode) {
                Err(e) => problems.push(format!("{}: {}", mode, e)),
                Ok(files) => {
                    let zod = mode == "zod";
                    let t = files.get("types.ts").cloned().unwrap_or_default();
                    let c = files.get("commands.ts").cloned().unwrap_or_default();
                    let e = files.get("events.ts").cloned().unwrap_or_default();
                    if object_keys(&t, "Probe", zod) != Some(vec!["a".to_string(), "b".to_string()]) { problems.push(format!("{}: keys of Probe read as {:?}", mode, object_keys(&t, "Probe", zod))); }
                    if enum_literals(&t, "ProbeKind", zod) != Some(vec!["One".to_string(), "Two".to_string()]) { problems.push(format!("{}: members of ProbeKind read as {:?}", mode, enum_literals(&t, "ProbeKind", zod))); }
                    if object_keys(&t, "ProbeParams", zod) != Some(vec!["p".to_string()]) { problems.push(format!("{}: keys of ProbeParams read as {:?}", mode, object_keys(&t, "ProbeParams", zod))); }
                    if zod && zod_field(&t, "Probe", "b").map_or(true, |v| !v.ends_with(".optional()")) { problems.push(format!("zod: Probe.b read as {:?}", zod_field(&t, "Probe", "b"))); }
                    if !zod && !t.contains("  b?: string | null;") { problems.push("none: optional field line of Probe not found".into()); }
                    if !c.contains("export async function probe(") || !c.lines().any(|l| l.contains("export async function probe(") && l.contains("): Promise<types.ProbeKind>")) { problems.push(format!("{}: wrapper line of `probe` not found", mode)); }
                    if !c.contains("'probe'") { problems.push(format!("{}: invoke('probe' ..) not found", mode)); }
                    if !e.contains("return listen<types.Probe>('probe-ev',") || !e.contains("export async function onProbeEv(") { problems.push(format!("{}: listener of 'probe-ev' not found in the expected form", mode)); }
                    if !exports_of(&t).contains("Probe") { problems.push(format!("{}: exports of types.ts read as {:?}", mode, exports_of(&t))); }
                }
            }
        }
        if !problems.is_empty() {
            rep.downgrade = true;
            let msg = format!("UNPARSED: the shape of the generated files is not the one this harness reads: {}", problems.join("; "));
            rep.case("output_shape_probe", "project=probe", &|| Err(msg.clone()));
        }
    }

    // ============================================================ C04: injected-parameter spellings
    {
        let injected = [
            "app: AppHandle", "app: tauri::AppHandle", "app: AppHandle<R>", "app: tauri::AppHandle<R>", "app: AppHandle<tauri::Wry>",
            "state: State<'_, AppState>", "state: tauri::State<'_, AppState>", "state: State<AppState>",
            "window: tauri::Window", "window: Window<R>", "window: tauri::Window<R>",
            "webview: WebviewWindow", "webview: tauri::WebviewWindow", "webview: WebviewWindow<R>", "webview: tauri::WebviewWindow<R>",
            "request: tauri::ipc::Request<'_>",
        ];
        let mut src = format!("{}use tauri::{{AppHandle, State, Window, WebviewWindow, Runtime, ipc::Channel}};\npub struct AppState;\n", HDR);
        for (i, inj) in injected.iter().enumerate() {
            let generic = if inj.contains("<R>") { "<R: Runtime>" } else { "" };
            src.push_str(&format!("#[tauri::command]\npub fn cmd_{}{}(first_arg: String, {}, second_arg: Option<u32>, on_event: Channel<u32>) -> u32 {{ 0 }}\n", i, generic, inj));
        }
        // parameter-name shapes: digits after underscores, doubled / leading underscores, one-letter words, non-ASCII
        let shapes = ["pos_2d", "size_3d_px", "on_2nd_pass", "line_1_start", "v_2", "_lead", "dou__ble", "x", "http_2_server", "a_b_c", "über_wert", "trailing_", "user_id", "r#type", "r#in_place"];
        src.push_str(&format!("#[tauri::command]\npub fn shapes({}) -> u32 {{ 0 }}\n", shapes.iter().map(|n| format!("{}: u32", n)).collect::<Vec<_>>().join(", ")));
        src.push_str("#[derive(Serialize, Deserialize)]\npub struct Request { pub id: u32 }\n#[derive(Serialize, Deserialize)]\npub struct Channel2 { pub id: u32 }\npub mod dto { use serde::{Serialize, Deserialize}; #[derive(Serialize, Deserialize)] pub struct Window { pub title: String } }\n");
        src.push_str("#[tauri::command]\npub fn user_types_named_like_injected(request: Request, channel: Channel2, pane: crate::dto::Window, other: u32) -> u32 { 0 }\n");
        src.push_str("#[tauri::command(rename_all = \"snake_case\")]\npub fn macro_snake(user_name: String, retry_count: u32, on_event: Channel<u32>, app: tauri::AppHandle) -> u32 { 0 }\n#[tauri::command(async, rename_all = \"camelCase\")]\npub fn macro_camel(user_name: String) -> u32 { 0 }\n#[command(rename_all = \"snake_case\")]\npub fn bare_macro_snake(user_name: String) -> u32 { 0 }\n#[tauri::command(async)]\npub fn macro_plain(user_name: String) -> u32 { 0 }\n");
        src.push_str("#[tauri::command(root = \"crate\", rename_all = \"snake_case\")]\npub fn macro_root_first(file_name: String, on_event: Channel<u32>) -> u32 { 0 }\n#[tauri::command(rename_all = \"snake_case\", root = \"crate\")]\npub fn macro_root_last(file_name: String) -> u32 { 0 }\n");
        src.push_str("#[tauri::command]\npub fn tauri_data(window: tauri::Window, new_size: tauri::LogicalSize<f64>, color_scheme: tauri::Theme, target_url: tauri::Url, origin: tauri::PhysicalPosition<i32>, maybe_theme: Option<tauri::Theme>) -> u32 { 0 }\n");
        // imported Request (written with its lifetime) is injected; a user type Request<T> is data; destructured arguments are
        // keyed by the struct of their pattern (Tauri's command macro)
        src.push_str("#[derive(Serialize, Deserialize)]\npub struct Point2 { pub x: i32, pub y: i32 }\n#[derive(Serialize, Deserialize)]\npub struct Sized2 { pub w: u32, pub h: u32 }\n");
        src.push_str("pub mod ipc_cmds {\n    use tauri::ipc::Request;\n    use super::{Point2, Sized2};\n    #[tauri::command]\n    pub fn raw_request(request: Request<'_>, note_text: String) -> u32 { 0 }\n    #[tauri::command]\n    pub fn raw_request_named<'a>(req: Request<'a>, webview_label: String) -> u32 { 0 }\n    #[tauri::command]\n    pub fn destructured(Point2 { x, y }: Point2, crate::Sized2 { w, .. }: Sized2, plain_one: u32) -> u32 { 0 }\n}\n");
        src.push_str("pub mod wrapped {\n    use serde::{Serialize, Deserialize};\n    #[derive(Serialize, Deserialize)]\n    pub struct Request<T> { pub body: T }\n    #[derive(Serialize, Deserialize)]\n    pub struct NewUser { pub name: String }\n}\n#[tauri::command]\npub fn wrapped_request(request: wrapped::Request<u32>, dry_run: bool) -> u32 { 0 }\n");
        src.push_str("#[derive(Serialize, Deserialize, Clone)]\npub struct Chunk { pub n: u32 }\npub mod bot { #[poise::command(slash_command)]\n    pub fn download() {} }\n#[tauri::command]\npub fn download(url: String, on_chunk: Channel<Chunk>) -> u32 { 0 }\n");
        src.push_str("#[derive(Serialize, Deserialize)]\npub struct UserPoint { pub x: i32 }\n#[tauri::command(rename_all = \"snake_case\")]\npub fn snake_destructured(UserPoint { x }: UserPoint, plain_one: u32) -> u32 { 0 }\n#[tauri::command]\npub fn camel_destructured(UserPoint { x }: UserPoint, plain_one: u32) -> u32 { 0 }\n");
        src.push_str("#[tauri::command]\npub fn track(Point2 { x, y }: Point2, on_event: Channel<u32>) -> u32 { 0 }\n#[tauri::command]\npub fn watch_all(_: tauri::AppHandle, on_tick: Channel<u32>, limit: u32) -> u32 { 0 }\n");
        src.push_str("#[tauri::command]\npub fn parens(app: (tauri::AppHandle), label: (Option<String>), ch: (Channel<String>), n: (u32)) -> u32 { 0 }\n");
        src.push_str("#[tauri::command]\npub fn ipc_bare(id: u32, ch: ipc::Channel, win: tauri::window::Window, view: tauri::webview::WebviewWindow) -> u32 { 0 }\n#[tauri::command(rename_all = r\"snake_case\")]\npub fn raw_rule_cmd(user_id: u32, on_event: Channel<u32>) -> u32 { 0 }\n");
        src.push_str("#[tauri::command]\npub fn channel_spellings(id: u32, on_a: tauri::ipc::Channel<u32>, on_b: tauri::ipc::Channel, on_c: ipc::Channel<String>) -> u32 { 0 }\n");
        src.push_str("#[tauri::command]\npub fn opt_paths(plain: Option<u32>, std_path: std::option::Option<u32>, core_path: core::option::Option<String>, abs_path: ::std::option::Option<bool>, required: u32) -> u32 { 0 }\n");
        src.push_str("#[tauri::command]\npub fn r#move(first_arg: String, r#type: u32, on_event: Channel<u32>) -> u32 { 0 }\n");
        let dir = root.join("inject/src");
        write_files(&dir, &[("lib.rs".to_string(), src)]);
        for (i, inj) in injected.iter().enumerate() {
            rep.case("invoke_keys_exclude_injected_parameters", &format!("fn cmd_{}(first_arg: String, {}, second_arg: Option<u32>, on_event: Channel<u32>)", i, inj), &|| {
                let mut an = CommandAnalyzer::new();
                let cmds = an.analyze_project(dir.to_str().unwrap()).map_err(|e| e.to_string())?;
                let c = cmds.iter().find(|c| c.name == format!("cmd_{}", i)).ok_or("command not discovered")?;
                let ps: Vec<&str> = c.parameters.iter().map(|p| p.name.as_str()).collect();
                let chs: Vec<&str> = c.channels.iter().map(|p| p.parameter_name.as_str()).collect();
                if ps != ["first_arg", "second_arg"] { return Err(format!("frontend parameters are {:?}, expected [first_arg, second_arg] (Tauri injects `{}`)", ps, inj)); }
                if chs != ["on_event"] { return Err(format!("channels are {:?}, expected [on_event]", chs)); }
                let opt: Vec<bool> = c.parameters.iter().map(|p| p.is_optional).collect();
                if opt != [false, true] { return Err(format!("optional flags {:?}, expected [false, true]", opt)); }
                Ok(format!("{:?}", ps))
            });
        }
        for mode in ["none", "zod"] {
            rep.case("invoke_keys_in_generated_bindings", &format!("project=inject mode={}", mode), &|| {
                let files = generate(&dir, &root.join(format!("inject/out_{}", mode)), mode)?;
                let t = files.get("types.ts").ok_or("no types.ts")?;
                for i in 0..injected.len() {
                    let name = format!("Cmd{}Params", i);
                    let keys = object_keys(t, &name, mode == "zod").ok_or(format!("{} not declared in types.ts ({})", name, mode))?;
                    let mut want = vec!["firstArg".to_string(), "secondArg".to_string()];
                    let mut got: Vec<String> = keys.into_iter().filter(|k| k != "onEvent").collect();
                    got.sort(); want.sort();
                    if got != want { return Err(format!("{}: keys {:?}, expected {:?} (+ channel) for `{}`", name, got, want, injected[i])); }
                }
                Ok("ok".into())
            });
            rep.case("invoke_keys_in_generated_bindings", &format!("fn r#move(first_arg: String, r#type: u32, on_event: Channel<u32>) mode={}", mode), &|| {
                let files = generate(&dir, &root.join(format!("inject/out_{}", mode)), mode)?;
                let t = files.get("types.ts").ok_or("no types.ts")?;
                let mut keys = object_keys(t, "MoveParams", mode == "zod").ok_or(format!("MoveParams (command r#move) not declared in types.ts ({})", mode))?;
                if mode == "zod" {
                    // the channel key lives in the interface that extends the inferred type
                    let head = "export interface MoveParams extends";
                    let st = t.find(head).ok_or("no `export interface MoveParams extends ..` carrying the channel")?;
                    let blk = &t[st..st + t[st..].find("\n}").unwrap_or(t.len() - st)];
                    if blk.contains("onEvent") { keys.push("onEvent".to_string()); }
                }
                keys.sort();
                if keys != ["firstArg", "onEvent", "type"] { return Err(format!("keys {:?}, expected [firstArg, onEvent, type]", keys)); }
                Ok(format!("{:?}", keys))
            });
            rep.case("generated_files_are_lexically_wellformed", &format!("project=inject mode={}", mode), &|| lexical_wellformed(&generate(&dir, &root.join(format!("inject/out_{}", mode)), mode)?));
            rep.case("declared_function_names_are_legal", &format!("project=inject mode={}", mode), &|| declared_names_legal(&generate(&dir, &root.join(format!("inject/out_{}", mode)), mode)?));
            rep.case("invoke_keys_in_generated_bindings", &format!("fn user_types_named_like_injected(request: Request, channel: Channel2, pane: crate::dto::Window, other: u32) mode={}", mode), &|| {
                let files = generate(&dir, &root.join(format!("inject/out_{}", mode)), mode)?;
                let t = files.get("types.ts").ok_or("no types.ts")?;
                let mut keys = object_keys(t, "UserTypesNamedLikeInjectedParams", mode == "zod").ok_or("UNPARSED: UserTypesNamedLikeInjectedParams not found")?;
                keys.sort();
                if keys != ["channel", "other", "pane", "request"] { return Err(format!("keys {:?}, expected [channel, other, pane, request]: `Request`, `Channel2` and `dto::Window` are user-defined serde structs, not framework types", keys)); }
                Ok(format!("{:?}", keys))
            });
            for (obj, sig, want) in [
                ("DownloadParams", "fn download(url: String, on_chunk: Channel<Chunk>) next to mod bot { #[poise::command] fn download() }", vec!["onChunk", "url"]),
                ("SnakeDestructuredParams", "#[tauri::command(rename_all = \"snake_case\")] fn snake_destructured(UserPoint { x }: UserPoint, plain_one: u32)", vec!["plain_one", "user_point"]),
                ("CamelDestructuredParams", "fn camel_destructured(UserPoint { x }: UserPoint, plain_one: u32)", vec!["plainOne", "userPoint"]),
                ("TrackParams", "fn track(Point2 { x, y }: Point2, on_event: Channel<u32>)", vec!["onEvent", "point2"]),
                ("WatchAllParams", "fn watch_all(_: tauri::AppHandle, on_tick: Channel<u32>, limit: u32)", vec!["limit", "onTick"]),
                ("ParensParams", "fn parens(app: (tauri::AppHandle), label: (Option<String>), ch: (Channel<String>), n: (u32))", vec!["ch", "label", "n"]),
                ("IpcBareParams", "fn ipc_bare(id: u32, ch: ipc::Channel, win: tauri::window::Window, view: tauri::webview::WebviewWindow)", vec!["ch", "id"]),
                ("RawRuleCmdParams", "#[tauri::command(rename_all = r\"snake_case\")] fn raw_rule_cmd(user_id: u32, on_event: Channel<u32>)", vec!["on_event", "user_id"]),
            ] {
                rep.case("invoke_keys_in_generated_bindings", &format!("{} mode={}", sig, mode), &|| {
                    let files = generate(&dir, &root.join(format!("inject/out_{}", mode)), mode)?;
                    let t = files.get("types.ts").ok_or("no types.ts")?;
                    // the keys of the validated part and of the interface that adds the channel objects, each once
                    let block: String = t.split("\n\n").filter(|b| b.contains(obj)).collect::<Vec<_>>().join("\n");
                    if block.is_empty() { return Err(format!("UNPARSED: no declaration of {}", obj)); }
                    let mut keys: Vec<String> = Vec::new();
                    for l in block.lines() {
                        let l = l.trim();
                        if l.starts_with("export") || l.starts_with('}') || l.starts_with('[') || l.starts_with("//") { continue; }
                        for part in l.split(',') { if let Some((k, _)) = part.split_once(':') { let k = k.trim().trim_end_matches('?'); if !k.is_empty() && k.chars().all(|c| c.is_alphanumeric() || c == '_') { keys.push(k.to_string()); } } }
                    }
                    keys.sort();
                    let mut uniq = keys.clone(); uniq.dedup();
                    if mode == "none" && uniq.len() != keys.len() { return Err(format!("a key is declared twice: {:?}", keys)); }
                    if uniq != want { return Err(format!("keys {:?}; Tauri's command macro reads {:?}", uniq, want)); }
                    Ok(format!("{:?}", uniq))
                });
            }
            for (obj, sig, want) in [
                ("RawRequestParams", "fn raw_request(request: Request<'_>, note_text: String) after use tauri::ipc::Request", vec!["noteText"]),
                ("RawRequestNamedParams", "fn raw_request_named<'a>(req: Request<'a>, webview_label: String)", vec!["webviewLabel"]),
                ("DestructuredParams", "fn destructured(Point2 { x, y }: Point2, crate::Sized2 { w, .. }: Sized2, plain_one: u32)", vec!["plainOne", "point2", "sized2"]),
                ("WrappedRequestParams", "fn wrapped_request(request: wrapped::Request<u32>, dry_run: bool) with a user struct Request<T>", vec!["dryRun", "request"]),
            ] {
                rep.case("invoke_keys_in_generated_bindings", &format!("{} mode={}", sig, mode), &|| {
                    let files = generate(&dir, &root.join(format!("inject/out_{}", mode)), mode)?;
                    let t = files.get("types.ts").ok_or("no types.ts")?;
                    let mut keys = object_keys(t, obj, mode == "zod").ok_or(format!("UNPARSED: {} not found", obj))?;
                    keys.sort();
                    if keys != want { return Err(format!("keys {:?}; Tauri's command macro reads {:?}", keys, want)); }
                    Ok(format!("{:?}", keys))
                });
            }
            rep.case("invoke_keys_in_generated_bindings", &format!("fn channel_spellings(id: u32, on_a: tauri::ipc::Channel<u32>, on_b: tauri::ipc::Channel, on_c: ipc::Channel<String>) mode={}", mode), &|| {
                let files = generate(&dir, &root.join(format!("inject/out_{}", mode)), mode)?;
                let t = files.get("types.ts").ok_or("no types.ts")?;
                // in zod mode the channel keys live in the interface that extends the validated part
                let block: String = t.split("\n\n").filter(|b| b.contains("ChannelSpellingsParams")).collect::<Vec<_>>().join("\n");
                if block.is_empty() { return Err("UNPARSED: no declaration of ChannelSpellingsParams".into()); }
                for k in ["onA", "onB", "onC"] { if !block.contains(&format!("{}:", k)) && !block.contains(&format!("{}?:", k)) { return Err(format!("the argument object of channel_spellings has no key `{}`: every Channel parameter is filled from the frontend", k)); } }
                Ok("ok".into())
            });
            rep.case("invoke_keys_in_generated_bindings", &format!("fn tauri_data(window: tauri::Window, new_size: tauri::LogicalSize<f64>, color_scheme: tauri::Theme, target_url: tauri::Url, origin: tauri::PhysicalPosition<i32>, maybe_theme: Option<tauri::Theme>) mode={}", mode), &|| {
                let files = generate(&dir, &root.join(format!("inject/out_{}", mode)), mode)?;
                let t = files.get("types.ts").ok_or("no types.ts")?;
                let mut keys = object_keys(t, "TauriDataParams", mode == "zod").ok_or("UNPARSED: TauriDataParams not found")?;
                keys.sort();
                if keys != ["colorScheme", "maybeTheme", "newSize", "origin", "targetUrl"] { return Err(format!("keys {:?}, expected [colorScheme, maybeTheme, newSize, origin, targetUrl]: tauri::Theme, tauri::Url, tauri::LogicalSize and tauri::PhysicalPosition are data the frontend sends, only tauri::Window is injected", keys)); }
                Ok(format!("{:?}", keys))
            });
            rep.case("omittable_keys_are_the_option_parameters", &format!("fn opt_paths(plain: Option<u32>, std_path: std::option::Option<u32>, core_path: core::option::Option<String>, abs_path: ::std::option::Option<bool>, required: u32) mode={}", mode), &|| {
                let files = generate(&dir, &root.join(format!("inject/out_{}", mode)), mode)?;
                let t = files.get("types.ts").ok_or("no types.ts")?;
                let want = [("plain", true), ("stdPath", true), ("corePath", true), ("absPath", true), ("required", false)];
                for (k, opt) in want {
                    let got = if mode == "zod" {
                        let sch = zod_field(t, "OptPathsParams", k).ok_or(format!("OptPathsParamsSchema has no key {}", k))?;
                        sch.ends_with(".optional()") || sch.ends_with(".nullish()")
                    } else {
                        let head = "export interface OptPathsParams {";
                        let st = t.find(head).ok_or("OptPathsParams is not declared")? + head.len();
                        let mut found = None;
                        for l in t[st..].lines() { let l = l.trim(); if l.starts_with('}') { break; } if l.starts_with(&format!("{}?:", k)) { found = Some(true); } else if l.starts_with(&format!("{}:", k)) { found = Some(false); } }
                        found.ok_or(format!("OptPathsParams has no key {}", k))?
                    };
                    if got != opt { return Err(format!("key {} may be omitted: {} — the Rust parameter is {}an Option", k, got, if opt { "" } else { "not " })); }
                }
                Ok("ok".into())
            });
            rep.case("configured_parameter_case_applies_to_every_key", &format!("default_parameter_case=snake_case mode={}", mode), &|| {
                let out = root.join(format!("inject/out_snake_{}", mode));
                let _ = fs::remove_dir_all(&out);
                let mut cfg = GenerateConfig::default();
                cfg.project_path = dir.to_string_lossy().to_string();
                cfg.output_path = out.to_string_lossy().to_string();
                cfg.validation_library = mode.to_string();
                cfg.default_parameter_case = "snake_case".to_string();
                generate_from_config(&cfg).map_err(|e| format!("generate_from_config returned Err: {}", e))?;
                let t = fs::read_to_string(out.join("types.ts")).map_err(|e| e.to_string())?;
                let c = fs::read_to_string(out.join("commands.ts")).map_err(|e| e.to_string())?;
                let mut keys = object_keys(&t, "Cmd0Params", mode == "zod").ok_or("UNPARSED: Cmd0Params not found")?;
                if mode == "zod" { let head = "export interface Cmd0Params extends"; if let Some(st) = t.find(head) { let blk = &t[st..st + t[st..].find("\n}").unwrap_or(t.len() - st)]; for k in ["on_event", "onEvent"] { if blk.contains(k) { keys.push(k.to_string()); } } } }
                keys.sort();
                if keys != ["first_arg", "on_event", "second_arg"] { return Err(format!("with default_parameter_case = snake_case the keys of cmd_0 are {:?}, expected [first_arg, on_event, second_arg]", keys)); }
                if mode == "zod" && c.contains("'onEvent'") && !c.contains("macroCamel") { return Err("commands.ts re-attaches the channel under `onEvent` although the configured case is snake_case".into()); }
                // a command that spells out its own convention keeps it whatever the configured default is
                let own = object_keys(&t, "MacroCamelParams", mode == "zod").ok_or("UNPARSED: MacroCamelParams not found")?;
                if own != ["userName"] { return Err(format!("#[tauri::command(async, rename_all = \"camelCase\")] fn macro_camel(user_name) has the keys {:?} under default_parameter_case = snake_case; Tauri reads `userName`", own)); }
                let own = object_keys(&t, "MacroSnakeParams", mode == "zod").ok_or("UNPARSED: MacroSnakeParams not found")?;
                if !own.contains(&"user_name".to_string()) { return Err(format!("#[tauri::command(rename_all = \"snake_case\")] fn macro_snake has the keys {:?}", own)); }
                Ok(format!("{:?}", keys))
            });
            for (obj, attr, want) in [("MacroSnakeParams", "#[tauri::command(rename_all = \"snake_case\")]", vec!["on_event", "retry_count", "user_name"]), ("MacroCamelParams", "#[tauri::command(async, rename_all = \"camelCase\")]", vec!["userName"]),
                                      ("MacroRootFirstParams", "#[tauri::command(root = \"crate\", rename_all = \"snake_case\")]", vec!["file_name", "on_event"]), ("MacroRootLastParams", "#[tauri::command(rename_all = \"snake_case\", root = \"crate\")]", vec!["file_name"]),
                                      ("BareMacroSnakeParams", "#[command(rename_all = \"snake_case\")]", vec!["user_name"]), ("MacroPlainParams", "#[tauri::command(async)]", vec!["userName"])] {
                rep.case("invoke_keys_follow_the_command_macro_case", &format!("{} {} mode={}", attr, obj, mode), &|| {
                    let files = generate(&dir, &root.join(format!("inject/out_{}", mode)), mode)?;
                    let t = files.get("types.ts").ok_or("no types.ts")?;
                    let mut keys = object_keys(t, obj, mode == "zod").ok_or(format!("UNPARSED: {} not found", obj))?;
                    if mode == "zod" { let head = format!("export interface {} extends", obj); if let Some(st) = t.find(&head) { let blk = &t[st..st + t[st..].find("\n}").unwrap_or(t.len() - st)]; for k in ["on_event", "onEvent"] { if blk.contains(k) { keys.push(k.to_string()); } } } }
                    keys.sort();
                    if keys != want { return Err(format!("keys {:?}; with {} Tauri reads the arguments as {:?}", keys, attr, want)); }
                    Ok(format!("{:?}", keys))
                });
            }
            rep.case("invoke_keys_follow_tauri_camel_case", &format!("fn shapes({}) mode={}", shapes.join(", "), mode), &|| {
                let files = generate(&dir, &root.join(format!("inject/out_{}", mode)), mode)?;
                let t = files.get("types.ts").ok_or("no types.ts")?;
                let got = object_keys(t, "ShapesParams", mode == "zod").ok_or(format!("ShapesParams not declared in types.ts ({})", mode))?;
                let want: Vec<String> = shapes.iter().map(|n| lower_camel(n)).collect();
                if got != want { return Err(format!("keys {:?}, Tauri's command macro expects {:?}", got, want)); }
                let c = files.get("commands.ts").ok_or("no commands.ts")?;
                if !c.contains("'shapes'") && !c.contains("\"shapes\"") { return Err("commands.ts does not invoke 'shapes'".into()); }
                Ok(format!("{:?}", got))
            });
        }
    }

    // ============================================================ C06 / C07 / C02: derive spellings and serde attributes
    {
        // (field declaration incl. attributes, expected wire key or None when skipped)
        let fields: Vec<(&str, &str, Option<&str>)> = vec![
            ("plain_field", "", Some("plain_field")),
            ("renamed", "#[serde(rename = \"wire-name\")]", Some("wire-name")),
            ("skipped", "#[serde(skip)]", None),
            ("skip_then_default", "#[serde(skip, default)]", None),
            ("default_then_skip", "#[serde(default, skip)]", None),
            ("default_fn_then_skip", "#[serde(default = \"make\", skip)]", None),
            ("rename_then_skip", "#[serde(rename = \"tok\", skip)]", None),
            ("skip_in_second_attr", "#[serde(default)]\n    #[serde(skip)]", None),
            ("ser_if", "#[serde(skip_serializing_if = \"Option::is_none\")]", Some("ser_if")),
            ("with_default", "#[serde(default)]", Some("with_default")),
            ("rename_mentions_skip", "#[serde(rename = \"skip_count\")]", Some("skip_count")),
            ("alias_mentions_rename", "#[serde(alias = \"rename_all\")]", Some("alias_mentions_rename")),
            ("rename_and_default", "#[serde(default, rename = \"rd\")]", Some("rd")),
            ("rename_then_default_attr", "#[serde(rename = \"uid\")]\n    #[serde(default)]", Some("uid")),
            ("rename_then_alias_attr", "#[serde(rename = \"nick\")]\n    #[serde(alias = \"nickname\")]", Some("nick")),
            ("default_attr_then_rename", "#[serde(default)]\n    #[serde(rename = \"late\")]", Some("late")),
            ("rename_then_doc_and_allow", "#[serde(rename = \"documented\")]\n    /// a doc comment\n    #[allow(dead_code)]", Some("documented")),
            ("rename_upper", "#[serde(rename = \"HTTPCode\")]", Some("HTTPCode")),
            ("r#type", "", Some("type")),
            ("same_name", "#[serde(rename = \"same_name\")]", Some("same_name")),
            ("user_ID", "#[allow(non_snake_case)]", Some("user_ID")),
            ("base_URL", "#[allow(non_snake_case)]", Some("base_URL")),
            ("ID", "#[allow(non_snake_case)]", Some("ID")),
            ("mixedCase_field", "#[allow(non_snake_case)]", Some("mixedCase_field")),
            ("marker", "", Some("marker")),
            ("unit_field", "", Some("unit_field")),
            ("ser_de", "#[serde(rename(serialize = \"accountId\", deserialize = \"account_id\"))]", Some("accountId")),
            ("ser_only", "#[serde(rename(serialize = \"ser-only\"))]", Some("ser-only")),
            ("de_first", "#[serde(rename(deserialize = \"in_name\", serialize = \"outName\"))]", Some("outName")),
            ("de_only", "#[serde(rename(deserialize = \"only_in\"))]", Some("de_only")),
            ("with_rename_word", "#[serde(skip_serializing_if = \"is_rename\", alias = \"y\")]", Some("with_rename_word")),
            ("with_de_rename", "#[serde(deserialize_with = \"de_rename\", default)]", Some("with_de_rename")),
            ("rename_digit", "#[serde(rename = \"2fa\")]", Some("2fa")),
            ("rename_space", "#[serde(rename = \"display name\")]", Some("display name")),
            ("default", "", Some("default")), ("package", "", Some("package")), ("class", "", Some("class")), ("new", "", Some("new")), ("delete", "", Some("delete")), ("interface", "", Some("interface")),
            ("_id", "", Some("_id")), ("_rev_no", "", Some("_rev_no")), ("__v", "", Some("__v")),
            ("type_", "", Some("type_")),
            ("match_", "", Some("match_")),
            ("ref__", "", Some("ref__")),
            // serde's rename rules change ASCII letters only
            ("gr\u{f6}\u{df}e", "", Some("gr\u{f6}\u{df}e")), ("ma\u{df}_zahl", "", Some("ma\u{df}_zahl")), ("\u{e9}clair_count", "", Some("\u{e9}clair_count")),
            ("empty_rename", "#[serde(rename = \"\")]", Some("")),
            ("line_break_rename", "#[serde(rename = \"line\\nbreak\\r!\")]", Some("line\nbreak\r!")),
            ("split_rename", "#[serde(rename(deserialize = \"in_name\"), rename(serialize = \"outName2\"))]", Some("outName2")),
            ("unicode_escape", "#[serde(rename = \"caf\\u{e9}\")]", Some("caf\u{e9}")),
            ("raw_rename", "#[serde(rename = r#\"say \"hi\"\"#)]", Some("say \"hi\"")),
            ("quote_then_skip_word", "#[serde(rename = \"a\\\"skip\")]", Some("a\"skip")),
            ("raw_with_words", "#[serde(rename = r#\"x\", skip, rename = \"y\"#)]", Some("x\", skip, rename = \"y")),
        ];
        let conventions = ["", "lowercase", "UPPERCASE", "PascalCase", "camelCase", "snake_case", "SCREAMING_SNAKE_CASE", "kebab-case", "SCREAMING-KEBAB-CASE"];
        let derives = ["#[derive(Serialize, Deserialize)]", "#[derive(Debug, Clone, serde::Serialize, serde::Deserialize)]", "#[derive(serde::Serialize)]\n#[derive(Debug)]", "#[derive(Deserialize, Clone)]"];
        // (a variant that starts with a non-ASCII letter is no input: serde_derive slices `variant[..1]` for camelCase and does not compile it)
        let variants = ["FastPath", "Slow", "HTTPServer", "X86_64", "A", "Stra\u{df}eNord"];
        let mut src = format!("{}fn make() -> u32 {{ 0 }}\n", HDR);
        let mut structs: Vec<(String, Vec<(String, bool)>)> = Vec::new();  // name -> expected keys (key, quoted?)
        let mut enums: Vec<(String, Vec<String>)> = Vec::new();
        let mut cmd_params = Vec::new();
        for (ci, conv) in conventions.iter().enumerate() {
            let sname = format!("Rec{}", ci);
            let ra = if conv.is_empty() { String::new() } else { format!("#[serde(rename_all = \"{}\")]\n", conv) };
            let mut body = String::new();
            let mut keys = Vec::new();
            for (fname, attr, want) in &fields {
                if !attr.is_empty() { body.push_str(&format!("    {}\n", attr)); }
                let ty = if *fname == "ser_if" || *fname == "with_rename_word" { "Option<u32>" } else if *fname == "marker" { "std::marker::PhantomData<u32>" } else if *fname == "unit_field" { "()" } else { "u32" };
                body.push_str(&format!("    pub {}: {},\n", fname, ty));
                if let Some(w) = want {
                    let explicit = attr.contains("rename = ") || (attr.contains("rename(") && attr.replace("deserialize", "").contains("serialize"));
                    let key = if explicit || conv.is_empty() { w.to_string() } else { apply_rule(conv, fname.strip_prefix("r#").unwrap_or(fname), false) };
                    keys.push((key, false));
                }
            }
            src.push_str(&format!("{}\n{}pub struct {} {{\n{}}}\n", derives[ci % derives.len()], ra, sname, body));
            structs.push((sname.clone(), keys));
            let ename = format!("Kind{}", ci);
            let mut lits = Vec::new();
            let mut ebody = String::new();
            for v in variants { ebody.push_str(&format!("    {},\n", v)); lits.push(if conv.is_empty() { v.to_string() } else { apply_rule(conv, v, true) }); }
            ebody.push_str("    #[serde(rename = \"explicit\")]\n    Renamed,\n");
            lits.push("explicit".to_string());
            ebody.push_str("    #[serde(rename(serialize = \"on-hold\", deserialize = \"onhold\"))]\n    OnHold,\n");
            lits.push("on-hold".to_string());
            ebody.push_str("    #[serde(rename = \"\\\\\")]\n    Backslash,\n");
            lits.push("\\".to_string());
            // every spelling of a string literal names the text the compiler reads
            ebody.push_str("    #[serde(rename = \"\\\"\")]\n    Quote,\n");
            lits.push("\"".to_string());
            ebody.push_str("    #[serde(rename = \"caf\\u{e9}\")]\n    Cafe,\n");
            lits.push("caf\u{e9}".to_string());
            ebody.push_str("    #[serde(rename = r#\"say \"hi\"\"#)]\n    RawQuoted,\n");
            lits.push("say \"hi\"".to_string());
            ebody.push_str("    #[serde(rename = r\"a\\b\")]\n    RawBackslash,\n");
            lits.push("a\\b".to_string());
            ebody.push_str("    #[serde(rename = \"\\x41\\t1\")]\n    Hex,\n");
            lits.push("A\t1".to_string());
            ebody.push_str("    #[serde(rename = \"SameName\")]\n    SameName,\n");
            lits.push("SameName".to_string());
            ebody.push_str("    #[serde(rename = \"HTTP\")]\n    Proto,\n");
            lits.push("HTTP".to_string());
            ebody.push_str("    #[serde(rename = \"on\")]\n    #[serde(alias = \"enabled\")]\n    Active,\n");
            lits.push("on".to_string());
            src.push_str(&format!("#[allow(non_camel_case_types)]\n{}\n{}pub enum {} {{\n{}}}\n", derives[(ci + 1) % derives.len()], ra, ename, ebody));
            enums.push((ename.clone(), lits));
            cmd_params.push(format!("r{}: {}, k{}: {}", ci, sname, ci, ename));
        }
        // other container attributes whose names merely start like rename_all
        src.push_str("#[derive(Serialize, Deserialize)]\n#[serde(rename_all_fields = \"camelCase\")]\npub enum FieldsOnly { FastPath, SlowPath }\n");
        enums.push(("FieldsOnly".to_string(), vec!["FastPath".to_string(), "SlowPath".to_string()]));
        src.push_str("#[derive(Serialize, Deserialize)]\n#[command(rename_all = \"kebab-case\")]\n#[clap(rename_all = \"SCREAMING_SNAKE_CASE\")]\npub struct CliArgs { pub log_level: u32, pub data_dir: String }\n");
        structs.push(("CliArgs".to_string(), vec![("log_level".to_string(), false), ("data_dir".to_string(), false)]));
        src.push_str("#[derive(Serialize, Deserialize)]\n#[serde(rename_all = \"camelCase\")]\n#[command(rename_all = \"snake_case\")]\npub struct CliArgs2 { pub window_title: String }\n");
        structs.push(("CliArgs2".to_string(), vec![("windowTitle".to_string(), false)]));
        src.push_str("#[derive(Serialize, Deserialize)]\n#[command(rename_all = \"kebab-case\")]\npub enum CliSub { FastScan, DeepScan }\n");
        enums.push(("CliSub".to_string(), vec!["FastScan".to_string(), "DeepScan".to_string()]));
        cmd_params.push("ca: CliArgs, ca2: CliArgs2, cs: CliSub".to_string());
        src.push_str("#[derive(Serialize, Deserialize)]\n#[serde(deny_unknown_fields, bound = \"\", rename_all_fields = \"SCREAMING_SNAKE_CASE\", rename_all = \"kebab-case\")]\npub enum Both { FastPath, SlowPath }\n");
        enums.push(("Both".to_string(), vec!["fast-path".to_string(), "slow-path".to_string()]));
        cmd_params.push("fo: FieldsOnly, bo: Both".to_string());
        src.push_str("#[derive(Serialize, Deserialize)]\n#[serde(tag = \"rename_all\", rename = \"UPPERCASE\")]\npub struct TagMentions { pub user_name: String, pub is_admin: bool }\n");
        structs.push(("TagMentions".to_string(), vec![("user_name".to_string(), false), ("is_admin".to_string(), false)]));
        src.push_str("#[derive(Serialize, Deserialize)]\n#[serde(rename_all(deserialize = \"camelCase\"))]\npub struct DeOnly { pub user_name: String }\n");
        structs.push(("DeOnly".to_string(), vec![("user_name".to_string(), false)]));
        src.push_str("#[derive(Serialize, Deserialize)]\n#[serde(rename_all(deserialize = \"SCREAMING_SNAKE_CASE\", serialize = \"camelCase\"))]\npub struct SerDe {{ pub user_name: String }}\n".replace("{{", "{").replace("}}", "}").as_str());
        structs.push(("SerDe".to_string(), vec![("userName".to_string(), false)]));
        src.push_str("#[derive(Serialize, Deserialize)]\n#[serde(expecting = \"a rename_all = thing\", rename = \"snake_case\")]\npub enum Expecting { FirstOne, SecondOne }\n");
        enums.push(("Expecting".to_string(), vec!["FirstOne".to_string(), "SecondOne".to_string()]));
        src.push_str("#[derive(Serialize, Deserialize)]\npub enum WithSkipped { Shown, #[serde(skip)] Hidden, #[serde(skip, rename = \"x\")] HiddenToo, AlsoShown }\n");
        enums.push(("WithSkipped".to_string(), vec!["Shown".to_string(), "AlsoShown".to_string()]));
        cmd_params.push("tm: TagMentions, deo: DeOnly, sd: SerDe, ex: Expecting, ws: WithSkipped".to_string());
        // rename_all written as a raw string, or split over two items; Self in field types
        src.push_str("#[derive(Serialize, Deserialize)]\n#[serde(rename_all = r\"camelCase\")]\npub struct RawRule { pub first_field: u32 }\n#[derive(Serialize, Deserialize)]\n#[serde(rename_all(deserialize = \"snake_case\"), rename_all(serialize = \"camelCase\"))]\npub struct SplitRule { pub first_field: u32 }\n#[derive(Serialize, Deserialize)]\n#[serde(rename_all = r#\"kebab-case\"#)]\npub enum RawRuleKind { FastMode, SlowMode }\n");
        structs.push(("RawRule".to_string(), vec![("firstField".to_string(), false)]));
        structs.push(("SplitRule".to_string(), vec![("firstField".to_string(), false)]));
        enums.push(("RawRuleKind".to_string(), vec!["fast-mode".to_string(), "slow-mode".to_string()]));
        src.push_str("#[derive(Serialize, Deserialize)]\npub struct SelfRef { pub children: Vec<Self>, pub by_name: HashMap<String, Self>, pub self_name: String }\n");
        structs.push(("SelfRef".to_string(), vec![("children".to_string(), false), ("by_name".to_string(), false), ("self_name".to_string(), false)]));
        src.push_str("#[derive(Serialize, Deserialize)]\n#[serde(rename_all = \"camelCase\")]\npub struct Account2 { #[serde(rename = \"user_id\")] pub legacy_id: u32, pub user_id: String, pub display_name: String }\n");
        structs.push(("Account2".to_string(), vec![("user_id".to_string(), false), ("userId".to_string(), false), ("displayName".to_string(), false)]));
        let long_name = "a-sentence-long-wire-name-".repeat(5);
        src.push_str(&format!("#[derive(Serialize, Deserialize)]\npub enum WideNames {{ #[serde(rename = \"{}\")] Wide, Narrow, \u{9577}\u{3044}\u{8b58}\u{5225}\u{5b50}\u{306e}\u{5217}\u{6319}\u{5024}\u{3068}\u{3057}\u{3066}\u{306e}\u{540d}\u{524d}\u{304c}\u{3068}\u{3066}\u{3082}\u{9577}\u{3044}\u{5834}\u{5408}\u{306e}\u{4f8b}\u{3068}\u{3057}\u{3066}\u{4f7f}\u{3046}\u{540d}\u{524d}\u{3067}\u{3059} }}\n", long_name));
        enums.push(("WideNames".to_string(), vec![long_name.clone(), "Narrow".to_string(), "\u{9577}\u{3044}\u{8b58}\u{5225}\u{5b50}\u{306e}\u{5217}\u{6319}\u{5024}\u{3068}\u{3057}\u{3066}\u{306e}\u{540d}\u{524d}\u{304c}\u{3068}\u{3066}\u{3082}\u{9577}\u{3044}\u{5834}\u{5408}\u{306e}\u{4f8b}\u{3068}\u{3057}\u{3066}\u{4f7f}\u{3046}\u{540d}\u{524d}\u{3067}\u{3059}".to_string()]));
        cmd_params.push("acc2: Account2, wide: WideNames".to_string());
        src.push_str("#[derive(Serialize)]\npub struct BorrowedOpt<'a> { pub note: &'a Option<String>, pub plain: Option<u32>, pub wrapped: (Option<bool>) }\n");
        structs.push(("BorrowedOpt".to_string(), vec![("note".to_string(), false), ("plain".to_string(), false), ("wrapped".to_string(), false)]));
        src.push_str("#[derive(Serialize, Deserialize)]\npub struct CfgAlt {\n    #[cfg(unix)]\n    pub mode: u32,\n    #[cfg(not(unix))]\n    pub mode: String,\n    pub other: u32,\n}\n");
        structs.push(("CfgAlt".to_string(), vec![("mode".to_string(), false), ("other".to_string(), false)]));
        cmd_params.push("rr: RawRule, sr: SplitRule, rrk: RawRuleKind, selfref: SelfRef, cfgalt: CfgAlt".to_string());
        // (a Serialize-only struct with a lifetime is reached through an event, not a parameter)
        src.push_str("pub fn borrowed(app: &tauri::AppHandle, b: BorrowedOpt<'_>) { use tauri::Emitter; app.emit(\"borrowed\", b).ok(); }\n");
        // serde attributes given through cfg_attr (the usual way of an optional serde feature) count like plain ones
        src.push_str("#[cfg_attr(feature = \"serde\", derive(Serialize, Deserialize), serde(rename_all = \"camelCase\"))]\npub struct ViaCfgAttr {\n    pub first_name: u32,\n    #[cfg_attr(feature = \"serde\", serde(rename = \"why\"))]\n    pub y_pos: u32,\n    #[cfg_attr(all(feature = \"serde\", not(test)), serde(skip))]\n    pub cache_slot: u32,\n    #[cfg_attr(feature = \"lints\", allow(dead_code))]\n    pub z_pos: u32,\n    #[cfg_attr(feature = \"serde\", doc = \"serde(skip)\")]\n    pub documented_one: u32,\n}\n");
        structs.push(("ViaCfgAttr".to_string(), vec![("firstName".to_string(), false), ("why".to_string(), false), ("zPos".to_string(), false), ("documentedOne".to_string(), false)]));
        src.push_str("#[cfg_attr(feature = \"serde\", derive(Serialize, Deserialize))]\n#[cfg_attr(feature = \"serde\", serde(rename_all = \"kebab-case\"))]\npub enum ViaCfgAttrKind {\n    FastPath,\n    #[cfg_attr(feature = \"serde\", serde(skip))]\n    Hidden,\n    #[cfg_attr(feature = \"serde\", serde(rename = \"SLOW\"))]\n    SlowPath,\n}\n");
        enums.push(("ViaCfgAttrKind".to_string(), vec!["fast-path".to_string(), "SLOW".to_string()]));
        cmd_params.push("vca: ViaCfgAttr, vck: ViaCfgAttrKind".to_string());
        // one command with an implementation per platform: declared once
        src.push_str("#[cfg(desktop)]\n#[tauri::command]\npub fn per_platform(vca: ViaCfgAttr, on_desktop: bool) -> u32 { 0 }\n#[cfg(mobile)]\n#[tauri::command]\npub fn per_platform(vca: ViaCfgAttr, on_desktop: bool) -> u32 { 1 }\n");
        src.push_str("pub mod db {\n    /// Database row: we deliberately do not derive Serialize or Deserialize here\n    #[derive(Debug, Clone)]\n    pub struct Shadow { pub secret_hash: String, pub failed_logins: u32 }\n}\n");
        src.push_str("pub mod api {\n    use serde::{Serialize, Deserialize};\n    #[derive(Serialize, Deserialize)]\n    pub struct Shadow { pub shown: u32 }\n}\n");
        structs.push(("Shadow".to_string(), vec![("shown".to_string(), false)]));
        cmd_params.push("sh: api::Shadow".to_string());
        src.push_str("/// does not derive(Serialize, Deserialize): internal\n#[derive(Debug, Clone)]\npub struct NotSerde { pub x: u32 }\n");
        src.push_str(&format!("#[tauri::command]\npub fn take({}) -> u32 {{ 0 }}\n", cmd_params.join(", ")));
        let dir = root.join("serde/src");
        write_files(&dir, &[("lib.rs".to_string(), src)]);
        for mode in ["none", "zod"] {
            let out = root.join(format!("serde/out_{}", mode));
            let files = generate(&dir, &out, mode);
            for (sname, keys) in &structs {
                rep.case("struct_keys_are_serde_wire_names", &format!("struct {} mode={}", sname, mode), &|| {
                    let files = files.as_ref().map_err(|e| e.clone())?;
                    let t = files.get("types.ts").ok_or("no types.ts")?;
                    let got = object_keys(t, sname, mode == "zod").ok_or(format!("{} is not declared in types.ts although it derives serde traits and a command uses it", sname))?;
                    let want: Vec<String> = keys.iter().map(|(k, _)| k.clone()).collect();
                    if got == want { Ok(format!("{:?}", got)) } else { Err(format!("keys {:?}, serde's wire names are {:?}", got, want)) }
                });
            }
            for (ename, lits) in &enums {
                rep.case("enum_literals_are_serde_wire_names", &format!("enum {} mode={}", ename, mode), &|| {
                    let files = files.as_ref().map_err(|e| e.clone())?;
                    let t = files.get("types.ts").ok_or("no types.ts")?;
                    let got = enum_literals(t, ename, mode == "zod").ok_or(format!("{} is not declared in types.ts although it derives serde traits and a command uses it", ename))?;
                    if got == *lits { Ok(format!("{:?}", got)) } else { Err(format!("literals {:?}, serde's wire names are {:?}", got, lits)) }
                });
            }
            rep.case("self_in_a_field_type_names_the_struct", &format!("struct SelfRef {{ children: Vec<Self>, by_name: HashMap<String, Self> }} mode={}", mode), &|| {
                let files = files.as_ref().map_err(|e| e.clone())?;
                let t = files.get("types.ts").ok_or("no types.ts")?;
                let entries = object_entries(t, "SelfRef", mode == "zod").ok_or("UNPARSED: SelfRef not declared")?;
                for (k, v) in &entries {
                    if k == "self_name" { continue; }
                    if !v.contains("SelfRef") || v.replace("SelfRef", "").contains("Self") { return Err(format!("SelfRef.{} is rendered `{}`: `Self` names the struct SelfRef", k, v)); }
                }
                Ok(format!("{:?}", entries))
            });
            rep.case("non_serde_types_not_emitted", &format!("mode={}", mode), &|| {
                let files = files.as_ref().map_err(|e| e.clone())?;
                let t = files.get("types.ts").ok_or("no types.ts")?;
                if t.contains("NotSerde") { Err("NotSerde (no serde derive, unreachable) appears in types.ts".into()) } else { Ok("ok".into()) }
            });
            rep.case("generated_files_are_lexically_wellformed", &format!("project=serde mode={}", mode), &|| lexical_wellformed(files.as_ref().map_err(|e| e.clone())?));
            for (sname, _) in &structs {
                rep.case("keys_are_legal_property_names", &format!("struct {} mode={}", sname, mode), &|| {
                    let files = files.as_ref().map_err(|e| e.clone())?;
                    let t = files.get("types.ts").ok_or("no types.ts")?;
                    let raw = raw_object_keys(t, sname, mode == "zod").ok_or(format!("{} is not declared", sname))?;
                    for k in &raw {
                        let ident = k.chars().next().map_or(false, |c| c.is_alphabetic() || c == '_' || c == '$') && k.chars().all(|c| c.is_alphanumeric() || c == '_' || c == '$');
                        let quoted = k.len() >= 2 && ((k.starts_with('"') && k.ends_with('"')) || (k.starts_with('\'') && k.ends_with('\'')));
                        if !ident && !quoted { return Err(format!("key `{}` of {} is neither an identifier nor a quoted string", k, sname)); }
                    }
                    Ok(format!("{:?}", raw))
                });
            }
            let tys: Vec<&str> = structs.iter().map(|(n, _)| n.as_str()).chain(enums.iter().map(|(n, _)| n.as_str())).collect();
            rep.case("type_references_resolve", &format!("project=serde mode={}", mode), &|| references_resolve(files.as_ref().map_err(|e| e.clone())?, &tys));
            rep.case("declared_function_names_are_legal", &format!("project=serde mode={}", mode), &|| declared_names_legal(files.as_ref().map_err(|e| e.clone())?));
        }
        // C10: the z.object / z.enum of an item has the keys / members of its plain declaration
        let none = generate(&dir, &root.join("serde/out_none"), "none");
        let zod = generate(&dir, &root.join("serde/out_zod"), "zod");
        for (sname, _) in &structs {
            rep.case("both_modes_same_names_and_keys", &format!("serde struct {}", sname), &|| {
                let n = none.as_ref().map_err(|e| e.clone())?.get("types.ts").ok_or("no types.ts (none)")?;
                let z = zod.as_ref().map_err(|e| e.clone())?.get("types.ts").ok_or("no types.ts (zod)")?;
                let kn = object_keys(n, sname, false).ok_or(format!("plain mode does not declare {} as an object type", sname))?;
                let kz = object_keys(z, sname, true).ok_or(format!("zod mode does not declare {}Schema as z.object", sname))?;
                if kn == kz { Ok(format!("{:?}", kn)) } else { Err(format!("keys differ: plain {:?}, zod {:?}", kn, kz)) }
            });
        }
        for (sname, _) in &structs {
            rep.case("both_modes_same_optionality", &format!("serde struct {}", sname), &|| {
                let n = none.as_ref().map_err(|e| e.clone())?.get("types.ts").ok_or("no types.ts (none)")?;
                let z = zod.as_ref().map_err(|e| e.clone())?.get("types.ts").ok_or("no types.ts (zod)")?;
                let head = format!("export interface {} {{", sname);
                let st = n.find(&head).ok_or(format!("UNPARSED: plain mode does not declare {} as `export interface`", sname))? + head.len();
                let plain_opt: BTreeSet<String> = n[st..].lines().take_while(|l| !l.trim().starts_with('}')).filter_map(|l| { let l = l.trim(); l.find("?:").filter(|p| !l[..*p].contains(':')).map(|p| l[..p].trim_matches('"').to_string()) }).collect();
                let zod_opt: BTreeSet<String> = object_entries(z, sname, true).ok_or(format!("UNPARSED: zod mode does not declare {}Schema as z.object", sname))?.into_iter().filter(|(_, v)| v.ends_with(".optional()") || v.ends_with(".nullish()")).map(|(k, _)| k.trim_matches('"').to_string()).collect();
                if plain_opt == zod_opt { Ok(format!("{:?}", plain_opt)) } else { Err(format!("keys that may be left out: plain {:?}, zod {:?}", plain_opt, zod_opt)) }
            });
        }
        for (ename, _) in &enums {
            rep.case("both_modes_same_names_and_keys", &format!("serde enum {}", ename), &|| {
                let n = none.as_ref().map_err(|e| e.clone())?.get("types.ts").ok_or("no types.ts (none)")?;
                let z = zod.as_ref().map_err(|e| e.clone())?.get("types.ts").ok_or("no types.ts (zod)")?;
                let kn = enum_literals(n, ename, false).ok_or(format!("plain mode does not declare {} as a literal union", ename))?;
                let kz = enum_literals(z, ename, true).ok_or(format!("zod mode does not declare {}Schema as z.enum", ename))?;
                if kn == kz { Ok(format!("{:?}", kn)) } else { Err(format!("members differ: plain {:?}, zod {:?}", kn, kz)) }
            });
        }
    }

    // ============================================================ C12 / C15: emit placements, combinations, odd calls
    {
        let sites: Vec<(&str, &str)> = vec![
            ("a-stmt", "app.emit(\"a-stmt\", 1u32).unwrap();"),
            ("/leading/slash", "app.emit(\"/leading/slash\", 1u32).ok();"), ("trailing/slash/", "app.emit(\"trailing/slash/\", 1u32).ok();"), ("//double", "app.emit(\"//double\", 1u32).ok();"),
            ("a-await-unwrap", "app.emit(\"a-await-unwrap\", 1u32).await.unwrap();"),
            ("a-await-ok", "window.emit_to(\"main\", \"a-await-ok\", 1u32).await.ok();"),
            ("a-await-map-err-try", "app.emit(\"a-await-map-err-try\", 1u32).await.map_err(|e| e.to_string())?;"),
            ("a-try-ok", "let _ = app.emit(\"a-try-ok\", 1u32).map_err(|e| e.to_string())?;"),
            ("a-if-expr", "let _s = if flag { app.emit(\"a-if-expr\", 1u32) } else { app.emit(\"a-else-expr\", 2u32) }.is_ok();"),
            ("a-else-expr", ""),
            ("a-match-expr", "let _m = match flag { true => app.emit(\"a-match-expr\", 1u32), false => Ok(()) }.is_ok();"),
            ("a-typed-let", "let _t: Result<(), tauri::Error> = app.emit(\"a-typed-let\", 1u32);"),
            ("a-field-recv", "self_like.app.emit(\"a-field-recv\", 1u32).ok();"),
            ("a-method-recv", "self_like.handle().emit(\"a-method-recv\", 1u32).ok();"),
            ("a-webview", "webview.emit(\"a-webview\", 1u32).ok();"),
            ("a-ref-payload", "app.emit(\"a-ref-payload\", &flag).ok();"),
            // receivers named app / window / webview whose declared type is not one of Tauri's concrete handle types
            ("g-generic", ""), ("g-arc", ""), ("g-alias", ""), ("g-untyped-let", ""), ("g-impl", ""),
            // payload variables whose declared types carry lifetimes / references inside generics
            ("p-lifetime-opt", ""), ("p-lifetime-vec", ""), ("p-vec-struct", ""),
            // one name emitted at several sites: same payload type, different payload types
            ("r-repeat", "app.emit(\"r-repeat\", 1u32).ok(); window.emit(\"r-repeat\", 2u32).ok();"),
            ("r-mixed", "app.emit(\"r-mixed\", 1u32).ok(); app.emit(\"r-mixed\", \"text\").ok();"),
            // distinct names whose natural listener names coincide
            ("c-user-login", "app.emit(\"c-user-login\", 1u32).ok();"), ("c_user_login", "app.emit(\"c_user_login\", 1u32).ok();"),
            ("c:user:login", "app.emit(\"c:user:login\", 1u32).ok();"), ("CUserLogin", "app.emit(\"CUserLogin\", 1u32).ok();"), ("c-user-login2", "app.emit(\"c-user-login2\", 1u32).ok();"),
            // functions carrying cfg / other attributes and qualifiers
            ("n-closure", ""), ("n-async-block-in-call", ""), ("n-unsafe-block", ""), ("n-if-let", ""), ("n-else-if", ""), ("n-while-let", ""), ("n-match-guard", ""), ("n-block-expr", ""), ("n-paren", ""), ("n-async-await", ""),
            ("g-vec-of-param", ""), ("g-opt-of-param", ""), ("g-tuple-of-param", ""), ("l-lifetime-only", ""), ("l-const-only", ""),
            ("e-if-let-err", ""), ("e-cond", ""), ("e-scrutinee", ""), ("e-and", ""), ("e-assign", ""), ("e-while-cond", ""), ("e-let-else", ""), ("e-tuple", ""), ("e-not", ""), ("e-return", ""), ("e-in-method", ""), ("e-in-inline-module", ""),
            ("s-before", ""), ("s-inner-typed", ""), ("s-after-block", ""), ("s-if-let-bound", ""), ("s-after-if-let", ""), ("s-for-bound", ""), ("s-closure-bound", ""), ("s-rebound-untyped", ""), ("s-match-bound", ""),
            ("d-rest-first", ""), ("d-rest-last", ""), ("d-rest-tail", ""), ("w-shadowed", ""), ("w-shadowed-param", ""), ("w-rebound-in-block", ""),
            ("g-impl-param", ""), ("g-impl-vec", ""), ("w-raw-param", ""), ("w-raw-let", ""),
            ("y-nested-closure", ""), ("y-nested-if", ""), ("y-nested-async", ""), ("y-none-turbofish", ""), ("y-option-some", ""), ("y-result-ok", ""), ("y-default-default", ""), ("y-closure-typed", ""),
            ("y-slice-param", ""), ("y-array-param", ""), ("y-bytes-param", ""), ("y-vec-of-arrays", ""), ("y-neg-int", ""), ("y-neg-float", ""), ("y-suffixed", ""), ("y-raw-struct", ""), ("y-self-struct", ""),
            ("y-local-struct", ""), ("y-local-in-method", ""), ("y-fn-call-result", ""), ("y-fn-call-vec", ""), ("y-ctor-new", ""),
            ("m-to-owned-untyped", ""), ("m-to-owned-if-let", ""), ("m-to-owned-for", ""), ("m-to-owned-typed", ""), ("m-to-string-untyped", ""), ("m-as-ref-untyped", ""),
            ("v-unit-variant", ""), ("v-struct-variant", ""), ("v-tuple-variant", ""), ("v-qualified-variant", ""), ("v-assoc-const", ""), ("v-ctor-call", ""), ("v-const", ""), ("v-tuple-literal", ""), ("v-unit-struct-path", ""),
            ("v-let-struct-variant", ""), ("v-let-tuple-variant", ""), ("v-let-vec-new", ""), ("v-let-map-new", ""), ("v-let-string-new", ""), ("v-let-fn-call", ""),
            ("u-vec-infer", ""), ("u-map-array", ""), ("u-tuple-array", ""), ("u-vec-array", ""),
            ("z-sync-status", ""), ("z-tags", ""), ("t-typed-late-init", ""), ("t-typed-late-init-2", ""), ("s-path-struct", ""), ("s-path-struct-2", ""), ("s-bare-struct", ""),
            ("g-letter-in-name", ""), ("g-letter-in-name-2", ""), ("v-typed-first", ""), ("v-untyped-after-typed", ""),
            ("t-typed-vec-new", ""), ("t-typed-default", ""), ("t-typed-method", ""), ("t-typed-none", ""), ("t-typed-from", ""),
            ("f-cfg-not-test", ""), ("f-cfg-feature", ""), ("f-cfg-any", ""), ("f-attrs", ""), ("f-async-unsafe", ""), ("f-generic-payload", ""), ("f-private", ""),
        ];
        let extra_fns = "pub fn notify<R: tauri::Runtime, E: Emitter<R>>(app: &E) { app.emit(\"g-generic\", 1u32).ok(); }\n\
            pub fn arc(window: std::sync::Arc<tauri::WebviewWindow>) { window.emit(\"g-arc\", 1u32).ok(); }\n\
            type Handle = tauri::Webview<tauri::Wry>;\npub fn alias(webview: Handle) { webview.emit(\"g-alias\", 1u32).ok(); }\n\
            pub fn untyped(ctx: &Ctx) { let app = ctx.handle(); app.emit(\"g-untyped-let\", 1u32).ok(); }\n\
            pub fn imp(app: &impl Emitter) { app.emit(\"g-impl\", 1u32).ok(); }\n\
            #[derive(Serialize, Deserialize, Clone)]\npub struct Player { pub id: u32 }\n\
            pub fn announce<'a>(app: &tauri::AppHandle, winner: Option<&'a Player>) { app.emit(\"p-lifetime-opt\", winner).ok(); }\n\
            pub fn levels(app: &tauri::AppHandle) { let levels: Vec<&'static str> = vec![]; app.emit(\"p-lifetime-vec\", &levels).ok(); }\n\
            pub fn roster(app: &tauri::AppHandle, players: Vec<Player>) { app.emit(\"p-vec-struct\", players).ok(); }\n\
            #[cfg(not(test))]\npub fn only_real(app: &tauri::AppHandle) { app.emit(\"f-cfg-not-test\", 1u32).ok(); }\n\
            #[cfg(feature = \"latest-protocol\")]\npub fn feat(app: &tauri::AppHandle) { app.emit(\"f-cfg-feature\", 1u32).ok(); }\n\
            #[cfg(any(test, debug_assertions))]\npub fn dbg(app: &tauri::AppHandle) { app.emit(\"f-cfg-any\", 1u32).ok(); }\n\
            #[allow(dead_code)]\n#[inline]\n#[doc = \"test helper\"]\npub(crate) fn attrs(app: &tauri::AppHandle) { app.emit(\"f-attrs\", 1u32).ok(); }\n\
            pub async unsafe fn odd_qualifiers(app: tauri::AppHandle) { app.emit(\"f-async-unsafe\", 1u32).ok(); }\n\
            pub fn generic_payload<T: Serialize + Clone>(app: &tauri::AppHandle, t: T) { app.emit(\"f-generic-payload\", t).ok(); }\n\
            fn private_fn(app: &tauri::AppHandle) { app.emit(\"f-private\", 1u32).ok(); }\n\
            pub async fn nested_blocks(app: tauri::AppHandle, flag: Option<u32>) {\n\
                let window = app.clone(); let cb = move || { window.emit(\"n-closure\", 1u32).ok(); }; cb();\n\
                let webview = app.clone(); spawn(async move { webview.emit(\"n-async-block-in-call\", 1u32).ok(); });\n\
                unsafe { app.emit(\"n-unsafe-block\", 1u32).ok(); }\n\
                if let Some(n) = flag { app.emit(\"n-if-let\", n).ok(); } else if flag.is_none() { app.emit(\"n-else-if\", 0u32).ok(); }\n\
                let mut it = vec![1u32].into_iter(); while let Some(n) = it.next() { app.emit(\"n-while-let\", n).ok(); }\n\
                match flag { Some(n) if n > 1 => { app.emit(\"n-match-guard\", n).ok(); } _ => {} }\n\
                let _x = { app.emit(\"n-block-expr\", 1u32).ok(); 5 };\n\
                (app.emit(\"n-paren\", 1u32)).ok();\n\
                let _r = async { app.emit(\"n-async-await\", 1u32).ok(); }.await;\n\
            }\n\
            fn spawn<F>(_f: F) {}\n\
            #[derive(Serialize, Deserialize, Clone)]\npub struct ScanReport { pub lines: Vec<ReportLine> }\n#[derive(Serialize, Deserialize, Clone)]\npub struct ReportLine { pub text: String }\n#[derive(Serialize, Deserialize, Clone)]\npub struct Ticket { pub id: u32 }\n\
            pub fn publish<R: tauri::Runtime>(app: &tauri::AppHandle<R>, report: ScanReport) { app.emit(\"g-letter-in-name\", report).ok(); }\n\
            pub fn publish_t<T: Clone>(app: &tauri::AppHandle, ticket: Ticket, _x: T) { app.emit(\"g-letter-in-name-2\", ticket).ok(); }\n\
            pub fn typed_first(app: &tauri::AppHandle, item: Player) { app.emit(\"v-typed-first\", item).ok(); }\n\
            pub fn untyped_after(app: &tauri::AppHandle) { let item = make_item(); app.emit(\"v-untyped-after-typed\", item).ok(); }\n\
            fn make_item() -> u32 { 0 }\n\
            #[derive(Serialize, Deserialize, Clone)]\npub struct SyncStarted { pub at: u32 }\n#[derive(Serialize, Deserialize, Clone)]\npub struct SyncFinished { pub report: SyncReport }\n#[derive(Serialize, Deserialize, Clone)]\npub struct SyncReport { pub files: u32 }\n\
            #[derive(Serialize, Deserialize, Clone, PartialEq, Eq, Hash, PartialOrd, Ord)]\npub struct TagOnlyInSets { pub name: String }\n\
            pub fn sync_a(app: &tauri::AppHandle, started: SyncStarted) { app.emit(\"z-sync-status\", started).ok(); }\n\
            pub fn sync_b(app: &tauri::AppHandle, finished: SyncFinished) { app.emit(\"z-sync-status\", finished).ok(); }\n\
            pub fn tags_a(app: &tauri::AppHandle, tags: Vec<TagOnlyInSets>) { app.emit(\"z-tags\", tags).ok(); }\n\
            pub fn tags_b(app: &tauri::AppHandle, tags: std::collections::BTreeSet<TagOnlyInSets>) { app.emit(\"z-tags\", tags).ok(); }\n\
            pub fn broadcast<T: Serialize + Clone, U>(app: &tauri::AppHandle, rows: Vec<T>, one: Option<T>, pair: (U, u32)) where U: Serialize + Clone { app.emit(\"g-vec-of-param\", rows).ok(); app.emit(\"g-opt-of-param\", one).ok(); app.emit(\"g-tuple-of-param\", pair).ok(); }\n\
            #[derive(Serialize, Clone)]\npub struct LogLine<'a> { pub text: &'a str }\n#[derive(Serialize, Clone)]\npub struct Buffer<const N: usize> { pub used: u32 }\n\
            pub fn borrowed(app: &tauri::AppHandle, line: LogLine<'_>, buf: Buffer<16>) { app.emit(\"l-lifetime-only\", line).ok(); app.emit(\"l-const-only\", buf).ok(); }\n\
            pub fn partly_unprintable(app: &tauri::AppHandle, src: Vec<Player>) { let items: Vec<_> = src.into_iter().collect(); app.emit(\"u-vec-infer\", items).ok(); let m: HashMap<String, [u32; 3]> = HashMap::new(); app.emit(\"u-map-array\", m).ok(); let t: (String, [u8; 4]) = todo!(); app.emit(\"u-tuple-array\", t).ok(); let v: Vec<[f64; 3]> = vec![]; app.emit(\"u-vec-array\", v).ok(); }\n\
            #[derive(Serialize, Deserialize, Clone)]\npub enum JobState { Running, Failed { code: u32 }, Done(u32) }\nimpl JobState { pub const IDLE: JobState = JobState::Running; pub fn fresh() -> Self { JobState::Running } }\npub const MAX_RETRIES: u32 = 3;\n#[derive(Serialize, Deserialize, Clone)]\npub struct Beat;\npub mod inner { pub fn load() -> u32 { 0 } }\n\
            pub fn values(app: &tauri::AppHandle) { app.emit(\"v-unit-variant\", JobState::Running).ok(); app.emit(\"v-struct-variant\", JobState::Failed { code: 1 }).ok(); app.emit(\"v-tuple-variant\", JobState::Done(3)).ok(); app.emit(\"v-qualified-variant\", crate::JobState::Running).ok(); app.emit(\"v-assoc-const\", JobState::IDLE).ok(); app.emit(\"v-ctor-call\", JobState::fresh()).ok(); app.emit(\"v-const\", MAX_RETRIES).ok(); app.emit(\"v-tuple-literal\", (1u32, \"x\")).ok(); app.emit(\"v-unit-struct-path\", crate::Beat).ok();\n\
                let f = JobState::Failed { code: 2 }; app.emit(\"v-let-struct-variant\", f).ok(); let d = JobState::Done(1); app.emit(\"v-let-tuple-variant\", d).ok(); let v = Vec::new(); app.emit(\"v-let-vec-new\", v).ok(); let m = std::collections::HashMap::new(); app.emit(\"v-let-map-new\", m).ok(); let s = String::new(); app.emit(\"v-let-string-new\", s).ok(); let q = crate::inner::load(); app.emit(\"v-let-fn-call\", q).ok(); }\n\
            #[derive(Serialize, Deserialize, Clone)]\npub struct RawSample { pub raw: u32 }\n#[derive(Serialize, Deserialize, Clone)]\npub struct SampleView { pub shown: String, pub unit: SampleUnit }\n#[derive(Serialize, Deserialize, Clone)]\npub enum SampleUnit { Metric }\nimpl SampleView { pub fn from(_r: RawSample) -> Self { todo!() } }\n\
            pub fn raw_variables(app: &tauri::AppHandle, r#type: Player) { app.emit(\"w-raw-param\", r#type.clone()).ok(); let r#move: ScanReport = todo!(); app.emit(\"w-raw-let\", &r#move).ok(); }\n\
            pub fn nested_decls(app: &tauri::AppHandle, deep: bool, players: Vec<Player>) { let window = app.clone(); let run = move || { #[derive(Serialize, Clone)] struct InClosure { n: u32 } window.emit(\"y-nested-closure\", InClosure { n: 1 }).ok(); }; run(); if deep { #[derive(Serialize, Clone)] struct InIf { n: u32 } app.emit(\"y-nested-if\", InIf { n: 2 }).ok(); } let webview = app.clone(); let _task = async move { #[derive(Serialize, Clone)] struct InAsync { n: u32 } webview.emit(\"y-nested-async\", InAsync { n: 3 }).ok(); }; app.emit(\"y-none-turbofish\", None::<Player>).ok(); app.emit(\"y-option-some\", Option::Some(1u32)).ok(); app.emit(\"y-result-ok\", Result::<u32, String>::Ok(3)).ok(); let fresh = Default::default(); app.emit(\"y-default-default\", fresh).ok(); players.into_iter().for_each(|p: Player| { app.emit(\"y-closure-typed\", p).ok(); }); }\n\
            pub struct Bus<T> { pub last: Option<T> }\nimpl<T: Serialize + Clone> Bus<T> { pub fn publish(&self, app: &tauri::AppHandle, item: T, many: Vec<T>) { app.emit(\"g-impl-param\", item).ok(); app.emit(\"g-impl-vec\", many).ok(); } }\n\
            pub fn array_payloads(app: &tauri::AppHandle, players: &[Player], pair: [Player; 2], bytes: &[u8]) { app.emit(\"y-slice-param\", players).ok(); app.emit(\"y-array-param\", pair).ok(); app.emit(\"y-bytes-param\", bytes).ok(); let grid: Vec<[u8; 3]> = vec![]; app.emit(\"y-vec-of-arrays\", grid).ok(); app.emit(\"y-neg-int\", -1).ok(); app.emit(\"y-neg-float\", -0.5).ok(); app.emit(\"y-suffixed\", 5u64).ok(); }\n\
            #[derive(Serialize, Deserialize, Clone)]\npub struct r#Move { pub dx: i32 }\n\
            impl r#Move { pub fn announce(&self, app: &tauri::AppHandle) { app.emit(\"y-raw-struct\", r#Move { dx: 1 }).ok(); app.emit(\"y-self-struct\", Self { dx: 2 }).ok(); #[derive(Serialize, Clone)] struct MethodLocal { n: u32 } app.emit(\"y-local-in-method\", MethodLocal { n: 1 }).ok(); } pub fn count() -> usize { 0 } pub fn all() -> Vec<r#Move> { vec![] } pub fn new() -> Self { Self { dx: 0 } } }\n\
            pub fn local_payload(app: &tauri::AppHandle) { #[derive(Serialize, Clone)]\n#[serde(rename_all = \"camelCase\")]\nstruct LocalProgress { bytes_done: u64, stage: LocalStage }\n#[derive(Serialize, Clone)]\nenum LocalStage { Started, Done }\napp.emit(\"y-local-struct\", LocalProgress { bytes_done: 0, stage: LocalStage::Started }).ok(); let total = r#Move::count(); app.emit(\"y-fn-call-result\", total).ok(); let every = r#Move::all(); app.emit(\"y-fn-call-vec\", every).ok(); let fresh = r#Move::new(); app.emit(\"y-ctor-new\", fresh).ok(); }\n\
            pub fn methods_on_untyped(app: &tauri::AppHandle, name: &str, last: Option<String>, all: Vec<String>) { let label = format!(\"job {}\", 1); app.emit(\"m-to-owned-untyped\", label.to_owned()).ok(); if let Some(previous) = last { app.emit(\"m-to-owned-if-let\", previous.to_owned()).ok(); } for entry in all { app.emit(\"m-to-owned-for\", entry.to_owned()).ok(); } app.emit(\"m-to-owned-typed\", name.to_owned()).ok(); app.emit(\"m-to-string-untyped\", label.to_string()).ok(); app.emit(\"m-as-ref-untyped\", label.as_ref()).ok(); }\n\
            pub fn shadowing(app: &tauri::AppHandle, reading: RawSample) { let sample = RawSample { raw: 1 }; let sample = SampleView::from(sample); app.emit(\"w-shadowed\", &sample).ok(); let reading: SampleView = SampleView::from(reading); app.emit(\"w-shadowed-param\", reading).ok(); let value: u32 = 1; { let value: String = String::new(); app.emit(\"w-rebound-in-block\", value).ok(); } let _ = value; }\n\
            pub fn used_results(app: &tauri::AppHandle, flag: bool, v: Option<u32>) -> Result<(), tauri::Error> { if let Err(e) = app.emit(\"e-if-let-err\", 1u32) { let _ = e; } if app.emit(\"e-cond\", 1u32).is_err() { } match app.emit(\"e-scrutinee\", 1u32) { Ok(_) => {}, Err(_) => {} } let _ok = flag && app.emit(\"e-and\", 1u32).is_ok(); let mut r; r = app.emit(\"e-assign\", 1u32); let _ = r; while app.emit(\"e-while-cond\", 1u32).is_err() { break; } let Some(_x) = v else { app.emit(\"e-let-else\", 1u32).ok(); return Ok(()); }; let _t = (app.emit(\"e-tuple\", 1u32), 2); let _n = !app.emit(\"e-not\", 1u32).is_ok(); return app.emit(\"e-return\", 1u32); }\n\
            pub struct Notifier;\nimpl Notifier { pub fn tell(&self, app: &tauri::AppHandle) { app.emit(\"e-in-method\", 1u32).ok(); } }\npub mod nested_emitters { use tauri::Emitter; pub fn tell(app: &tauri::AppHandle) { app.emit(\"e-in-inline-module\", 1u32).ok(); } }\n\
            fn summarize_player(_p: &Player) -> u32 { 0 }\n\
            pub fn scopes(app: &tauri::AppHandle, p: Player, items: Vec<u32>, maybe: Option<u32>) { app.emit(\"s-before\", p.clone()).ok(); { let p: ScanReport = todo!(); app.emit(\"s-inner-typed\", p).ok(); } app.emit(\"s-after-block\", p.clone()).ok(); if let Some(p) = maybe { app.emit(\"s-if-let-bound\", p).ok(); } app.emit(\"s-after-if-let\", p.clone()).ok(); for p in items { app.emit(\"s-for-bound\", p).ok(); } let f = |p| { app.emit(\"s-closure-bound\", p).ok(); }; f(1u8); match maybe { Some(p) => { app.emit(\"s-match-bound\", p).ok(); } None => {} } let p = summarize_player(&p); app.emit(\"s-rebound-untyped\", p).ok(); }\n\
            pub fn destructured(app: &tauri::AppHandle, pair: (Player, ScanReport), triple: (u8, u16, u32)) { let (first, .., last): (Player, ScanReport) = pair; let (.., tail): (u8, u16, u32) = triple; let (head, ..) = (1u8, 2u8); let [a0, .., a9]: [u8; 4] = [1, 2, 3, 4]; app.emit(\"d-rest-first\", first).ok(); app.emit(\"d-rest-last\", last).ok(); app.emit(\"d-rest-tail\", tail).ok(); let _ = (head, a0, a9); }\n\
            pub fn struct_exprs(app: &tauri::AppHandle) { app.emit(\"s-path-struct\", crate::Player { id: 1 }).ok(); app.emit(\"s-path-struct-2\", self::Player { id: 2 }).ok(); app.emit(\"s-bare-struct\", Player { id: 3 }).ok(); }\n\
            pub fn late_init(app: &tauri::AppHandle, flag: bool) { let status: Player; if flag { status = Player { id: 1 }; } else { status = Player { id: 2 }; } app.emit(\"t-typed-late-init\", status.clone()).ok(); let count: u32; count = 3; app.emit(\"t-typed-late-init-2\", count).ok(); }\n\
            pub fn typed_lets(app: &tauri::AppHandle, state: Holder) {\n\
                let queue: Vec<Player> = Vec::new(); app.emit(\"t-typed-vec-new\", &queue).ok();\n\
                let fallback: Player = Default::default(); app.emit(\"t-typed-default\", fallback.clone()).ok();\n\
                let count: u32 = state.count(); app.emit(\"t-typed-method\", count).ok();\n\
                let best: Option<Player> = None; app.emit(\"t-typed-none\", best).ok();\n\
                let label: String = String::from(\"x\"); app.emit(\"t-typed-from\", label).ok();\n\
            }\n";
        let body: String = sites.iter().map(|(_, s)| format!("    {}\n", s)).collect();
        let src = format!("{}use tauri::Emitter;\npub struct Holder {{ pub app: tauri::AppHandle }}\nimpl Holder {{ fn handle(&self) -> tauri::AppHandle {{ todo!() }} fn count(&self) -> u32 {{ 0 }} }}\n\
            #[tauri::command]\npub async fn run(app: tauri::AppHandle, window: tauri::Window, webview: tauri::WebviewWindow, self_like: Holder, flag: bool) -> Result<(), String> {{\n{}}}\n\
            // a non-Tauri bus whose emit_to takes two arguments, and calls with too few arguments: must be ignored, never panic\n\
            pub fn other(bus: Bus, app: tauri::AppHandle) {{ bus.sink().emit_to(\"main\", \"b-two-args\"); app.emit_to(\"only-target\"); app.emit(\"b-one-arg\"); app.emit(); }}\n{}", HDR, body, extra_fns);
        let dir = root.join("emits/src");
        write_files(&dir, &[("lib.rs".to_string(), src)]);
        rep.case("emit_placements_and_combinations", "project=emits", &|| {
            let mut an = CommandAnalyzer::new();
            an.analyze_project(dir.to_str().unwrap()).map_err(|e| e.to_string())?;
            let got: BTreeSet<String> = an.get_discovered_events().iter().map(|e| e.event_name.clone()).collect();
            let missing: Vec<&str> = sites.iter().map(|(n, _)| *n).filter(|n| !got.contains(*n)).collect();
            if !missing.is_empty() { return Err(format!("emit sites without a discovered event: {:?} (discovered: {:?})", missing, got)); }
            Ok(format!("{:?}", got))
        });
        for mode in ["none", "zod"] {
            let files = generate(&dir, &root.join(format!("emits/out_{}", mode)), mode);
            rep.case("generated_files_are_lexically_wellformed", &format!("project=emits mode={}", mode), &|| lexical_wellformed(files.as_ref().map_err(|e| e.clone())?));
            rep.case("type_references_resolve", &format!("project=emits mode={}", mode), &|| references_resolve(files.as_ref().map_err(|e| e.clone())?, &["Player", "Holder", "ScanReport", "ReportLine", "Ticket", "SyncStarted", "SyncFinished", "SyncReport", "TagOnlyInSets", "Move", "LocalProgress", "LocalStage", "MethodLocal", "InClosure", "InIf", "InAsync"]));
            rep.case("mentioned_project_types_are_declared", &format!("project=emits mode={}", mode), &|| {
                let files = files.as_ref().map_err(|e| e.clone())?;
                let exp = exports_of(files.get("types.ts").ok_or("no types.ts")?);
                for n in ["Player", "ScanReport", "ReportLine", "Ticket", "SyncStarted", "SyncFinished", "SyncReport", "TagOnlyInSets", "SampleView", "SampleUnit", "JobState", "Beat"] { if !exp.contains(n) && !exp.contains(&format!("{}Schema", n)) { return Err(format!("{} is the payload type of an emit site (or reachable from one) but types.ts does not declare it", n)); } }
                // never emitted, never a command type: the value a payload variable held BEFORE it was re-bound is not reachable
                for n in ["RawSample"] { if exp.contains(n) || exp.contains(&format!("{}Schema", n)) { return Err(format!("{} is declared although no command, channel or event reaches it (a variable of that type was re-bound before it was emitted)", n)); } }
                types_module_is_closed(files, &["Player", "ScanReport", "ReportLine", "Ticket", "SyncStarted", "SyncFinished", "SyncReport", "TagOnlyInSets"])
            });
            rep.case("declared_function_names_are_legal", &format!("project=emits mode={}", mode), &|| declared_names_legal(files.as_ref().map_err(|e| e.clone())?));
            rep.case("payload_types_follow_the_declarations", &format!("project=emits mode={}", mode), &|| {
                let files = files.as_ref().map_err(|e| e.clone())?;
                let ev = files.get("events.ts").ok_or("no events.ts")?;
                // (event, payload type of the listener): the declared type of the payload variable, translated
                let want = [("t-typed-vec-new", "types.Player[]"), ("t-typed-default", "types.Player"), ("t-typed-method", "number"), ("t-typed-none", "types.Player | null"), ("t-typed-from", "string"),
                    ("p-vec-struct", "types.Player[]"), ("p-lifetime-opt", "types.Player | null"), ("p-lifetime-vec", "string[]"), ("a-ref-payload", "boolean"), ("a-stmt", "number"), ("f-generic-payload", "unknown"),
                    ("n-if-let", "unknown"), ("n-while-let", "unknown"), ("n-match-guard", "unknown"), ("n-closure", "number"),
                    ("r-mixed", "unknown"), ("r-repeat", "number"),
                    ("g-letter-in-name", "types.ScanReport"), ("g-letter-in-name-2", "types.Ticket"), ("v-typed-first", "types.Player"), ("v-untyped-after-typed", "unknown"),
                    ("g-vec-of-param", "unknown"), ("g-opt-of-param", "unknown"), ("g-tuple-of-param", "unknown"), ("l-lifetime-only", "types.LogLine || unknown"), ("l-const-only", "types.Buffer || unknown"),
                    ("v-unit-variant", "types.JobState"), ("v-struct-variant", "types.JobState"), ("v-tuple-variant", "types.JobState || unknown"), ("v-qualified-variant", "types.JobState"), ("v-assoc-const", "unknown || types.JobState"), ("v-ctor-call", "unknown || types.JobState"),
                    ("v-const", "unknown || number"), ("v-tuple-literal", "unknown || [number, string]"), ("v-unit-struct-path", "types.Beat"),
                    ("v-let-struct-variant", "types.JobState"), ("v-let-tuple-variant", "types.JobState || unknown"), ("v-let-vec-new", "unknown"), ("v-let-map-new", "unknown"), ("v-let-string-new", "string || unknown"), ("v-let-fn-call", "unknown || number"),
                    ("e-if-let-err", "number"), ("e-cond", "number"), ("e-scrutinee", "number"), ("e-and", "number"), ("e-assign", "number"), ("e-while-cond", "number"), ("e-let-else", "number"), ("e-tuple", "number"), ("e-not", "number"), ("e-return", "number"), ("e-in-method", "number"), ("e-in-inline-module", "number"),
                    ("s-before", "types.Player"), ("s-inner-typed", "types.ScanReport"), ("s-after-block", "types.Player"), ("s-if-let-bound", "unknown || number"), ("s-after-if-let", "types.Player"), ("s-for-bound", "unknown || number"), ("s-closure-bound", "unknown || number"), ("s-rebound-untyped", "unknown || number"), ("s-match-bound", "unknown || number"),
                    ("w-shadowed", "types.SampleView"), ("w-shadowed-param", "types.SampleView"), ("w-rebound-in-block", "string"),
                    ("g-impl-param", "unknown"), ("g-impl-vec", "unknown"), ("w-raw-param", "types.Player"), ("w-raw-let", "types.ScanReport"),
                    ("y-nested-closure", "types.InClosure"), ("y-nested-if", "types.InIf"), ("y-nested-async", "types.InAsync"), ("y-none-turbofish", "unknown || types.Player | null"), ("y-option-some", "unknown || number | null"), ("y-result-ok", "unknown || number"), ("y-default-default", "unknown"), ("y-closure-typed", "types.Player"),
                    ("y-slice-param", "types.Player[]"), ("y-array-param", "types.Player[]"), ("y-bytes-param", "number[]"), ("y-vec-of-arrays", "number[][]"), ("y-neg-int", "number"), ("y-neg-float", "number"), ("y-suffixed", "number"),
                    ("y-raw-struct", "types.Move"), ("y-self-struct", "unknown || types.Move"), ("y-local-struct", "types.LocalProgress"), ("y-local-in-method", "types.MethodLocal"),
                    ("y-fn-call-result", "unknown || number"), ("y-fn-call-vec", "unknown || types.Move[]"), ("y-ctor-new", "unknown || types.Move"),
                    ("m-to-owned-untyped", "unknown || string"), ("m-to-owned-if-let", "unknown || string"), ("m-to-owned-for", "unknown || string"), ("m-to-owned-typed", "unknown || string"), ("m-to-string-untyped", "unknown || string"), ("m-as-ref-untyped", "unknown"),
                    ("d-rest-first", "unknown || types.Player"), ("d-rest-last", "unknown || types.ScanReport"), ("d-rest-tail", "unknown || number"),
                    ("u-vec-infer", "unknown"), ("u-map-array", "unknown || Record<string, number[]>"), ("u-tuple-array", "unknown || [string, number[]]"), ("u-vec-array", "unknown || number[][]"),
                    ("s-path-struct", "types.Player"), ("s-path-struct-2", "types.Player"), ("s-bare-struct", "types.Player"),
                    ("t-typed-late-init", "types.Player"), ("t-typed-late-init-2", "number"), ("z-sync-status", "unknown"), ("z-tags", "types.TagOnlyInSets[]")];
                for (name, ty) in want {
                    let needle = format!(">('{}',", name);
                    let p = ev.find(&needle).ok_or(format!("no listener subscribed to '{}'", name))?;
                    let line_start = ev[..p].rfind('\n').map_or(0, |i| i + 1);
                    let line = &ev[line_start..p];
                    let got = line.trim().strip_prefix("return listen<").ok_or(format!("unexpected listen line `{}`", line))?;
                    if !ty.split(" || ").any(|alt| alt == got) { return Err(format!("listener of '{}' takes `{}`, the payload's declared type translates to `{}`", name, got, ty)); }
                }
                Ok("ok".into())
            });
            rep.case("one_listener_per_event", &format!("project=emits mode={}", mode), &|| {
                let files = files.as_ref().map_err(|e| e.clone())?;
                let ev = files.get("events.ts").ok_or("no events.ts although the project emits events")?;
                for (n, _) in &sites {
                    let k = ev.matches(&format!("('{}',", n)).count() + ev.matches(&format!("(\"{}\",", n)).count();
                    if k != 1 { return Err(format!("events.ts has {} listeners subscribed to '{}', expected exactly one", k, n)); }
                }
                let mut fnames = BTreeSet::new();
                for l in ev.lines() {
                    if let Some(rest) = l.trim_start().strip_prefix("export async function ") {
                        let name: String = rest.chars().take_while(|c| c.is_alphanumeric() || *c == '_' || *c == '$').collect();
                        if name.is_empty() || name.chars().next().unwrap().is_numeric() { return Err(format!("listener name in `{}` is not an identifier", l.trim())); }
                        if !fnames.insert(name.clone()) { return Err(format!("listener function `{}` is declared twice", name)); }
                    }
                }
                if fnames.len() != sites.len() { return Err(format!("{} listener functions for {} distinct event names", fnames.len(), sites.len())); }
                Ok("ok".into())
            });
        }
    }

    // ============================================================ C13: reordering / moving items changes at most the order of declarations
    {
        let items: Vec<String> = vec![
            format!("{}\n", "#[derive(Serialize, Deserialize, Clone)]\npub struct Progress { pub pct: u32 }"),
            format!("{}\n", "#[derive(Serialize, Deserialize, Clone)]\npub struct Summary { pub total: u32, pub last: Progress }"),
            "#[tauri::command]\npub fn start(app: tauri::AppHandle, update: Progress) -> u32 { app.emit(\"started\", update).ok(); 0 }\n".to_string(),
            "fn build_summary() -> Summary { todo!() }\n#[tauri::command]\npub fn finish(app: tauri::AppHandle) -> Summary { let update = build_summary(); app.emit(\"finished\", update.clone()).ok(); update }\n".to_string(),
            "#[tauri::command]\npub fn poll(update: Option<Summary>, on_progress: tauri::ipc::Channel<Progress>) -> Vec<Progress> { vec![] }\n".to_string(),
            "pub fn decoy_helper(update: Progress) -> Progress { update }\n".to_string(),
            // one event name emitted at three sites that disagree about the payload: the merged listener must not depend on the order of the sites
            "pub fn multi_a(app: &tauri::AppHandle, update: Progress) { app.emit(\"multi\", update).ok(); }\n".to_string(),
            "pub fn multi_b(app: &tauri::AppHandle, update: Progress) { app.emit(\"multi\", update).ok(); }\n".to_string(),
            "pub fn multi_c(app: &tauri::AppHandle, total: Summary) { app.emit(\"multi\", total).ok(); }\n".to_string(),
            "#[derive(Serialize, Deserialize, Clone)]\n#[serde(rename_all = \"snake_case\")]\npub struct Row { #[serde(rename = \"email_address\")] pub mail: String, #[validate(length(min = 1, max = 40))] pub displayName: String, #[validate(range(min = 0, max = 120))] pub age: u32 }\n#[tauri::command(rename_all = \"snake_case\")]\npub fn row(first_row: Row) -> u32 { 0 }\n".to_string(),
        ];
        let items = { let mut v = items; v.push("pub fn login_dash(app: &tauri::AppHandle) { app.emit(\"user-login\", 1u32).ok(); }\n".to_string()); v.push("pub fn login_under(app: &tauri::AppHandle) { app.emit(\"user_login\", \"x\").ok(); }\n".to_string()); v };
        // the same item with comments inside the attribute argument lists (comments are not tokens)
        let commented_row = "#[derive(Serialize, Deserialize, Clone)]\n#[serde(\n    // rename_all = \"camelCase\",\n    rename_all = \"snake_case\"\n)]\npub struct Row { #[serde(/* rename = \"mail\", */ rename = \"email_address\")] pub mail: String, #[validate(length(min = 1, max = 40 /* column width */))] pub displayName: String, #[validate(range(min = 0, // never negative\n max = 120))] pub age: u32 }\n#[tauri::command(/* rename_all = \"camelCase\" */ rename_all = \"snake_case\")]\npub fn row(first_row: Row) -> u32 { 0 }\n".to_string();
        let hdr = format!("{}use tauri::Emitter;\n", HDR);
        let layouts: Vec<(&str, Vec<(String, String)>)> = vec![
            ("one-file", vec![("lib.rs".to_string(), format!("{}{}", hdr, items.join("")))]),
            ("one-file-reversed", vec![("lib.rs".to_string(), format!("{}{}", hdr, items.iter().rev().cloned().collect::<Vec<_>>().join("")))]),
            ("two-files", vec![("a.rs".to_string(), format!("{}{}{}{}{}{}{}{}", hdr, items[0], items[2], items[5], items[6], items[8], items[9], items[11])), ("b.rs".to_string(), format!("{}{}{}{}{}{}", hdr, items[1], items[3], items[4], items[7], items[10]))]),
            ("two-files-swapped", vec![("b.rs".to_string(), format!("{}{}{}{}{}{}{}", hdr, items[10], items[8], items[5], items[2], items[0], items[6])), ("a.rs".to_string(), format!("{}{}{}{}{}{}{}", hdr, items[9], items[7], items[4], items[11], items[3], items[1]))]),
            ("same-named-helpers-first", vec![("lib.rs".to_string(), format!("{}mod helpers {{\n    pub fn poll() {{}}\n    pub fn start(x: u32) -> u32 {{ x }}\n    pub fn finish() {{}}\n}}\n{}", hdr, items.join("")))]),
            ("two-functions-per-line", vec![("lib.rs".to_string(), format!("{}{}", hdr, items.iter().map(|s| s.trim_end().replace('\n', " ")).collect::<Vec<_>>().chunks(2).map(|c| c.join(" ")).collect::<Vec<_>>().join("\n")))]),
            ("two-functions-per-line-shifted", vec![("lib.rs".to_string(), format!("{}{}\n{}", hdr, items[0].trim_end().replace('\n', " "), items[1..].iter().map(|s| s.trim_end().replace('\n', " ")).collect::<Vec<_>>().chunks(2).map(|c| c.join(" ")).collect::<Vec<_>>().join("\n")))]),
            ("one-file-rotated", vec![("lib.rs".to_string(), format!("{}{}{}", hdr, items[4..].join(""), items[..4].join("")))]),
            ("one-file-interleaved", vec![("lib.rs".to_string(), format!("{}{}", hdr, [11usize, 8, 0, 6, 9, 1, 2, 7, 10, 3, 4, 5].iter().map(|i| items[*i].clone()).collect::<Vec<_>>().join("")))]),
            ("comments-inside-attributes", vec![("lib.rs".to_string(), format!("{}{}{}{}", hdr, items[..9].join(""), commented_row, items[10..].join("")))]),
            // checkouts inside the sources: every directory holds a `.git` FILE (a submodule / worktree checkout), and a plain file called
            // `target` lies next to them; neither says anything about their sibling files
            ("git-files-and-a-target-file", {
                let mut v: Vec<(String, String)> = Vec::new();
                for (i, item) in items.iter().enumerate() { v.push((format!("vendor_{}/part_{}.rs", i % 3, i), format!("{}{}", hdr, item))); }
                for d in 0..3 { v.push((format!("vendor_{}/.git", d), format!("gitdir: ../../.git/modules/vendor_{}\n", d))); v.push((format!("vendor_{}/.gitignore", d), "/target\n".to_string())); }
                v.push(("target".to_string(), "not a build directory\n".to_string()));
                v.push((".git".to_string(), "gitdir: ../.git/worktrees/src\n".to_string()));
                v
            }),
            ("with-noise", vec![("lib.rs".to_string(), format!("{}// comment\n\n\n{}", hdr, items.iter().map(|s| format!("/* noise */\n// TODO: drop this once the @generated client lands (DO NOT EDIT? no: hand written) #[tauri::command]\n{}\n\npub fn unrelated_{}() {{}}\n", s, s.len())).collect::<Vec<_>>().join("")))]),
        ];
        for mode in ["none", "zod"] {
            let mut reference: Option<(String, BTreeMap<String, Vec<String>>)> = None;
            for (lname, files) in &layouts {
                let dir = root.join(format!("layout/{}/src", lname));
                write_files(&dir, files);
                let out = root.join(format!("layout/{}/out_{}", lname, mode));
                let res = generate(&dir, &out, mode).map(|fs| {
                    fs.into_iter().filter(|(k, _)| k.ends_with(".ts")).map(|(k, v)| {
                        // declaration blocks, order-insensitive: split at blank lines, drop the header comment
                        // comments are dropped first: a section comment stands above whichever declaration happens to come first
                        let mut blocks: Vec<String> = without_comments(&v).split("\n\n").map(|b| b.lines().filter(|l| !l.trim().is_empty()).collect::<Vec<_>>().join("\n").trim().to_string()).filter(|b| !b.is_empty()).collect();
                        blocks.sort();
                        (k, blocks)
                    }).collect::<BTreeMap<_, _>>()
                });
                match (&reference, res) {
                    (None, Ok(r)) => reference = Some((lname.to_string(), r)),
                    (Some((rname, r0)), Ok(r)) => {
                        let r0c = r0.clone();
                        let rn = rname.clone();
                        rep.case("layout_changes_only_reorder_declarations", &format!("layout {} vs {} mode={}", rn, lname, mode), &|| {
                            for (file, blocks) in &r0c {
                                match r.get(file) {
                                    None => return Err(format!("{} is generated for layout {} but not for {}", file, rn, lname)),
                                    Some(b2) => if b2 != blocks {
                                        let d: Vec<&String> = blocks.iter().filter(|b| !b2.contains(b)).collect();
                                        return Err(format!("{} differs in content, e.g. block {:?}", file, d.first().map(|s| s.chars().take(160).collect::<String>())));
                                    }
                                }
                            }
                            Ok("same".into())
                        });
                    }
                    (_, Err(e)) => { let e2 = e.clone(); rep.case("layout_changes_only_reorder_declarations", &format!("layout {} mode={}", lname, mode), &|| Err(e2.clone())); }
                }
            }
        }
    }

    // ============================================================ C16: unusual output paths; nothing outside the output directory changes
    {
        let proj = root.join("io/app");
        let src = proj.join("src-tauri/src");
        write_files(&src, &[("lib.rs".to_string(), format!("{}{}#[tauri::command]\npub fn get() -> Thing {{ todo!() }}\n", HDR, "#[derive(Serialize, Deserialize)]\npub struct Thing { pub x: u32 }\n"))]);
        let outs = ["ui/src/generated", "ui/src\\generated", "ui/my bindings", "ui/ünïcode/gen", "ui/gen.d", "./ui/dot/../gen2"];
        for o in outs {
            for mode in ["none", "zod"] {
                rep.case("writes_stay_inside_the_output_directory", &format!("output_path={:?} mode={}", o, mode), &|| {
                    // foreign files next to and around the output directory, including the path with '\' read as '/'
                    let _ = fs::remove_dir_all(proj.join("ui"));
                    for d in ["ui/src/generated", "ui/src", "ui"] { fs::create_dir_all(proj.join(d)).map_err(|e| e.to_string())?; }
                    fs::write(proj.join("ui/src/generated/types.ts"), "// foreign types.ts").map_err(|e| e.to_string())?;
                    fs::write(proj.join("ui/src/app.ts"), "// app").map_err(|e| e.to_string())?;
                    let out = proj.join(o);
                    fn walk(d: &Path, m: &mut BTreeMap<PathBuf, String>) { if let Ok(rd) = fs::read_dir(d) { for e in rd.flatten() { let p = e.path(); if p.is_dir() { walk(&p, m); } else { m.insert(p.clone(), fs::read_to_string(&p).unwrap_or_default()); } } } }
                    let mut before = BTreeMap::new();
                    walk(&proj, &mut before);
                    let mut cfg = GenerateConfig::default();
                    cfg.project_path = src.to_string_lossy().to_string();
                    cfg.output_path = out.to_string_lossy().to_string();
                    cfg.validation_library = mode.to_string();
                    generate_from_config(&cfg).map_err(|e| format!("generate_from_config returned Err: {}", e))?;
                    let mut after = BTreeMap::new();
                    walk(&proj, &mut after);
                    let canon_out = fs::canonicalize(&out).map_err(|e| format!("configured output directory does not exist after the run: {}", e))?;
                    for (p, c) in &before {
                        let inside = fs::canonicalize(p).map(|cp| cp.starts_with(&canon_out)).unwrap_or(false);
                        if !inside && after.get(p) != Some(c) { return Err(format!("file outside the output directory changed: {}", p.display())); }
                    }
                    for p in after.keys() {
                        if before.contains_key(p) { continue; }
                        let cp = fs::canonicalize(p).map_err(|e| e.to_string())?;
                        if !cp.starts_with(&canon_out) { return Err(format!("file created outside the configured output directory {:?}: {}", o, p.display())); }
                    }
                    if !after.keys().any(|p| fs::canonicalize(p).map(|cp| cp.starts_with(&canon_out) && cp.ends_with("types.ts")).unwrap_or(false)) { return Err("types.ts was not written into the configured output directory".into()); }
                    Ok("ok".into())
                });
            }
        }
    }

    // ============================================================ C10 (first sentence) / C01: both modes describe the same names and keys; files are well formed
    {
        let src = format!("{}use tauri::Emitter;\n\
            #[derive(Serialize, Deserialize)]\npub struct Ping;\n\
            #[derive(Serialize, Deserialize)]\npub struct AllSkipped {{ #[serde(skip)] pub a: u32 }}\n\
            #[derive(Serialize, Deserialize)]\npub struct Item {{ pub id: u32, pub tags: Vec<Option<String>>, pub meta: HashMap<String, Vec<u32>>, pub pair: (u32, String), pub maybe: Option<Ping> }}\n\
            #[derive(Serialize, Deserialize, Clone)]\npub enum Level {{ Low, High }}\n\
            #[tauri::command]\npub fn ping(p: Ping, s: AllSkipped) -> Ping {{ p }}\n\
            #[tauri::command]\npub fn items(level: Level, first: Option<Item>) -> Result<Vec<Option<Item>>, String> {{ Ok(vec![]) }}\n\
            #[tauri::command]\npub fn grid(app: tauri::AppHandle) -> Option<Vec<Vec<Option<Item>>>> {{ app.emit(\"grid:done\", 1u32).ok(); None }}\n\
            #[tauri::command]\npub fn level(app: tauri::AppHandle, l: Level) -> Level {{ app.emit(\"level:set\", l.clone()).ok(); l }}\n\
            #[tauri::command]\npub fn levels() -> Result<Vec<Level>, String> {{ Ok(vec![]) }}\n\
            #[tauri::command]\npub fn qualified(i: crate::Item, l: std::option::Option<self::Level>) -> std::result::Result<Vec<crate::Level>, String> {{ Ok(vec![]) }}\n\
            #[derive(Serialize, Deserialize)]\npub struct Holder {{ pub item: crate::Item, pub by_level: std::collections::HashMap<String, crate::Level>, pub pair: (crate::Item, u32), pub lookup: HashMap<String, (std::string::String, crate::Level)> }}\n\
            #[tauri::command]\npub fn pairs() -> Result<(std::string::String, Vec<std::primitive::u32>), String> {{ todo!() }}\n\
            #[tauri::command]\npub fn holder() -> crate::Holder {{ todo!() }}\n\
            #[tauri::command]\npub fn delete(id: u32) -> u32 {{ id }}\n\
            #[tauri::command]\npub fn new() -> u32 {{ 0 }}\n\
            #[tauri::command]\npub fn default() -> u32 {{ 0 }}\n\
            #[tauri::command]\npub fn import(path: String) -> u32 {{ 0 }}\n\
            #[tauri::command]\npub fn _1st(a: u32) -> u32 {{ a }}\n\
            #[tauri::command]\npub fn __(a: u32) -> u32 {{ a }}\n\
            #[tauri::command]\npub fn _2() -> u32 {{ 0 }}\n\
            #[tauri::command]\npub fn enum_() -> u32 {{ 0 }}\n#[tauri::command]\npub fn const_() -> u32 {{ 0 }}\n#[tauri::command]\npub fn r#try() -> u32 {{ 0 }}\n#[tauri::command]\npub fn static_() -> u32 {{ 0 }}\n#[tauri::command]\npub fn r#while() -> u32 {{ 0 }}\n#[tauri::command]\npub fn let_() -> u32 {{ 0 }}\n#[tauri::command]\npub fn yield_() -> u32 {{ 0 }}\n#[tauri::command]\npub fn await_() -> u32 {{ 0 }}\n#[tauri::command]\npub fn r#true() -> u32 {{ 0 }}\n#[tauri::command]\npub fn in_() -> u32 {{ 0 }}\n\
            #[derive(Serialize, Deserialize)]\npub enum Never {{}}\n#[derive(Serialize, Deserialize)]\npub enum AllSkippedVariants {{ #[serde(skip)] Hidden }}\n#[derive(Serialize, Deserialize)]\npub struct Impossible {{ pub n: Option<Never>, pub h: Vec<AllSkippedVariants> }}\n#[tauri::command]\npub fn impossible(i: Impossible) -> u32 {{ 0 }}\n\
            #[derive(Serialize, Deserialize)]\npub struct Category {{ pub name: String, pub children: Vec<Category>, pub parent: Option<SubCategory>, pub all: HashMap<String, Vec<SubCategory>> }}\n\
            #[derive(Serialize, Deserialize)]\npub struct SubCategory {{ pub id: u32 }}\n#[tauri::command]\npub fn categories() -> Vec<Category> {{ vec![] }}\n\
            #[derive(Serialize, Deserialize)]\npub struct Account {{ pub id: u32, token: String, pub(crate) retries: u32, pub(super) zone: Option<String> }}\n\
            #[tauri::command]\npub fn account(a: Account) -> Account {{ a }}\n", HDR);
        let dir = root.join("modes/src");
        write_files(&dir, &[("lib.rs".to_string(), src)]);
        let none = generate(&dir, &root.join("modes/out_none"), "none");
        let zod = generate(&dir, &root.join("modes/out_zod"), "zod");
        for name in ["Ping", "AllSkipped", "Item", "Holder", "Account", "Category", "SubCategory", "PingParams", "ItemsParams", "QualifiedParams"] {
            rep.case("both_modes_same_names_and_keys", &format!("type {}", name), &|| {
                let n = none.as_ref().map_err(|e| e.clone())?.get("types.ts").ok_or("no types.ts (none)")?;
                let z = zod.as_ref().map_err(|e| e.clone())?.get("types.ts").ok_or("no types.ts (zod)")?;
                let kn = object_keys(n, name, false).ok_or(format!("plain mode does not declare {} as an object type", name))?;
                let kz = object_keys(z, name, true).ok_or(format!("zod mode does not declare {}Schema as z.object", name))?;
                if kn == kz { Ok(format!("{:?}", kn)) } else { Err(format!("keys differ: plain {:?}, zod {:?}", kn, kz)) }
            });
        }
        for (mname, res) in [("none", &none), ("zod", &zod)] {
            rep.case("generated_files_are_lexically_wellformed", &format!("project=modes mode={}", mname), &|| {
                lexical_wellformed(res.as_ref().map_err(|e| e.clone())?)
            });
            rep.case("type_references_resolve", &format!("project=modes mode={}", mname), &|| {
                references_resolve(res.as_ref().map_err(|e| e.clone())?, &["Ping", "AllSkipped", "Item", "Level", "Holder"])
            });
            rep.case("declared_function_names_are_legal", &format!("project=modes mode={}", mname), &|| declared_names_legal(res.as_ref().map_err(|e| e.clone())?));
        }
    }
    // ============================================================ C11 / C15: validator attribute spellings, end to end in zod mode
    {
        // (field, attribute lines, rust type, email?, url?, fragments that must / must not occur)
        let fields: Vec<(&str, &str, &str, bool, bool, Vec<&str>, Vec<&str>)> = vec![
            ("f_plain", "", "String", false, false, vec![], vec![".min(", ".max("]),
            ("f_email", "#[validate(email)]", "String", true, false, vec![], vec![]),
            ("f_url", "#[validate(url)]", "String", false, true, vec![], vec![]),
            ("f_both", "#[validate(email, url)]", "String", true, true, vec![], vec![]),
            ("f_email_msg", "#[validate(email(message = \"bad mail\"))]", "String", true, false, vec![], vec![]),
            ("f_url_code", "#[validate(url(code = \"bad_url\"))]", "String", false, true, vec![], vec![]),
            ("f_email_apostrophe", "#[validate(email(message = \"That doesn't look like an email\"))]", "String", true, false, vec![], vec![]),
            ("f_url_quotes", "#[validate(url(message = \"it's \\\"bad\\\" \\\\ really\"))]", "String", false, true, vec![], vec![]),
            ("f_len_apostrophe", "#[validate(length(min = 2, message = \"can't be that short\"))]", "String", false, false, vec![".min(2"], vec![]),
            ("f_len_backslash_end", "#[validate(length(min = 2, max = 10, message = \"must end with a \\\\\"), url)]", "String", false, true, vec![".min(2", ".max(10"], vec![]),
            ("f_url_msg_len", "#[validate(url(message = \"bad link\"), length(max = 2048))]", "String", false, true, vec![".max(2048"], vec![]),
            ("f_email_len", "#[validate(email, length(max = 64))]", "String", true, false, vec![".max(64"], vec![]),
            ("f_len_then_email", "#[validate(length(min = 3), email)]", "String", true, false, vec![".min(3"], vec![]),
            ("f_two_attrs", "#[validate(email)]\n    #[validate(length(min = 5))]", "String", true, false, vec![".min(5"], vec![]),
            ("f_len_then_url_attr", "#[validate(length(min = 3, max = 20, message = \"3 to 20\"))]\n    #[validate(url)]", "String", false, true, vec![".min(3", ".max(20", "3 to 20"], vec![]),
            ("f_len_email_url_attrs", "#[validate(length(max = 64))]\n    #[validate(email)]\n    #[validate(url)]", "String", true, true, vec![".max(64"], vec![]),
            ("f_email_len_url_attrs", "#[validate(email)]\n    #[validate(length(min = 7))]\n    #[validate(url)]", "String", true, true, vec![".min(7"], vec![]),
            ("f_len_then_email_msg", "#[validate(length(min = 3, max = 64), email(message = \"not an e-mail address\"))]", "String", true, false, vec![".min(3)", ".max(64)"], vec!["min(3, {", "max(64, {"]),
            ("f_len_then_custom_msg", "#[validate(length(min = 4), custom(function = \"check_it\", message = \"custom says no\"))]", "String", false, false, vec![".min(4)"], vec!["custom says no"]),
            ("f_msg_mentions", "#[validate(length(min = 1, message = \"not an email or url\"))]", "String", false, false, vec![".min(1", "not an email or url"], vec![]),
            ("f_custom_str", "#[validate(custom(function = \"check_email_domain\"))]", "String", false, false, vec![], vec![]),
            ("f_range_neg", "#[validate(range(min = -10, max = -1.5))]", "f64", false, false, vec![".min(-10", ".max(-1.5"], vec![]),
            ("f_range_swapped", "#[validate(range(min = 10, max = 1))]", "i32", false, false, vec![".min(10", ".max(1"], vec![]),
            ("f_len_vec", "#[validate(length(min = 1, max = 3))]", "Vec<String>", false, false, vec![".min(1", ".max(3"], vec![]),
            ("f_custom_email_ident", "#[validate(custom(function = validate_email_domain))]", "String", false, false, vec![], vec![".email(", ".url("]),
            ("f_must_match_ident", "#[validate(must_match(other = email_confirmation))]", "String", false, false, vec![], vec![".email("]),
            ("f_regex_url_ident", "#[validate(regex(path = *url_pattern))]", "String", false, false, vec![], vec![".url("]),
            ("f_exclusive_max", "#[validate(range(min = 1, exclusive_max = 10))]", "u32", false, false, vec![".min(1"], vec![".max(10"]),
            ("f_exclusive_min", "#[validate(range(exclusive_min = 0))]", "f64", false, false, vec![], vec![".min(0"]),
            ("f_code_message_eq", "#[validate(length(min = 1, code = \"message=x\", message = \"real one\"))]", "String", false, false, vec![".min(1", "real one"], vec![]),
            ("f_msg_double_space", "#[validate(length(min = 8, message = \"Too short.  Use 8 or more\"))]", "String", false, false, vec![".min(8", "Too short.  Use 8 or more"], vec![]),
            ("f_msg_tab", "#[validate(range(min = 18, message = \"Adults only:\t18\"))]", "u32", false, false, vec![".min(18"], vec!["Adults only: 18"]),
            ("f_msg_wide", "#[validate(length(max = 3, message = \"a   b    c\"))]", "String", false, false, vec![".max(3", "a   b    c"], vec![]),
            ("f_code_before_msg", "#[validate(length(min = 1, max = 280, code = \"message_length\", message = \"1 to 280 characters\"))]", "String", false, false, vec![".min(1", ".max(280", "1 to 280 characters"], vec![]),
            ("f_code_after_msg", "#[validate(range(min = 1, message = \"at least one\", code = \"message_min\"))]", "u32", false, false, vec![".min(1", "at least one"], vec!["message_min"]),
            ("f_len_matrix", "#[validate(length(min = 1, max = 3))]", "Vec<Vec<String>>", false, false, vec!["z.array(z.array(z.string()))", ".min(1", ".max(3"], vec!["z.string()).min(", "z.string()).max("]),
            ("f_len_opt_matrix", "#[validate(length(min = 2, message = \"two rows\"))]", "Option<Vec<Vec<u32>>>", false, false, vec![".min(2", "two rows"], vec!["number()).min("]),
            ("f_len_map_of_vecs", "#[validate(length(min = 1))]", "HashMap<String, Vec<u32>>", false, false, vec![], vec!["number()).min("]),
            ("f_len_set_of_vecs", "#[validate(length(max = 9))]", "Vec<(String, Vec<String>)>", false, false, vec![".max(9"], vec!["z.string()).max("]),
        ];
        let mut body = String::new();
        for (f, attr, ty, ..) in &fields { if !attr.is_empty() { body.push_str(&format!("    {}\n", attr)); } body.push_str(&format!("    pub {}: {},\n", f, ty)); }
        let src = format!("{}use validator::Validate;\n#[derive(Serialize, Deserialize, Validate)]\npub struct Form {{\n{}}}\n#[tauri::command]\npub fn submit(form: Form) -> u32 {{ 0 }}\n", HDR, body);
        let dir = root.join("validators/src");
        write_files(&dir, &[("lib.rs".to_string(), src)]);
        let files = generate(&dir, &root.join("validators/out_zod"), "zod");
        for (f, attr, _ty, email, url, must, must_not) in &fields {
            rep.case("declared_validators_reach_the_schema", &format!("{} pub {}", attr.replace('\n', " "), f), &|| {
                let files = files.as_ref().map_err(|e| e.clone())?;
                let t = files.get("types.ts").ok_or("no types.ts")?;
                let sch = zod_field(t, "Form", f).ok_or(format!("FormSchema has no key {}", f))?;
                if sch.contains(".email(") != *email { return Err(format!("email declared: {}, schema `{}`", email, sch)); }
                if sch.contains(".url(") != *url { return Err(format!("url declared: {}, schema `{}`", url, sch)); }
                for m in must { if !sch.contains(m) { return Err(format!("schema `{}` lacks `{}`", sch, m)); } }
                for m in must_not { if sch.contains(m) { return Err(format!("schema `{}` has `{}` although no such constraint is declared", sch, m)); } }
                Ok(sch)
            });
        }
        rep.case("generated_files_are_lexically_wellformed", "project=validators mode=zod", &|| lexical_wellformed(files.as_ref().map_err(|e| e.clone())?));
        // C15: bound tokens that parse as f64 but are not ordinary numbers, swapped bounds, empty lists — never a panic
        let odd = ["range(min = NaN, max = 100)", "range(min = 1, max = NaN)", "range(min = NaN, max = NaN)", "range(min = inf, max = 1)", "range(min = -inf, max = inf)", "range(min = infinity)",
            "range(min = 1e400, max = 2)", "range(min = 10, max = 1)", "length(min = 10, max = 1)", "length(min = 18446744073709551616)", "length(min = -1)", "range()", "length()", "email()", "range(min = , max = )",
            "length(equal = 3)", "range(exclusive_min = 0.0)", "custom(function = f, message = \"x\")", "length(min = 1, max = 2), range(min = NaN, max = 0)"];
        for (i, o) in odd.iter().enumerate() {
            let src = format!("{}#[derive(Serialize, Deserialize)]\npub struct Odd {{\n    #[validate({})]\n    pub n: f64,\n    #[validate({})]\n    pub s: String,\n    #[validate({})]\n    pub v: Vec<u8>,\n}}\n#[tauri::command]\npub fn odd(o: Odd) -> u32 {{ 0 }}\n", HDR, o, o, o);
            let dir = root.join(format!("odd{}/src", i));
            write_files(&dir, &[("lib.rs".to_string(), src)]);
            for mode in ["none", "zod"] {
                rep.case("odd_validator_arguments_do_not_panic", &format!("#[validate({})] mode={}", o, mode), &|| {
                    match generate(&dir, &root.join(format!("odd{}/out_{}", i, mode)), mode) { Ok(f) => Ok(format!("{} files", f.len())), Err(e) => Ok(format!("Err: {}", e)) }
                });
            }
        }
    }
    // ============================================================ C05: the documented type table, end to end, at every translation site
    {
        // (field, Rust type, TypeScript type of the plain interface)
        let table: Vec<(&str, &str, &str)> = vec![
            ("s", "String", "string"), ("big", "u128", "number"), ("neg", "i128", "number"), ("n64", "u64", "number"), ("n1", "u8", "number"), ("n2", "i64", "number"), ("n3", "f32", "number"), ("n4", "usize", "number"), ("b", "bool", "boolean"),
            ("opt", "Option<String>", "string | null"), ("v", "Vec<u32>", "number[]"), ("hs", "HashSet<String>", "string[]"), ("bs", "BTreeSet<u8>", "number[]"),
            ("hm", "HashMap<String, u32>", "Record<string, number>"), ("bm", "BTreeMap<String, Vec<bool>>", "Record<string, boolean[]>"),
            ("t2", "(String, u32)", "[string, number]"), ("t1", "(String,)", "[string]"), ("t3", "(u8, (bool, String), Vec<u8>)", "[number, [boolean, string], number[]]"),
            ("t1n", "Vec<(u32,)>", "[number][]"), ("ot1", "Option<(Leaf,)>", "[Leaf] | null"),
            ("sref", "&'static str", "string"), ("ov", "Option<Vec<Leaf>>", "Leaf[] | null"), ("mo", "HashMap<String, Option<Leaf>>", "Record<string, Leaf | null>"),
            ("hs3", "HashSet<String, std::hash::RandomState>", "string[]"), ("hm3", "HashMap<String, Vec<Leaf>, std::hash::RandomState>", "Record<string, Leaf[]>"), ("bh", "HashMap<u8, bool, std::hash::BuildHasherDefault<std::collections::hash_map::DefaultHasher>>", "Record<number, boolean>"),
            ("vv", "Vec<Vec<Leaf>>", "Leaf[][]"), ("mt", "HashMap<String, (Leaf, u32)>", "Record<string, [Leaf, number]>"), ("leaf", "Leaf", "Leaf"),
        ];
        let body: String = table.iter().map(|(f, t, _)| format!("    pub {}: {},\n", f, t)).collect();
        let returns: Vec<(&str, &str, &str)> = vec![
            ("r_unit", "()", "void"), ("r_res_unit", "Result<(), String>", "void"), ("r_res_tuple", "Result<(String, HashMap<String, u32>), String>", "[string, Record<string, number>]"),
            ("r_opt_t1", "Option<(u8,)>", "[number] | null"), ("r_t1", "(String,)", "[string]"), ("r_vec", "Vec<Leaf>", "types.Leaf[]"), ("r_ref", "&'static str", "string"),
            ("r_opt_tuple_opt", "Option<(String, Option<u32>)>", "[string, number | null] | null"), ("r_res_opt_tuple_opt", "Result<Option<(String, Option<u32>)>, String>", "[string, number | null] | null"),
            ("r_hasher_map", "Result<HashMap<String, Vec<u8>, std::hash::RandomState>, String>", "Record<string, number[]>"), ("r_hasher_set", "HashSet<String, std::hash::RandomState>", "string[]"),
            ("r_shift_arr", "Result<[u8; 1 << 4], String>", "number[]"), ("r_shift_tuple", "([u8; 1 << 4], String)", "[number[], string]"), ("r_shift_map", "HashMap<String, ([u16; 8 >> 1], bool)>", "Record<string, [number[], boolean]>"),
            ("r_opt_vec_tuple_opt", "Option<Vec<(String, Option<u32>)>>", "[string, number | null][] | null"), ("r_opt_map_opt", "Option<HashMap<String, Option<u32>>>", "Record<string, number | null> | null"),
        ];
        let cmds: String = returns.iter().map(|(n, t, _)| format!("#[tauri::command]\npub fn {}() -> {} {{ todo!() }}\n", n, t)).collect();
        let src = format!("{}use std::collections::{{HashSet, BTreeSet, BTreeMap}};\n#[derive(Serialize, Deserialize)]\npub struct Leaf {{ pub id: u32 }}\n#[derive(Serialize, Deserialize)]\npub struct Table {{\n{}}}\n#[tauri::command]\npub fn table(t: Table) -> u32 {{ 0 }}\n{}", HDR, body, cmds);
        let dir = root.join("table/src");
        write_files(&dir, &[("lib.rs".to_string(), src)]);
        let none = generate(&dir, &root.join("table/out_none"), "none");
        let zod = generate(&dir, &root.join("table/out_zod"), "zod");
        for (f, rust, want) in &table {
            rep.case("field_types_follow_the_table", &format!("pub {}: {}", f, rust), &|| {
                let t = none.as_ref().map_err(|e| e.clone())?.get("types.ts").ok_or("no types.ts")?;
                let head = "export interface Table {";
                let st = t.find(head).ok_or("Table is not declared")? + head.len();
                for l in t[st..].lines() {
                    let l = l.trim();
                    if l.starts_with('}') { break; }
                    if let Some(rest) = l.strip_prefix(&format!("{}:", f)).or_else(|| l.strip_prefix(&format!("{}?:", f))) {
                        let got = rest.trim().trim_end_matches(';').trim();
                        return if got == *want { Ok(got.to_string()) } else { Err(format!("`{}` is declared as `{}`, serde's JSON for it is described by `{}`", rust, got, want)) };
                    }
                }
                Err(format!("Table has no key {}", f))
            });
        }
        for (mname, res) in [("none", &none), ("zod", &zod)] {
            for (n, rust, want) in &returns {
                rep.case("return_types_follow_the_table", &format!("fn {}() -> {} mode={}", n, rust, mname), &|| {
                    let c = res.as_ref().map_err(|e| e.clone())?.get("commands.ts").ok_or("no commands.ts")?;
                    let camel = lower_camel(n);
                    let st = c.find(&format!("export async function {}(", camel)).ok_or(format!("no wrapper {}", camel))?;
                    let line = c[st..].lines().next().unwrap_or("");
                    let p = line.rfind("): Promise<").ok_or("no Promise<..> return type")? + "): Promise<".len();
                    let got = line[p..].trim_end().trim_end_matches('{').trim_end().trim_end_matches('>');
                    // trim_end_matches removed every trailing '>': compare modulo that
                    if got == want.trim_end_matches('>') { Ok(got.to_string()) } else { Err(format!("`{}` is returned as `Promise<{}`, expected `Promise<{}>`", rust, got, want)) }
                });
            }
            rep.case("generated_files_are_lexically_wellformed", &format!("project=table mode={}", mname), &|| lexical_wellformed(res.as_ref().map_err(|e| e.clone())?));
            rep.case("type_references_resolve", &format!("project=table mode={}", mname), &|| references_resolve(res.as_ref().map_err(|e| e.clone())?, &["Leaf", "Table"]));
        }
        rep.case("both_modes_same_primitive_kind", "struct Table", &|| {
            let n = none.as_ref().map_err(|e| e.clone())?.get("types.ts").ok_or("no types.ts (none)")?;
            let z = zod.as_ref().map_err(|e| e.clone())?.get("types.ts").ok_or("no types.ts (zod)")?;
            let plain = object_entries(n, "Table", false).ok_or("UNPARSED: plain declaration of Table")?;
            for (k, v) in plain {
                let sch = zod_field(z, "Table", k.trim_matches('"')).ok_or(format!("TableSchema has no key {}", k))?;
                let kind = |needle: &[&str]| needle.iter().any(|x| sch.starts_with(x));
                let ok = match v.as_str() { "number" => kind(&["z.number()", "z.coerce.number()"]), "string" => kind(&["z.string()", "z.coerce.string()"]), "boolean" => kind(&["z.boolean()", "z.coerce.boolean()"]), _ => true };
                if !ok { return Err(format!("Table.{} is declared `{}` in plain mode but its schema is `{}`", k, v, sch)); }
            }
            Ok("ok".into())
        });
        // C10: a key may be left out in one mode iff it may be left out in the other
        let opt_fields = ["opt", "ov", "ot1", "s", "v", "mo"];
        for f in opt_fields {
            rep.case("both_modes_same_optionality", &format!("Table.{}", f), &|| {
                let n = none.as_ref().map_err(|e| e.clone())?.get("types.ts").ok_or("no types.ts (none)")?;
                let z = zod.as_ref().map_err(|e| e.clone())?.get("types.ts").ok_or("no types.ts (zod)")?;
                let head = "export interface Table {";
                let st = n.find(head).ok_or("Table is not declared")? + head.len();
                let plain_opt = n[st..].lines().take_while(|l| !l.trim().starts_with('}')).any(|l| l.trim().starts_with(&format!("{}?:", f)));
                let sch = zod_field(z, "Table", f).ok_or(format!("TableSchema has no key {}", f))?;
                let zod_opt = sch.ends_with(".optional()") || sch.ends_with(".nullish()") || sch.contains(".optional().") && sch.ends_with(")");
                if plain_opt == zod_opt { Ok(format!("{}", plain_opt)) } else { Err(format!("plain mode omittable: {}, zod schema `{}`", plain_opt, sch)) }
            });
        }
    }

    // ============================================================ C18 / C02: a project whose foreign types are covered by type mappings
    {
        let src = format!("{}use tauri::Emitter;\nuse tauri::ipc::Channel;\n\
            #[derive(Serialize, Deserialize, Clone)]\npub struct Account {{ pub id: Uuid, pub seen: Vec<Option<Timestamp>>, pub by_id: HashMap<Uuid, Timestamp>, pub pair: (Uuid, Timestamp), pub owner: Option<Uuid> }}\n\
            #[tauri::command]\npub fn lookup(id: Uuid, at: Option<Timestamp>, on_tick: Channel<Timestamp>) -> Result<Option<Uuid>, String> {{ Ok(None) }}\n\
            #[tauri::command]\npub fn accounts(app: tauri::AppHandle, first: Uuid) -> Vec<Account> {{ app.emit(\"account:seen\", first).ok(); vec![] }}\n\
            #[tauri::command]\npub fn ids(on_id: Channel<Vec<Uuid>>) -> HashMap<Uuid, Vec<Timestamp>> {{ todo!() }}\n\
            #[derive(Serialize, Deserialize, Clone)]\npub struct TickProgress {{ pub step: TickStep }}\n#[derive(Serialize, Deserialize, Clone)]\npub struct TickStep {{ pub n: u32 }}\n\
            pub fn tick(app: &tauri::AppHandle, p: TickProgress) {{ app.emit(\"account:tick\", p).ok(); }}\n\
            pub fn stamped(app: &tauri::AppHandle, at: ext::Stamp, many: Vec<ext::Stamp>) {{ app.emit(\"account:stamped\", at).ok(); app.emit(\"account:stamps\", many).ok(); }}\n\
            pub fn touch(app: &tauri::AppHandle, when: Option<Timestamp>) {{ app.emit(\"account:touched\", when).ok(); }}\n\
            pub fn mark_a(app: &tauri::AppHandle, at: Timestamp) {{ app.emit(\"account:marked\", at).ok(); }}\n\
            pub fn mark_b(app: &tauri::AppHandle, at: u64) {{ app.emit(\"account:marked\", at).ok(); }}\n\
            pub fn mark_c(app: &tauri::AppHandle, id: Uuid, name: String) {{ app.emit(\"account:named\", id).ok(); app.emit(\"account:named\", name).ok(); }}\n\
            #[derive(Serialize, Deserialize, Clone)]\npub struct Stamped {{ pub at: ext::Stamp, pub all: Vec<ext::Stamp>, pub by: HashMap<String, Option<ext::Stamp>>, pub plain_by: HashMap<String, ext::Stamp>, pub pos: (f64, f64), pub span: Span, pub spans: Vec<Span> }}\n\
            #[tauri::command]\npub fn spans(a: ext::Span, b: Span) -> Span {{ todo!() }}\n#[tauri::command]\npub fn spans_rev(b: Span, a: ext::Span) -> ext::Span {{ todo!() }}\n\
            #[derive(Serialize, Deserialize, Clone)]\npub struct Span {{ pub secs: u32 }}\n\
            #[derive(Serialize, Deserialize, Clone)]\n#[serde(into = \"u64\", try_from = \"u64\")]\npub struct LocalStamp {{ pub secs: u64, pub zone: LocalZone, pub parts: Vec<LocalParts> }}\n#[derive(Serialize, Deserialize, Clone)]\npub struct LocalZone {{ pub offset: i32 }}\n#[derive(Serialize, Deserialize, Clone)]\npub struct LocalParts {{ pub hi: u32, pub lo: LocalPartsLow }}\n#[derive(Serialize, Deserialize, Clone)]\npub struct LocalPartsLow {{ pub lo: u32 }}\n\
            #[derive(Serialize, Deserialize, Clone)]\npub struct Visit {{ pub big: i128, pub bigs: Vec<Option<i128>>, pub blob: Vec<u8>, pub at: LocalStamp, pub earlier: Vec<Option<LocalStamp>>, #[serde(with = \"stamp_fmt\")] pub due: Timestamp, #[serde(serialize_with = \"ser_ids\", deserialize_with = \"de_ids\")] pub ids: Vec<Uuid>, #[serde(default, with = \"opt_fmt\")] pub paid: Option<Timestamp> }}\n\
            #[tauri::command]\npub fn visits(first: LocalStamp, zone: LocalZone) -> Vec<Visit> {{ vec![] }}\n\
            #[derive(Serialize, Deserialize, Clone)]\npub struct Article3 {{ pub created: Stamp3, pub title: String }}\n#[derive(Serialize, Deserialize, Clone)]\npub struct Stamp3 {{ pub batch: Batch3 }}\n#[derive(Serialize, Deserialize, Clone)]\npub struct Batch3 {{ pub items: Vec<Article3> }}\n#[tauri::command]\npub fn batch3() -> Batch3 {{ todo!() }}\n\
            #[derive(Serialize, Deserialize, Clone)]\npub struct Cursor {{ pub pos: u32 }}\n#[tauri::command]\npub fn page(after: Option<Cursor>, before: Option<Vec<Cursor>>, limit: u32, from: Cursor) -> u32 {{ 0 }}\n\
            #[tauri::command]\npub fn deep(shallow: Vec<Vec<Vec<Timestamp>>>, levels: Vec<Vec<Vec<Vec<Vec<Vec<Vec<Vec<Vec<Vec<Vec<Vec<Vec<Vec<Vec<Vec<Vec<Vec<Vec<Vec<Vec<Vec<Vec<Vec<Vec<Vec<Vec<Vec<Vec<Vec<Vec<Vec<Vec<Vec<Vec<Vec<Vec<Vec<Vec<Vec<Timestamp>>>>>>>>>>>>>>>>>>>>>>>>>>>>>>>>>>>>>>>>) -> u32 {{ 0 }}\n\
            #[tauri::command]\npub fn stamps(s: Stamped, first: ext::Stamp, on_stamp: Channel<ext::Stamp>, on_many: Channel<Vec<Option<ext::Stamp>>>) -> Result<Vec<ext::Stamp>, String> {{ Ok(vec![]) }}\n", HDR);
        let dir = root.join("mapped/src");
        write_files(&dir, &[("lib.rs".to_string(), src)]);
        for mode in ["none", "zod"] {
            let out = root.join(format!("mapped/out_{}", mode));
            let _ = fs::remove_dir_all(&out);
            let mut cfg = GenerateConfig::default();
            cfg.project_path = dir.to_string_lossy().to_string();
            cfg.output_path = out.to_string_lossy().to_string();
            cfg.validation_library = mode.to_string();
            cfg.type_mappings = Some([("Uuid".to_string(), "string".to_string()), ("Timestamp".to_string(), "number".to_string()), ("ext::Stamp".to_string(), "number".to_string()), ("ext::Span".to_string(), "number".to_string()), ("LocalStamp".to_string(), "number".to_string()), ("Option<Cursor>".to_string(), "string".to_string()), ("Stamp3".to_string(), "string".to_string()), ("HashMap<String,ext::Stamp>".to_string(), "string".to_string()), ("(f64,f64)".to_string(), "string".to_string()), ("i128".to_string(), "string".to_string()), ("Vec<u8>".to_string(), "string".to_string())].into_iter().collect());
            let res: Result<BTreeMap<String, String>, String> = generate_from_config(&cfg).map_err(|e| format!("generate_from_config returned Err: {}", e)).and_then(|_| {
                let mut m = BTreeMap::new();
                for e in fs::read_dir(&out).map_err(|e| e.to_string())?.flatten() { if e.path().is_file() { m.insert(e.file_name().to_string_lossy().to_string(), fs::read_to_string(e.path()).unwrap_or_default()); } }
                Ok(m)
            });
            rep.case("mapped_names_never_appear", &format!("project=mapped mode={}", mode), &|| {
                let files = res.as_ref().map_err(|e| e.clone())?;
                for (f, text) in files {
                    if !f.ends_with(".ts") { continue; }
                    for (ln, l) in text.lines().enumerate() {
                        if l.trim_start().starts_with("//") || l.trim_start().starts_with('*') || l.trim_start().starts_with("/*") { continue; }
                        for n in ["Uuid", "Timestamp", "Stamp", "ext", "LocalStamp", "LocalStampSchema"] { // `Span` is a project type of its own: the path-keyed mapping ext::Span does not concern it
                            let mut from = 0;
                            while let Some(p) = l[from..].find(n) {
                                let a = from + p; let b = a + n.len();
                                let before_ok = a == 0 || !l[..a].chars().last().map_or(false, |c| c.is_alphanumeric() || c == '_');
                                let after_ok = b >= l.len() || !l[b..].chars().next().map_or(false, |c| c.is_alphanumeric() || c == '_');
                                if before_ok && after_ok { return Err(format!("{}:{} the mapped type {} is referred to by name: `{}`", f, ln + 1, n, l.trim())); }
                                from = b;
                            }
                        }
                    }
                }
                Ok("ok".into())
            });
            rep.case("type_references_resolve", &format!("project=mapped mode={}", mode), &|| references_resolve(res.as_ref().map_err(|e| e.clone())?, &["Account", "Stamped", "Span", "Visit", "LocalZone", "Article3", "Batch3"]));
            rep.case("unmapped_types_are_rendered_as_without_the_mapping", &format!("project=mapped mode={} set of declared names", mode), &|| {
                let files = res.as_ref().map_err(|e| e.clone())?;
                let out2 = root.join(format!("mapped/out_plain2_{}", mode));
                let _ = fs::remove_dir_all(&out2);
                let mut cfg2 = GenerateConfig::default();
                cfg2.project_path = dir.to_string_lossy().to_string();
                cfg2.output_path = out2.to_string_lossy().to_string();
                cfg2.validation_library = mode.to_string();
                generate_from_config(&cfg2).map_err(|e| format!("generate_from_config (no mapping) returned Err: {}", e))?;
                let plain = exports_of(&fs::read_to_string(out2.join("types.ts")).map_err(|e| e.to_string())?);
                let with = exports_of(files.get("types.ts").ok_or("no types.ts")?);
                for n in &plain {
                    if ["Stamp3", "Stamp3Schema"].contains(&n.as_str()) { continue; }
                    if ["LocalStamp", "LocalStampSchema", "LocalZone", "LocalZoneSchema", "LocalParts", "LocalPartsSchema", "LocalPartsLow", "LocalPartsLowSchema"].contains(&n.as_str()) { continue; } // the mapped project type and what only it reaches
                    if !with.contains(n) { return Err(format!("`{}` is declared without a mapping table but not with one, although the table does not name it", n)); }
                }
                Ok(format!("{} names", plain.len()))
            });
            // C18 / C13: a mapping keyed by a path (ext::Span) and the project's own type of that last name (Span) stay apart, in whichever order they are met
            rep.case("path_keyed_mapping_and_project_type_stay_apart", &format!("project=mapped mode={} fn spans(a: ext::Span, b: Span) -> Span; fn spans_rev(b: Span, a: ext::Span) -> ext::Span", mode), &|| {
                let files = res.as_ref().map_err(|e| e.clone())?;
                let t = files.get("types.ts").ok_or("no types.ts")?;
                for obj in ["SpansParams", "SpansRevParams"] {
                    let entries = object_entries(t, obj, mode == "zod").ok_or(format!("UNPARSED: {} not found", obj))?;
                    let get = |k: &str| entries.iter().find(|(key, _)| key.trim_end_matches('?') == k).map(|(_, v)| v.trim_end_matches(',').trim_end_matches(';').to_string()).ok_or(format!("UNPARSED: {} has no key {}", obj, k));
                    let (a, b) = (get("a")?, get("b")?);
                    if !(a.contains("number") && !a.contains("Span")) { return Err(format!("{}.a (ext::Span, mapped to number) is rendered `{}`", obj, a)); }
                    if !b.contains("Span") { return Err(format!("{}.b (the project's own Span) is rendered `{}`", obj, b)); }
                }
                let c = files.get("commands.ts").ok_or("no commands.ts")?;
                let line = |f: &str| c.lines().find(|l| l.contains(&format!("function {}(", f))).map(|l| l.to_string()).ok_or(format!("UNPARSED: no function {}", f));
                if !line("spans")?.contains("types.Span") { return Err(format!("spans returns the project's Span: `{}`", line("spans")?.trim())); }
                if line("spansRev")?.split("Promise<").nth(1).map_or(true, |r| r.contains("Span")) { return Err(format!("spans_rev returns ext::Span, mapped to number: `{}`", line("spansRev")?.trim())); }
                Ok("ok".into())
            });
            // C04: a key may be left out iff the Rust parameter is an Option, also when the whole Option type is a mapping key
            rep.case("omittable_keys_are_the_option_parameters", &format!("project=mapped mode={} fn page(after: Option<Cursor>, before: Option<Vec<Cursor>>, limit: u32, from: Cursor) with the mapping key Option<Cursor>", mode), &|| {
                let files = res.as_ref().map_err(|e| e.clone())?;
                let t = files.get("types.ts").ok_or("no types.ts")?;
                for (k, opt) in [("after", true), ("before", true), ("limit", false), ("from", false)] {
                    let got = if mode == "zod" {
                        let sch = zod_field(t, "PageParams", k).ok_or(format!("UNPARSED: PageParamsSchema has no key {}", k))?;
                        sch.ends_with(".optional()") || sch.ends_with(".nullish()")
                    } else {
                        let raw = raw_object_keys_with_marks(t, "PageParams").ok_or("UNPARSED: PageParams not found")?;
                        raw.iter().any(|r| r == &format!("{}?", k))
                    };
                    if got != opt { return Err(format!("key `{}` of PageParams {} be left out, the Rust parameter is {}an Option", k, if got { "may" } else { "may not" }, if opt { "" } else { "not " })); }
                }
                Ok("ok".into())
            });
            // C18 / C05: the translation is compositional at any depth - forty levels of Vec around a mapped type are forty array levels around its target
            rep.case("mapped_type_is_mapped_at_any_depth", &format!("project=mapped mode={} fn deep(shallow: Vec<Vec<Vec<Timestamp>>>, levels: Vec^40<Timestamp>)", mode), &|| {
                let files = res.as_ref().map_err(|e| e.clone())?;
                let t = files.get("types.ts").ok_or("no types.ts")?;
                let entries = object_entries(t, "DeepParams", mode == "zod").ok_or("UNPARSED: DeepParams not found")?;
                let get = |k: &str| entries.iter().find(|(key, _)| key.trim_end_matches('?') == k).map(|(_, v)| v.trim_end_matches(',').trim_end_matches(';').to_string()).ok_or(format!("UNPARSED: DeepParams has no key {}", k));
                let (shallow, levels) = (get("shallow")?, get("levels")?);
                let want = if mode == "zod" {
                    let inner = shallow.strip_prefix("z.array(z.array(z.array(").and_then(|r| r.strip_suffix(")))")).ok_or(format!("UNPARSED: shallow is `{}`", shallow))?;
                    format!("{}{}{}", "z.array(".repeat(40), inner, ")".repeat(40))
                } else {
                    let inner = shallow.strip_suffix("[][][]").ok_or(format!("UNPARSED: shallow is `{}`", shallow))?;
                    format!("{}{}", inner, "[]".repeat(40))
                };
                if levels != want { return Err(format!("forty levels deep the mapped type is rendered `{}`, three levels deep `{}`", levels.chars().take(120).collect::<String>(), shallow)); }
                Ok(shallow)
            });
            // C07: what only the fields of a mapped project type mention is reachable from nothing in the bindings
            rep.case("types_behind_a_mapped_type_are_not_declared", &format!("project=mapped mode={} LocalStamp (mapped to number) {{ parts: Vec<LocalParts> }}, LocalParts {{ lo: LocalPartsLow }}", mode), &|| {
                let files = res.as_ref().map_err(|e| e.clone())?;
                let with = exports_of(files.get("types.ts").ok_or("no types.ts")?);
                for n in ["LocalParts", "LocalPartsSchema", "LocalPartsLow", "LocalPartsLowSchema"] {
                    if with.contains(n) { return Err(format!("types.ts declares `{}`, which only the mapped type LocalStamp reaches: no command, channel, event or declared type refers to it", n)); }
                }
                if !with.contains("LocalZone") && !with.contains("LocalZoneSchema") { return Err("UNPARSED: LocalZone (a parameter of `visits`) is not declared".into()); }
                Ok("ok".into())
            });
            if mode == "zod" { rep.case("schemas_defined_before_use", "project=mapped", &|| schemas_defined_before_use(res.as_ref().map_err(|e| e.clone())?.get("types.ts").ok_or("no types.ts")?)); }
            // C18: a type the mapping does not name is rendered exactly as without the mapping
            rep.case("unmapped_types_are_rendered_as_without_the_mapping", &format!("project=mapped mode={} type Span (the table has the key ext::Span, which names another type)", mode), &|| {
                let files = res.as_ref().map_err(|e| e.clone())?;
                let out2 = root.join(format!("mapped/out_plain_{}", mode));
                let _ = fs::remove_dir_all(&out2);
                let mut cfg2 = GenerateConfig::default();
                cfg2.project_path = dir.to_string_lossy().to_string();
                cfg2.output_path = out2.to_string_lossy().to_string();
                cfg2.validation_library = mode.to_string();
                generate_from_config(&cfg2).map_err(|e| format!("generate_from_config (no mapping) returned Err: {}", e))?;
                let plain = fs::read_to_string(out2.join("types.ts")).map_err(|e| e.to_string())?;
                let with = files.get("types.ts").ok_or("no types.ts")?;
                let block = |t: &str| -> Option<String> {
                    let head = if mode == "zod" { "export const SpanSchema" } else { "export interface Span " };
                    let st = t.find(head)?;
                    let en = t[st..].find("\n}").map(|e| st + e + 2)?;
                    Some(t[st..en].to_string())
                };
                let a = block(&plain).ok_or("UNPARSED: without a mapping table types.ts does not declare Span in the expected form")?;
                match block(with) {
                    None => Err("with the mapping table types.ts does not declare Span at all; without it, it does".to_string()),
                    Some(b) if a != b => Err(format!("Span is declared differently with the mapping table: `{}` vs `{}`", b.replace('\n', " "), a.replace('\n', " "))),
                    _ => Ok("ok".into()),
                }
            });
            rep.case("mapped_fields_have_the_target_schema", &format!("project=mapped mode={}", mode), &|| {
                let files = res.as_ref().map_err(|e| e.clone())?;
                let t = files.get("types.ts").ok_or("no types.ts")?;
                // (struct, key, text the declaration / schema of the key must be)
                let want: Vec<(&str, &str, &str, &str)> = vec![("Stamped", "at", "number", "z.coerce.number()|z.number()"), ("Stamped", "all", "number[]", "z.array(z.coerce.number())|z.array(z.number())"),
                    ("Stamped", "span", "Span", "SpanSchema"), ("Stamped", "spans", "Span[]", "z.array(SpanSchema)"), ("Account", "id", "string", "z.string()|z.coerce.string()"),
                    ("Visit", "at", "number", "z.coerce.number()|z.number()"), ("Visit", "due", "number", "z.coerce.number()|z.number()"), ("Visit", "big", "string", "z.string()|z.coerce.string()"), ("Visit", "blob", "string", "z.string()|z.coerce.string()"), ("Visit", "ids", "string[]", "z.array(z.string())|z.array(z.coerce.string())")];
                for (sname, key, plain, zods) in want {
                    if mode == "zod" {
                        let got = zod_field(t, sname, key).ok_or(format!("UNPARSED: {}Schema.{}", sname, key))?;
                        if !zods.split('|').any(|z| got == z) { return Err(format!("{}.{}: schema `{}`, the mapping / the project type requires one of `{}`", sname, key, got, zods)); }
                    } else {
                        let got = object_entries(t, sname, false).ok_or(format!("UNPARSED: {}", sname))?.into_iter().find(|(k, _)| k == key).map(|(_, v)| v).ok_or(format!("{} has no key {}", sname, key))?;
                        if got != plain { return Err(format!("{}.{}: declared `{}`, expected `{}`", sname, key, got, plain)); }
                    }
                }
                Ok("ok".into())
            });
            rep.case("mapped_payloads_merge_as_their_targets", &format!("project=mapped mode={}", mode), &|| {
                let files = res.as_ref().map_err(|e| e.clone())?;
                let ev = files.get("events.ts").ok_or("no events.ts")?;
                for (name, ty) in [("account:marked", "number"), ("account:named", "string"), ("account:seen", "string"), ("account:touched", "number | null"), ("account:stamped", "number"), ("account:stamps", "number[]")] {
                    let needle = format!(">('{}',", name);
                    let p = ev.find(&needle).ok_or(format!("UNPARSED: no listener subscribed to '{}' in the expected form", name))?;
                    let line_start = ev[..p].rfind('\n').map_or(0, |i| i + 1);
                    let got = ev[line_start..p].trim().strip_prefix("return listen<").ok_or("UNPARSED: unexpected listen line")?;
                    if got != ty { return Err(format!("listener of '{}' takes `{}`; every site emits a value that the mapping renders as `{}`", name, got, ty)); }
                }
                Ok("ok".into())
            });
            rep.case("generated_files_are_lexically_wellformed", &format!("project=mapped mode={}", mode), &|| lexical_wellformed(res.as_ref().map_err(|e| e.clone())?));
        }
    }
    // ============================================================ C13 / C18: a mapping table with a bare generic name and one of its instances gives the same output on every run
    {
        let src = format!("{}#[derive(Serialize, Deserialize, Clone)]\npub struct Meeting {{ pub starts_at: DateTime<Utc>, pub ends_at: Option<DateTime<Utc>>, pub local: DateTime<Local>, pub title: String }}\n\
            #[tauri::command]\npub fn next_meeting(after: DateTime<Utc>) -> Meeting {{ todo!() }}\n", HDR);
        let dir = root.join("overlap/src");
        write_files(&dir, &[("lib.rs".to_string(), src)]);
        for mode in ["none", "zod"] {
            rep.case("overlapping_mapping_keys_are_deterministic", &format!("project=overlap mode={} keys DateTime, DateTime<Utc>, DateTime<Local>, 16 runs", mode), &|| {
                let mut first: Option<String> = None;
                for run in 0..16 {
                    let out = root.join(format!("overlap/out_{}_{}", mode, run));
                    let _ = fs::remove_dir_all(&out);
                    let mut cfg = GenerateConfig::default();
                    cfg.project_path = dir.to_string_lossy().to_string();
                    cfg.output_path = out.to_string_lossy().to_string();
                    cfg.validation_library = mode.to_string();
                    // a fresh table per run: every HashMap has its own iteration order
                    let mut table = std::collections::HashMap::new();
                    for (k, v) in [("DateTime<Utc>", "Date"), ("DateTime", "string"), ("DateTime<Local>", "number"), ("Date", "string"), ("Utc", "string")] { table.insert(k.to_string(), v.to_string()); }
                    cfg.type_mappings = Some(table);
                    generate_from_config(&cfg).map_err(|e| format!("generate_from_config returned Err: {}", e))?;
                    let t = without_timestamps(&fs::read_to_string(out.join("types.ts")).map_err(|e| e.to_string())?);
                    match &first { None => first = Some(t), Some(f) if *f != t => return Err(format!("run {} produced a different types.ts than run 0 for identical sources and configuration", run)), _ => {} }
                }
                let t = first.unwrap_or_default();
                let got = if mode == "zod" { zod_field(&t, "Meeting", "starts_at") } else { object_entries(&t, "Meeting", false).and_then(|es| es.into_iter().find(|(k, _)| k == "starts_at").map(|(_, v)| v.trim_end_matches(';').to_string())) }.ok_or("UNPARSED: Meeting.starts_at not found")?;
                if mode == "none" && got != "Date" { return Err(format!("Meeting.starts_at is `{}`; the table maps DateTime<Utc> to Date", got)); }
                if mode == "zod" && !got.contains("Date") { return Err(format!("Meeting.starts_at has the schema `{}`; the table maps DateTime<Utc> to Date", got)); }
                Ok(got)
            });
        }
    }
    // ============================================================ C13 / C07: the same project generated 16 times (fresh hash seeds): foreign names next to nested project types
    {
        let src = format!("{}#[derive(Serialize, Deserialize)]\npub struct Album {{ pub id: Uuid, pub cover: Cover, pub folder: PathBuf }}\n#[derive(Serialize, Deserialize)]\npub struct Cover {{ pub url: String }}\n\
            #[derive(Serialize, Deserialize)]\npub struct Track {{ pub id: Uuid, pub lyrics: Lyrics, pub at: Timestamp }}\n#[derive(Serialize, Deserialize)]\npub struct Lyrics {{ pub text: String }}\n#[derive(Serialize, Deserialize)]\npub struct LoadError {{ pub code: u32 }}\n\
            #[tauri::command]\npub fn album(id: Uuid, from: PathBuf) -> Result<Album, LoadError> {{ todo!() }}\n#[tauri::command]\npub fn track(id: Uuid, at: Timestamp) -> Result<Track, LoadError> {{ todo!() }}\n", HDR);
        let dir = root.join("repeat/src");
        write_files(&dir, &[("lib.rs".to_string(), src)]);
        for mode in ["none", "zod"] {
            rep.case("repeated_generation_is_identical", &format!("project=repeat mode={} 16 runs", mode), &|| {
                let mut first: Option<BTreeMap<String, String>> = None;
                for run in 0..16 {
                    let out = root.join(format!("repeat/out_{}_{}", mode, run));
                    let _ = fs::remove_dir_all(&out);
                    let mut cfg = GenerateConfig::default();
                    cfg.project_path = dir.to_string_lossy().to_string();
                    cfg.output_path = out.to_string_lossy().to_string();
                    cfg.validation_library = mode.to_string();
                    cfg.type_mappings = Some([("Uuid", "string"), ("PathBuf", "string"), ("Timestamp", "number")].iter().map(|(a, b)| (a.to_string(), b.to_string())).collect());
                    generate_from_config(&cfg).map_err(|e| format!("generate_from_config returned Err: {}", e))?;
                    let mut m = BTreeMap::new();
                    for e in fs::read_dir(&out).map_err(|e| e.to_string())?.flatten() { if e.path().extension().map_or(false, |x| x == "ts") { m.insert(e.file_name().to_string_lossy().to_string(), without_timestamps(&fs::read_to_string(e.path()).unwrap_or_default())); } }
                    let exp = exports_of(m.get("types.ts").ok_or("no types.ts")?);
                    for n in ["Album", "Cover", "Track", "Lyrics"] { if !exp.contains(n) && !exp.contains(&format!("{}Schema", n)) { return Err(format!("run {}: {} is reachable from a command but not declared", run, n)); } }
                    match &first { None => first = Some(m), Some(f) if *f != m => return Err(format!("run {} produced different files than run 0 for identical sources and configuration", run)), _ => {} }
                }
                Ok("ok".into())
            });
        }
    }
    // ============================================================ C07 (known finding): tuple structs are project-defined serde structs too
    {
        let src = format!("{}#[derive(Serialize, Deserialize, Clone)]\npub struct Wrapper(pub String);\n#[derive(Serialize, Deserialize, Clone)]\npub struct Pair(pub u32, pub String);\n\
            #[derive(Serialize, Deserialize, Clone)]\npub struct Holder {{ pub w: Wrapper, pub p: Vec<Pair> }}\n#[tauri::command]\npub fn hold(h: Holder) -> u32 {{ 0 }}\n#[tauri::command]\npub fn by_wrapper(Wrapper(inner): Wrapper, page_no: u32) -> u32 {{ 0 }}\n", HDR);
        let dir = root.join("tuple_structs/src");
        write_files(&dir, &[("lib.rs".to_string(), src)]);
        for mode in ["none", "zod"] {
            let files = generate(&dir, &root.join(format!("tuple_structs/out_{}", mode)), mode);
            rep.case("invoke_keys_in_generated_bindings", &format!("fn by_wrapper(Wrapper(inner): Wrapper, page_no: u32) mode={}", mode), &|| {
                let files = files.as_ref().map_err(|e| e.clone())?;
                let mut keys = object_keys(files.get("types.ts").ok_or("no types.ts")?, "ByWrapperParams", mode == "zod").ok_or("UNPARSED: ByWrapperParams not found")?;
                keys.sort();
                if keys != ["pageNo", "wrapper"] { return Err(format!("keys {:?}; Tauri's command macro reads [pageNo, wrapper]", keys)); }
                Ok(format!("{:?}", keys))
            });
            rep.case("reachable_tuple_structs_are_declared", &format!("project=tuple_structs mode={}", mode), &|| {
                let files = files.as_ref().map_err(|e| e.clone())?;
                let exp = exports_of(files.get("types.ts").ok_or("no types.ts")?);
                for n in ["Holder", "Wrapper", "Pair"] {
                    if !exp.contains(n) && !exp.contains(&format!("{}Schema", n)) { return Err(format!("{} is a serde struct reachable from command `hold` but types.ts does not declare it", n)); }
                }
                Ok("ok".into())
            });
        }
    }
    // ============================================================ C07 (known finding): a struct with a type parameter, used with arguments, is a project-defined serde struct too
    {
        let src = format!("{}#[derive(Serialize, Deserialize, Clone)]\npub struct Entry {{ pub id: u32 }}\n\
            #[derive(Serialize, Deserialize, Clone)]\npub struct Page<T> {{ pub items: Vec<T>, pub total: u32 }}\n\
            #[tauri::command]\npub fn first_page() -> Page<Entry> {{ todo!() }}\n", HDR);
        let dir = root.join("generic_structs/src");
        write_files(&dir, &[("lib.rs".to_string(), src)]);
        for mode in ["none", "zod"] {
            let files = generate(&dir, &root.join(format!("generic_structs/out_{}", mode)), mode);
            rep.case("reachable_generic_structs_are_declared", &format!("project=generic_structs mode={}", mode), &|| {
                let files = files.as_ref().map_err(|e| e.clone())?;
                let exp = exports_of(files.get("types.ts").ok_or("no types.ts")?);
                for n in ["Page", "Entry"] {
                    if !exp.contains(n) && !exp.contains(&format!("{}Schema", n)) { return Err(format!("{} is a serde struct reachable from command `first_page` but types.ts does not declare it", n)); }
                }
                Ok("ok".into())
            });
            rep.case("generated_files_are_lexically_wellformed", &format!("project=generic_structs mode={}", mode), &|| lexical_wellformed(files.as_ref().map_err(|e| e.clone())?));
        }
    }
    // ============================================================ C09 / C07 / C10 / C01: a type shared by an event, a parameter and a field; foreign and project types in one field; regeneration
    {
        let src = format!("{}use tauri::Emitter;\nuse tauri::ipc::Channel;\n\
            #[derive(Serialize, Deserialize, Clone)]\npub enum Priority {{ Low, High }}\n\
            #[derive(Serialize, Deserialize, Clone)]\npub struct Task {{ pub title: String, pub priority: Priority }}\n\
            #[derive(Serialize, Deserialize, Clone)]\npub struct Board {{ pub tasks: Vec<Task>, pub archive: HashMap<String, Vec<Task>> }}\n\
            #[derive(Serialize, Deserialize, Clone)]\npub struct Attachment {{ pub name: String }}\n\
            #[derive(Serialize, Deserialize, Clone)]\npub struct Revision {{ pub n: u32 }}\n\
            #[derive(Serialize, Deserialize, Clone)]\npub struct Author {{ pub name: String }}\n\
            #[derive(Serialize, Deserialize, Clone)]\npub struct Doc {{ pub files: HashMap<Uuid, Attachment>, pub revs: Vec<(Instant, Revision)>, pub who: (PathBuf, Author), pub note: Option<Stamp>, pub members: Option<HashMap<String, Member>>, pub shifts: Vec<HashMap<String, Shift>>, pub tags: Option<std::collections::BTreeSet<Tag>>, pub audit: Vec<AuditSchema>, pub last: Option<Audit> }}\n\
            #[derive(Serialize, Deserialize, Clone)]\npub struct Member {{ pub id: u32 }}\n\
            #[derive(Serialize, Deserialize, Clone)]\npub struct Shift {{ pub hours: u32 }}\n\
            #[derive(Serialize, Deserialize, Clone, PartialEq, Eq, PartialOrd, Ord)]\npub enum Tag {{ Red, Blue }}\n\
            #[derive(Serialize, Deserialize, Clone)]\npub struct AuditSchema {{ pub tables: Vec<String>, pub version: u32 }}\n\
            #[derive(Serialize, Deserialize, Clone)]\npub struct Audit {{ pub id: u32, pub path: String }}\n\
            #[derive(Serialize, Deserialize, Clone)]\npub struct User {{ pub name: String }}\n\
            #[derive(Serialize, Deserialize, Clone)]\npub struct AdminUser {{ pub user: User, pub level: u32 }}\n\
            #[derive(Serialize, Deserialize, Clone)]\npub struct Item {{ pub sku: String }}\n\
            #[derive(Serialize, Deserialize, Clone)]\npub struct OrderItem {{ pub item: Item, pub qty: u32 }}\n\
            #[derive(Serialize, Deserialize, Clone)]\npub struct Cart {{ pub items: Vec<OrderItem>, pub owner: AdminUser }}\n\
            #[cfg(not(test))]\n#[derive(Serialize, Deserialize, Clone)]\npub struct RealOnly {{ pub n: u32 }}\n\
            #[cfg(any(test, debug_assertions))]\n#[derive(Serialize, Deserialize, Clone)]\npub struct DebugInfo {{ pub real: RealOnly }}\n\
            #[cfg(feature = \"latest\")]\n#[derive(Serialize, Deserialize, Clone)]\npub enum Gate {{ Open, Closed }}\n\
            #[tauri::command]\npub fn cart(c: Cart, d: DebugInfo, g: Gate) -> u32 {{ 0 }}\n\
            #[tauri::command]\npub fn add_task(app: tauri::AppHandle, task: Task) -> Board {{ app.emit(\"task-added\", task.clone()).ok(); todo!() }}\n\
            #[tauri::command]\npub fn load_doc(id: u32, retries: Option<u32>, on_progress: Channel<u32>) -> Doc {{ todo!() }}\n\
            #[tauri::command]\npub fn boards() -> Vec<Board> {{ vec![] }}\n", HDR);
        let dir = root.join("shared/src");
        write_files(&dir, &[("lib.rs".to_string(), src)]);
        let tys = ["Priority", "Task", "Board", "Attachment", "Revision", "Author", "Doc", "Member", "Shift", "Tag", "AuditSchema", "Audit", "User", "AdminUser", "Item", "OrderItem", "Cart", "RealOnly", "DebugInfo", "Gate"];
        for mode in ["none", "zod"] {
            let files = generate(&dir, &root.join(format!("shared/out_{}", mode)), mode);
            rep.case("mentioned_project_types_are_declared", &format!("project=shared mode={}", mode), &|| {
                let files = files.as_ref().map_err(|e| e.clone())?;
                let exp = exports_of(files.get("types.ts").ok_or("no types.ts")?);
                for n in tys { if !exp.contains(n) && !exp.contains(&format!("{}Schema", n)) { return Err(format!("{} is reachable from a command but types.ts does not declare it", n)); } }
                types_module_is_closed(files, &tys)
            });
            rep.case("both_modes_reference_the_same_types", &format!("project=shared mode={}", mode), &|| {
                // C10: per key, the project types the plain declaration mentions are the ones whose schema constants the z.object mentions
                if mode != "zod" { return Ok("n/a".into()); }
                let z = files.as_ref().map_err(|e| e.clone())?.get("types.ts").ok_or("no types.ts")?.clone();
                let n = fs::read_to_string(root.join("shared/out_none/types.ts")).map_err(|e| e.to_string())?;
                let consts: BTreeSet<String> = z.lines().filter_map(|l| l.strip_prefix("export const ")).map(|r| r.chars().take_while(|c| c.is_alphanumeric() || *c == '_').collect::<String>()).collect();
                for sname in ["Doc", "Cart", "AdminUser", "OrderItem", "Board", "Task", "DebugInfo"] {
                    let plain = object_entries(&n, sname, false).ok_or(format!("UNPARSED: plain declaration of {}", sname))?;
                    let zod = object_entries(&z, sname, true).ok_or(format!("UNPARSED: z.object of {}", sname))?;
                    for ((kp, vp), (kz, vz)) in plain.iter().zip(zod.iter()) {
                        if kp.trim_matches('"') != kz.trim_matches('"') { return Err(format!("{}: key order differs ({} vs {})", sname, kp, kz)); }
                        let idents = |t: &str| -> BTreeSet<String> { let mut out = BTreeSet::new(); let cs: Vec<char> = t.chars().collect(); let mut i = 0; while i < cs.len() { if cs[i].is_alphabetic() || cs[i] == '_' { let st = i; while i < cs.len() && (cs[i].is_alphanumeric() || cs[i] == '_') { i += 1; } out.insert(cs[st..i].iter().collect::<String>()); } else { i += 1; } } out };
                        let want: BTreeSet<String> = idents(vp).into_iter().filter(|w| tys.contains(&w.as_str())).map(|w| format!("{}Schema", w)).collect();
                        let got: BTreeSet<String> = idents(vz).into_iter().filter(|w| w.ends_with("Schema") && (consts.contains(w) || tys.contains(&w.as_str()) || tys.contains(&w.trim_end_matches("Schema")))).collect();
                        if want != got { return Err(format!("{}.{}: the plain type `{}` mentions {:?}, the schema `{}` refers to {:?}", sname, kp, vp, want, vz, got)); }
                    }
                }
                Ok("ok".into())
            });
            rep.case("type_references_resolve", &format!("project=shared mode={}", mode), &|| references_resolve(files.as_ref().map_err(|e| e.clone())?, &tys));
            rep.case("generated_files_are_lexically_wellformed", &format!("project=shared mode={}", mode), &|| lexical_wellformed(files.as_ref().map_err(|e| e.clone())?));
            if mode == "zod" {
                rep.case("schemas_defined_before_use", "project=shared", &|| schemas_defined_before_use(files.as_ref().map_err(|e| e.clone())?.get("types.ts").ok_or("no types.ts")?));
                // C10: what the wrapper hands to safeParse is the whole declared parameter object; a schema that rejects unknown
                // keys must therefore know every declared key (channels included)
                rep.case("parameter_schema_accepts_the_declared_object", "fn load_doc(id, retries: Option<u32>, on_progress: Channel<u32>)", &|| {
                    let files = files.as_ref().map_err(|e| e.clone())?;
                    let t = files.get("types.ts").ok_or("no types.ts")?;
                    let head = "export const LoadDocParamsSchema = z.object({";
                    let st = t.find(head).ok_or("no LoadDocParamsSchema")?;
                    let end = st + t[st..].find(";").ok_or("unterminated schema")?;
                    let decl = &t[st..end];
                    let schema_keys: Vec<String> = object_keys(t, "LoadDocParams", true).unwrap_or_default();
                    let rejects_unknown = decl.contains(".strict()") || decl.contains("z.strictObject(") || decl.contains(".catchall(z.never())");
                    if rejects_unknown && !schema_keys.iter().any(|k| k == "onProgress") {
                        return Err(format!("LoadDocParamsSchema rejects unknown keys ({}) but the wrapper passes the declared object, which carries the channel key onProgress; schema keys: {:?}", if decl.contains(".strict()") { ".strict()" } else { "strict object" }, schema_keys));
                    }
                    if !schema_keys.iter().any(|k| k == "id") || !schema_keys.iter().any(|k| k == "retries") { return Err(format!("schema keys {:?} lack a declared parameter", schema_keys)); }
                    Ok(format!("{:?}", schema_keys))
                });
            }
        }
        // schema order for every other zod output of this corpus with an acyclic type graph
        for proj in ["serde", "modes", "table", "mapped", "emits", "inject", "validators"] {
            rep.case("schemas_defined_before_use", &format!("project={}", proj), &|| {
                let t = fs::read_to_string(root.join(format!("{}/out_zod/types.ts", proj))).map_err(|e| format!("{}: {}", proj, e))?;
                schemas_defined_before_use(&t)
            });
        }
        // C01 (and C13): regenerating a smaller project into a directory that already holds bindings gives the files of a fresh run
        let small = format!("{}#[derive(Serialize, Deserialize, Clone)]\npub struct Task {{ pub title: String }}\n#[tauri::command]\npub fn add_task(task: Task) -> u32 {{ 0 }}\n", HDR);
        let dir2 = root.join("shared_small/src");
        write_files(&dir2, &[("lib.rs".to_string(), small)]);
        for mode in ["none", "zod"] {
            rep.case("regeneration_into_used_directory_equals_fresh_generation", &format!("shared -> shared_small mode={}", mode), &|| {
                let used = root.join(format!("shared/out_{}", mode));
                let strip = |m: BTreeMap<String, String>| -> BTreeMap<String, String> { m.into_iter().filter(|(k, _)| k.ends_with(".ts")).map(|(k, v)| (k, v.lines().filter(|l| !has_timestamp(l)).collect::<Vec<_>>().join("\n"))).collect() };
                // second run into the used directory (generate() would wipe it first: call the library directly)
                let mut cfg = GenerateConfig::default();
                cfg.project_path = dir2.to_string_lossy().to_string();
                cfg.output_path = used.to_string_lossy().to_string();
                cfg.validation_library = mode.to_string();
                generate_from_config(&cfg).map_err(|e| format!("generate_from_config returned Err: {}", e))?;
                let mut again = BTreeMap::new();
                for e in fs::read_dir(&used).map_err(|e| e.to_string())?.flatten() { if e.path().is_file() { again.insert(e.file_name().to_string_lossy().to_string(), fs::read_to_string(e.path()).unwrap_or_default()); } }
                let fresh = generate(&dir2, &root.join(format!("shared_small/out_{}", mode)), mode)?;
                let (again, fresh) = (strip(again), strip(fresh));
                for (f, text) in &fresh {
                    match again.get(f) { None => return Err(format!("{} is missing after regeneration", f)), Some(t2) if t2 != text => {
                        let at = text.lines().zip(t2.lines()).position(|(a, b)| a != b).unwrap_or(text.lines().count().min(t2.lines().count()));
                        return Err(format!("{} differs from a fresh generation from line {} on (fresh has {} lines, regenerated {} lines)", f, at + 1, text.lines().count(), t2.lines().count()));
                    } _ => {} }
                }
                lexical_wellformed(&again)?;
                Ok(format!("{} files", fresh.len()))
            });
        }
    }
    // ============================================================ C09 / C07 / C15 / C02: multi-file shapes
    {
        // dependencies going back and forth between two files (acyclic): Address <- Customer <- Order, Order -> Address
        let catalog = format!("{}use crate::people::Customer;\n#[derive(Serialize, Deserialize, Clone)]\npub struct Address {{ pub street: String }}\n#[derive(Serialize, Deserialize, Clone)]\npub struct Order {{ pub customer: Customer, pub ship_to: Address, pub notes: Vec<Note> }}\n#[derive(Serialize, Deserialize, Clone)]\npub struct Note {{ pub by: Customer }}\n#[tauri::command]\npub fn order(id: u32) -> Order {{ todo!() }}\n", HDR);
        let roster = format!("{}#[derive(Serialize, Deserialize, Clone, PartialEq, Eq, Hash)]\npub enum Weekday {{ Mon, Tue }}\n#[derive(Serialize, Deserialize, Clone, PartialEq, Eq, Hash)]\npub enum OnlyAsKey {{ A, B }}\n#[derive(Serialize, Deserialize, Clone)]\npub struct Roster {{ pub by_day: HashMap<Weekday, Vec<String>>, pub by_key: std::collections::BTreeMap<OnlyAsKey, u32> }}\n#[tauri::command]\npub fn roster(first: Weekday) -> Roster {{ todo!() }}\n", HDR);
        let people = format!("{}use crate::catalog::Address;\n#[derive(Serialize, Deserialize, Clone)]\npub struct Customer {{ pub address: Address, pub zone: Zone }}\n#[derive(Serialize, Deserialize, Clone)]\npub enum Zone {{ North, South }}\n", HDR);
        let dir = root.join("pingpong/src");
        write_files(&dir, &[("catalog.rs".to_string(), catalog), ("people.rs".to_string(), people), ("a_roster.rs".to_string(), roster)]);
        let tys = ["Address", "Order", "Note", "Customer", "Zone", "Weekday", "OnlyAsKey", "Roster"];
        for mode in ["none", "zod"] {
            let files = generate(&dir, &root.join(format!("pingpong/out_{}", mode)), mode);
            rep.case("mentioned_project_types_are_declared", &format!("project=pingpong mode={}", mode), &|| types_module_is_closed(files.as_ref().map_err(|e| e.clone())?, &tys));
            rep.case("type_references_resolve", &format!("project=pingpong mode={}", mode), &|| references_resolve(files.as_ref().map_err(|e| e.clone())?, &tys));
            if mode == "zod" { rep.case("schemas_defined_before_use", "project=pingpong", &|| schemas_defined_before_use(files.as_ref().map_err(|e| e.clone())?.get("types.ts").ok_or("no types.ts")?)); }
        }
        // file and directory names that merely start like the excluded ones (target/, .git/); a real target/ directory is skipped
        let cmds = format!("{}use crate::targets::DeployTarget;\n#[tauri::command]\npub fn deploy(t: DeployTarget) -> u32 {{ 0 }}\n", HDR);
        let target_mod = format!("{}#[derive(Serialize, Deserialize)]\npub struct TargetSpec {{ pub triple: String }}\n", HDR);
        let targets = format!("{}#[derive(Serialize, Deserialize)]\npub struct DeployTarget {{ pub host: crate::deploy::target_host::TargetHost, pub kind: TargetKind, pub os: crate::target_os::Os, pub spec: crate::deploy::target::TargetSpec }}\n#[derive(Serialize, Deserialize)]\npub enum TargetKind {{ Staging, Production }}\n", HDR);
        let host = format!("{}#[derive(Serialize, Deserialize)]\npub struct TargetHost {{ pub name: String, pub git: crate::gitops::GitRef }}\n", HDR);
        let os = format!("{}#[derive(Serialize, Deserialize)]\npub enum Os {{ Linux, Mac }}\n", HDR);
        let gitops = format!("{}#[derive(Serialize, Deserialize)]\npub struct GitRef {{ pub sha: String }}\n", HDR);
        let stale = format!("{}#[derive(Serialize, Deserialize)]\npub struct StaleBuildArtifact {{ pub x: u32 }}\n#[tauri::command]\npub fn from_build_dir(s: StaleBuildArtifact) -> u32 {{ 0 }}\n", HDR);
        let dir = root.join("filenames/src");
        write_files(&dir, &[("commands.rs".to_string(), cmds), ("targets.rs".to_string(), targets), ("deploy/target_host.rs".to_string(), host), ("target_os/mod.rs".to_string(), os), ("gitops.rs".to_string(), gitops), ("deploy/target/mod.rs".to_string(), target_mod),
            ("target/debug/build/out.rs".to_string(), stale.clone()), (".git/hooks/sample.rs".to_string(), stale)]);
        let tys = ["DeployTarget", "TargetKind", "TargetHost", "Os", "GitRef", "TargetSpec"];
        for mode in ["none", "zod"] {
            let files = generate(&dir, &root.join(format!("filenames/out_{}", mode)), mode);
            rep.case("mentioned_project_types_are_declared", &format!("project=filenames mode={}", mode), &|| {
                let files = files.as_ref().map_err(|e| e.clone())?;
                let t = files.get("types.ts").ok_or("no types.ts")?;
                let exp = exports_of(t);
                for n in tys { if !exp.contains(n) && !exp.contains(&format!("{}Schema", n)) { return Err(format!("{} (defined in a file whose name starts like target/ or .git/) is reachable from command `deploy` but not declared", n)); } }
                if t.contains("StaleBuildArtifact") || files.get("commands.ts").map_or(false, |c| c.contains("fromBuildDir")) { return Err("files below target/ or .git/ were analysed".into()); }
                types_module_is_closed(files, &tys)
            });
        }
        // mutually recursive types (legal with Vec / Option indirection): generation terminates and declares both
        let mutual = format!("{}#[derive(Serialize, Deserialize, Clone)]\npub struct User {{ pub comments: Vec<Comment>, pub best: Option<Box<Comment>> }}\n#[derive(Serialize, Deserialize, Clone)]\npub struct Comment {{ pub author: Option<User>, pub replies: Vec<Comment>, pub thread: Thread }}\n#[derive(Serialize, Deserialize, Clone)]\npub struct Thread {{ pub starter: Vec<User> }}\n#[tauri::command]\npub fn feed(u: User) -> Vec<Comment> {{ vec![] }}\n", HDR);
        let dir = root.join("mutual/src");
        write_files(&dir, &[("lib.rs".to_string(), mutual)]);
        for mode in ["none", "zod"] {
            rep.case("mutually_recursive_types_are_generated", &format!("project=mutual mode={}", mode), &|| {
                let files = generate(&dir, &root.join(format!("mutual/out_{}", mode)), mode)?;
                let exp = exports_of(files.get("types.ts").ok_or("no types.ts")?);
                for n in ["User", "Comment", "Thread"] { if !exp.contains(n) && !exp.contains(&format!("{}Schema", n)) { return Err(format!("{} is not declared", n)); } }
                Ok("ok".into())
            });
        }
    }
    // ============================================================ C07 / C02: a non-serde item of the same name earlier in the file does not hide the serde type
    {
        let src = format!("{}#[cfg(not(feature = \"telemetry\"))]\npub struct Telemetry;\n#[cfg(feature = \"telemetry\")]\n#[derive(Serialize, Deserialize)]\npub struct Telemetry {{ pub samples: Vec<Sample> }}\n\
            #[derive(Serialize, Deserialize)]\npub struct Sample {{ pub v: u32 }}\n\
            pub enum Phase {{ Internal }}\n\
            pub mod api {{\n    use serde::{{Serialize, Deserialize}};\n    #[derive(Serialize, Deserialize)]\n    pub enum Phase {{ Start, Stop }}\n    #[derive(Serialize, Deserialize)]\n    pub struct Report {{ pub phase: Phase, pub last: Option<super::Sample> }}\n}}\n\
            #[tauri::command]\npub fn telemetry() -> Telemetry {{ todo!() }}\n#[tauri::command]\npub fn report() -> api::Report {{ todo!() }}\n\
            pub mod shapes {{\n    use serde::{{Serialize, Deserialize}};\n    #[derive(Serialize, Deserialize)]\n    pub struct Point {{ pub x: f32 }}\n    #[derive(Serialize, Deserialize)]\n    pub struct Path {{ pub points: Vec<Point>, pub closed: bool }}\n    #[derive(Serialize, Deserialize)]\n    pub struct Url {{ pub host: String }}\n    #[derive(Serialize, Deserialize)]\n    pub struct Duration {{ pub beats: u32 }}\n}}\n\
            #[derive(Serialize, Deserialize)]\npub struct Sketch {{ pub outline: Vec<crate::shapes::Path>, pub home: shapes::Url, pub length: Option<shapes::Duration> }}\n\
            #[tauri::command]\npub fn sketch(first: shapes::Path) -> Sketch {{ todo!() }}\n\
            #[allow(non_camel_case_types)]\n#[derive(Serialize, Deserialize)]\npub struct iOSConfig {{ pub bundle: String, pub store: eBayListing }}\n#[allow(non_camel_case_types)]\n#[derive(Serialize, Deserialize)]\npub struct eBayListing {{ pub id: u32 }}\n#[allow(non_camel_case_types)]\n#[derive(Serialize, Deserialize)]\npub enum macOSVersion {{ Sonoma, Sequoia }}\n#[derive(Serialize, Deserialize)]\npub struct _Hidden {{ pub v: macOSVersion }}\n\
            #[tauri::command]\npub fn ios(cfg: iOSConfig, h: _Hidden) -> Vec<macOSVersion> {{ vec![] }}\n\
            #[cfg_attr(feature = \"ipc\", derive(Serialize, Deserialize))]\npub struct BehindCfgAttr {{ pub theme: ThemeBehindCfgAttr }}\n#[cfg_attr(feature = \"ipc\", derive(Debug, serde::Serialize))]\npub enum ThemeBehindCfgAttr {{ Light, Dark }}\n\
            #[tauri::command]\npub fn themed(s: BehindCfgAttr) -> u32 {{ 0 }}\n\
            pub mod cmds {{\n    use super::*;\n    use tauri::Emitter;\n    #[derive(Serialize, Deserialize, Clone)]\n    pub struct InnerNote {{ pub text: String }}\n    #[tauri::command]\n    pub fn add_inner_note(app: tauri::AppHandle, note: InnerNote, on_saved: tauri::ipc::Channel<u32>) -> InnerNote {{ app.emit(\"inner-note-added\", note.clone()).ok(); note }}\n    pub mod deeper {{\n        #[tauri::command]\n        pub fn deep_ping() -> u32 {{ 0 }}\n    }}\n}}\n\
            #[cfg(not(test))]\npub mod backend {{\n    use serde::{{Serialize, Deserialize}};\n    #[derive(Serialize, Deserialize)]\n    pub struct DeviceInfo {{ pub firmware: Firmware }}\n    #[derive(Serialize, Deserialize)]\n    pub struct Firmware {{ pub version: String }}\n}}\n\
            #[cfg(feature = \"latest-api\")]\npub mod latest {{\n    use serde::{{Serialize, Deserialize}};\n    #[derive(Serialize, Deserialize)]\n    pub struct Capabilities {{ pub level: u8 }}\n}}\n\
            #[tauri::command]\npub fn device() -> backend::DeviceInfo {{ todo!() }}\n#[tauri::command]\npub fn capabilities() -> latest::Capabilities {{ todo!() }}\n", HDR);
        let dir = root.join("shadowed/src");
        write_files(&dir, &[("lib.rs".to_string(), src)]);
        let tys = ["Telemetry", "Sample", "Phase", "Report", "Point", "Path", "Url", "Duration", "Sketch", "DeviceInfo", "Firmware", "Capabilities", "iOSConfig", "eBayListing", "macOSVersion", "_Hidden", "BehindCfgAttr", "ThemeBehindCfgAttr", "InnerNote"];
        for mode in ["none", "zod"] {
            let files = generate(&dir, &root.join(format!("shadowed/out_{}", mode)), mode);
            rep.case("mentioned_project_types_are_declared", &format!("project=shadowed mode={}", mode), &|| {
                let files = files.as_ref().map_err(|e| e.clone())?;
                let exp = exports_of(files.get("types.ts").ok_or("no types.ts")?);
                for n in tys { if !exp.contains(n) && !exp.contains(&format!("{}Schema", n)) { return Err(format!("{} is a serde type reachable from a command (a non-serde item of the same name stands earlier in the file) but is not declared", n)); } }
                types_module_is_closed(files, &tys)
            });
            rep.case("type_references_resolve", &format!("project=shadowed mode={}", mode), &|| references_resolve(files.as_ref().map_err(|e| e.clone())?, &tys));
            rep.case("commands_and_emits_in_inline_modules_are_bound", &format!("project=shadowed mode={}", mode), &|| {
                let files = files.as_ref().map_err(|e| e.clone())?;
                let c = files.get("commands.ts").ok_or("no commands.ts")?;
                for f in ["addInnerNote", "deepPing"] { if !c.contains(&format!("function {}(", f)) { return Err(format!("commands.ts has no wrapper `{}`: the command stands in an inline module", f)); } }
                let t = files.get("types.ts").ok_or("no types.ts")?;
                let block: String = t.split("\n\n").filter(|b| b.contains("AddInnerNoteParams")).collect::<Vec<_>>().join("\n");
                if !block.contains("onSaved") { return Err("the argument object of add_inner_note has no key `onSaved` (its Channel parameter)".into()); }
                let ev = files.get("events.ts").ok_or("no events.ts: the emit stands in a command of an inline module")?;
                if !ev.contains("'inner-note-added'") { return Err("events.ts has no listener for 'inner-note-added'".into()); }
                Ok("ok".into())
            });
        }
    }
    // ============================================================ C01 / C07 / C02: raw identifiers as type names, generic arguments that are only lifetimes or constants
    {
        let src = format!("{}#[derive(Serialize, Deserialize)]\npub struct r#Kind {{ pub id: u32 }}\n#[derive(Serialize, Deserialize)]\npub enum r#Mode {{ On, Off }}\n\
            #[derive(Serialize, Deserialize)]\npub struct Wrapper<'a> {{ pub text: &'a str, pub kind: r#Kind, pub mode: Option<r#Mode>, pub inner: Option<Inner<'a>>, pub buf: Buffer<16> }}\n\
            #[derive(Serialize, Deserialize)]\npub struct Inner<'a> {{ pub s: &'a str }}\n#[derive(Serialize, Deserialize)]\npub struct Buffer<const N: usize> {{ pub used: u32 }}\n\
            #[tauri::command]\npub fn wrap(app: tauri::AppHandle, w: Wrapper<'_>, k: r#Kind, b: Buffer<8>, on_kind: tauri::ipc::Channel<r#Kind>, on_modes: tauri::ipc::Channel<Vec<r#Mode>>) -> Wrapper<'static> {{ use tauri::Emitter; app.emit(\"kind\", k).ok(); todo!() }}\n", HDR);
        let dir = root.join("rawtypes/src");
        write_files(&dir, &[("lib.rs".to_string(), src)]);
        let tys = ["Kind", "Mode", "Wrapper", "Inner", "Buffer"];
        for mode in ["none", "zod"] {
            let files = generate(&dir, &root.join(format!("rawtypes/out_{}", mode)), mode);
            rep.case("generated_files_are_lexically_wellformed", &format!("project=rawtypes mode={}", mode), &|| lexical_wellformed(files.as_ref().map_err(|e| e.clone())?));
            rep.case("mentioned_project_types_are_declared", &format!("project=rawtypes mode={}", mode), &|| types_module_is_closed(files.as_ref().map_err(|e| e.clone())?, &tys));
            rep.case("type_references_resolve", &format!("project=rawtypes mode={}", mode), &|| references_resolve(files.as_ref().map_err(|e| e.clone())?, &tys));
        }
    }
    // ============================================================ C09: project types behind Box / Rc / Arc: if the tool reads through the pointer it must also order the schemas
    {
        let src = format!("{}#[derive(Serialize, Deserialize, Clone)]\npub struct Account {{ pub profile: Box<Profile>, pub zone: Option<std::sync::Arc<Zone>>, pub history: Vec<std::rc::Rc<Visit>> }}\n\
            #[derive(Serialize, Deserialize, Clone)]\npub struct Profile {{ pub name: String }}\n#[derive(Serialize, Deserialize, Clone)]\npub struct Zone {{ pub id: u32 }}\n#[derive(Serialize, Deserialize, Clone)]\npub struct Visit {{ pub at: u64 }}\n\
            #[tauri::command]\npub fn account(p: Profile, z: Zone, v: Visit) -> Account {{ todo!() }}\n", HDR);
        let dir = root.join("boxed/src");
        write_files(&dir, &[("lib.rs".to_string(), src)]);
        let files = generate(&dir, &root.join("boxed/out_zod"), "zod");
        rep.case("schemas_defined_before_use", "project=boxed", &|| schemas_defined_before_use(files.as_ref().map_err(|e| e.clone())?.get("types.ts").ok_or("no types.ts")?));
    }
    // ============================================================ C01 / C05 / C07 / C02: arrays and slices are sequences
    {
        let src = format!("{}use tauri::Emitter;\nuse tauri::ipc::Channel;\n#[derive(Serialize, Deserialize, Clone)]\npub struct Cell {{ pub id: u32 }}\n#[derive(Serialize, Deserialize, Clone)]\npub struct OnlyInArray {{ pub id: u32 }}\n#[derive(Serialize, Deserialize, Clone)]\npub struct OnlyInParam {{ pub id: u32 }}\n\
            #[derive(Serialize, Deserialize, Clone)]\npub struct Grid {{ pub cells: [[Cell; 3]; 3], pub key: [u8; 32], pub pairs: Vec<[(String, OnlyInArray); 2]>, pub opt: Option<[bool; 2]> }}\n\
            #[tauri::command]\npub fn grid(app: tauri::AppHandle, seed: [u8; 4], ch: Channel<[Cell; 2]>, names: &[String], extra: [OnlyInParam; 1]) -> Result<[Grid; 2], String> {{ todo!() }}\n\
            #[derive(Serialize, Deserialize, Clone)]\npub struct Mesh {{ pub points: &'static [[f32; 3]], pub tagged: &'static [(String, [u8; 4])], pub rows: Vec<[[u8; 2]; 2]> }}\n\
            #[tauri::command]\npub fn mesh(points: &[[f32; 3]]) -> Mesh {{ todo!() }}\n\
            pub const KEY_LEN: usize = 32;\n#[tauri::command]\npub fn digest(seed: [u8; 1 << 4], pair: ([u16; KEY_LEN >> 1], String)) -> Result<[u8; 1 << 4], String> {{ todo!() }}\n\
            #[tauri::command]\npub fn digests() -> Result<([u8; 2 * KEY_LEN], Vec<[u8; {{ KEY_LEN }}]>), String> {{ todo!() }}\n", HDR);
        let dir = root.join("arrays/src");
        write_files(&dir, &[("lib.rs".to_string(), src)]);
        let tys = ["Cell", "OnlyInArray", "OnlyInParam", "Grid", "Mesh"];
        for mode in ["none", "zod"] {
            let files = generate(&dir, &root.join(format!("arrays/out_{}", mode)), mode);
            rep.case("generated_files_are_lexically_wellformed", &format!("project=arrays mode={}", mode), &|| lexical_wellformed(files.as_ref().map_err(|e| e.clone())?));
            rep.case("mentioned_project_types_are_declared", &format!("project=arrays mode={}", mode), &|| types_module_is_closed(files.as_ref().map_err(|e| e.clone())?, &tys));
            rep.case("type_references_resolve", &format!("project=arrays mode={}", mode), &|| references_resolve(files.as_ref().map_err(|e| e.clone())?, &tys));
            rep.case("field_types_follow_the_table", &format!("project=arrays mode={}", mode), &|| {
                let files = files.as_ref().map_err(|e| e.clone())?;
                let t = files.get("types.ts").ok_or("no types.ts")?;
                for (sname, k, ts, zs) in [("Mesh", "points", "number[][]", "z.array(z.array(z.coerce.number()))"), ("Mesh", "tagged", "[string, number[]][]", "z.array(z.tuple([z.string(), z.array(z.coerce.number())]))"), ("Mesh", "rows", "number[][][]", "z.array(z.array(z.array(z.coerce.number())))"), ("MeshParams", "points", "number[][]", "z.array(z.array(z.coerce.number()))")] {
                    let got = if mode == "zod" { zod_field(t, sname, k) } else { object_entries(t, sname, false).and_then(|es| es.into_iter().find(|(kk, _)| kk == k).map(|(_, v)| v.trim_end_matches(';').to_string())) }.ok_or(format!("{} has no key {}", sname, k))?;
                    let want = if mode == "zod" { zs } else { ts };
                    if got != want { return Err(format!("{}.{}: `{}`, serde writes nested sequences: `{}`", sname, k, got, want)); }
                }
                let want: Vec<(&str, &str, &str)> = vec![("cells", "Cell[][]", "z.array(z.array(CellSchema))"), ("key", "number[]", "z.array(z.coerce.number())"), ("pairs", "[string, OnlyInArray][][]", "z.array(z.array(z.tuple([z.string(), OnlyInArraySchema])))")];
                for (k, ts, zs) in want {
                    if mode == "zod" {
                        let got = zod_field(t, "Grid", k).ok_or(format!("GridSchema has no key {}", k))?;
                        if got != zs { return Err(format!("Grid.{}: schema `{}`, serde writes a sequence: `{}`", k, got, zs)); }
                    } else {
                        let line = t.lines().find(|l| l.trim_start().starts_with(&format!("{}:", k))).ok_or(format!("Grid has no key {}", k))?;
                        let got = line.trim().trim_start_matches(&format!("{}:", k)).trim().trim_end_matches(';');
                        if got != ts { return Err(format!("Grid.{}: `{}`, serde writes a sequence: `{}`", k, got, ts)); }
                    }
                }
                Ok("ok".into())
            });
        }
    }
    // ============================================================ C01: foreign generic wrappers (Arc, Box, Rc — not translated by the tool) must at least stay well formed
    {
        let src = format!("{}use tauri::Emitter;\n#[derive(Serialize, Deserialize, Clone)]\npub struct Item {{ pub id: u32 }}\n\
            #[tauri::command]\npub fn shared_items(app: tauri::AppHandle) -> std::sync::Arc<Vec<Item>> {{ let all: std::sync::Arc<Vec<Item>> = todo!(); app.emit(\"items:changed\", all.clone()).ok(); all }}\n\
            #[tauri::command]\npub fn boxed() -> Result<std::rc::Rc<HashMap<String, Item>>, String> {{ todo!() }}\n\
            #[tauri::command]\npub fn cell() -> Option<std::sync::Arc<std::sync::Mutex<Vec<Option<Item>>>>> {{ None }}\n\
            #[tauri::command]\npub fn uptime(app: tauri::AppHandle) -> std::time::Duration {{ let d: std::time::Duration = todo!(); app.emit(\"uptime:tick\", d).ok(); d }}\n\
            #[tauri::command]\npub fn lap() -> Option<Duration> {{ None }}\n#[tauri::command]\npub fn laps(since: Duration) -> Result<Vec<Duration>, String> {{ todo!() }}\n\
            #[derive(Serialize, Deserialize, Clone)]\npub struct Timing {{ pub total: Duration, pub laps: Vec<std::time::Duration> }}\n#[tauri::command]\npub fn timing() -> Timing {{ todo!() }}\n\
            #[tauri::command]\npub fn wrapped(p: Wrapped<Vec<crate::Item>, self::Item>) -> Wrapped<crate::models::Item, (u8, super::Item)> {{ todo!() }}\n", HDR);
        let dir = root.join("pointers/src");
        write_files(&dir, &[("lib.rs".to_string(), src)]);
        for mode in ["none", "zod"] {
            let files = generate(&dir, &root.join(format!("pointers/out_{}", mode)), mode);
            rep.case("generated_files_are_lexically_wellformed", &format!("project=pointers mode={}", mode), &|| lexical_wellformed(files.as_ref().map_err(|e| e.clone())?));
        }
    }
    // ============================================================ findings of the bug hunt that are recorded, not repaired (known_findings.json lists each input)
    // ---- C11: every declared constraint is enforced (none silently dropped)
    {
        let src = format!("{}use std::collections::HashSet;\n#[derive(Serialize, Deserialize, validator::Validate)]\npub struct Form {{\n    #[validate(range(exclusive_min = 0.0, exclusive_max = 10.0))]\n    pub ratio: f64,\n    #[validate(length(equal = 4))]\n    pub pin: String,\n    #[validate(length(min = 1, max = 3))]\n    pub tags: HashSet<String>,\n    #[validate(length(min = 1))]\n    pub attrs: HashMap<String, u32>,\n    #[validate(length(min = 2, max = 5))]\n    pub plain: String,\n}}\n#[tauri::command]\npub fn submit(form: Form) -> u32 {{ 0 }}\n", HDR);
        let dir = root.join("kf_validators/src");
        write_files(&dir, &[("lib.rs".to_string(), src)]);
        let files = generate(&dir, &root.join("kf_validators/out_zod"), "zod");
        let wants: [(&str, &str, &[&[&str]]); 5] = [
            ("ratio", "#[validate(range(exclusive_min = 0.0, exclusive_max = 10.0))] pub ratio: f64", &[&[".gt(0"], &[".lt(10"]]),
            ("pin", "#[validate(length(equal = 4))] pub pin: String", &[&[".length(4"]]),
            ("tags", "#[validate(length(min = 1, max = 3))] pub tags: HashSet<String>", &[&[".min(1", ".refine("], &[".max(3", ".refine("]]),
            ("attrs", "#[validate(length(min = 1))] pub attrs: HashMap<String, u32>", &[&[".min(1", ".refine("]]),
            ("plain", "#[validate(length(min = 2, max = 5))] pub plain: String", &[&[".min(2"], &[".max(5"]]),
        ];
        for (key, decl, groups) in wants {
            rep.case("declared_validators_are_all_enforced", decl, &|| {
                let files = files.as_ref().map_err(|e| e.clone())?;
                let sch = zod_field(files.get("types.ts").ok_or("no types.ts")?, "Form", key).ok_or(format!("UNPARSED: FormSchema has no key {}", key))?;
                for alternatives in groups { if !alternatives.iter().any(|a| sch.contains(a)) { return Err(format!("schema of `{}` is `{}`: none of {:?} in it, the declared constraint is dropped", key, sch, alternatives)); } }
                Ok(sch)
            });
        }
    }
    // ---- C11: email / url only where they are declared as validators; validate through cfg_attr counts
    {
        let src = format!("{}#[derive(Serialize, Deserialize, validator::Validate)]\npub struct Signup {{\n    #[validate(must_match(other = email))]\n    pub confirm: String,\n    #[validate(custom(function = crate::rules::url), length(min = 1))]\n    pub site: String,\n    #[validate(email(message = \"bad\"), url)]\n    pub both: String,\n    #[validate(length(min = 2), email)]\n    pub mail: String,\n    #[cfg_attr(feature = \"validation\", validate(length(min = 3, max = 20), email))]\n    pub gated: String,\n    #[cfg_attr(all(feature = \"validation\", not(test)), validate(range(min = 18, max = 120)))]\n    pub age: u32,\n    #[cfg_attr(feature = \"validation\", validate(email), validate(length(max = 64, message = \"address too long\")))]\n    pub contact: String,\n    #[validate(length(min = 1, max = 5))]\n    #[validate(custom(function = checks::length::not_blank))]\n    pub name: String,\n    #[validate(custom(function = crate::checks::range::even), range(min = 2, max = 8))]\n    pub even: u32,\n    pub email: String,\n    pub url: String,\n}}\n#[tauri::command]\npub fn signup(s: Signup) -> u32 {{ 0 }}\n", HDR);
        let dir = root.join("validators_items/src");
        write_files(&dir, &[("lib.rs".to_string(), src)]);
        let files = generate(&dir, &root.join("validators_items/out_zod"), "zod");
        let wants: [(&str, &str, &[&str], &[&str]); 11] = [
            ("contact", "#[cfg_attr(feature = \"validation\", validate(email), validate(length(max = 64, message = \"address too long\")))] pub contact: String", &[".email(", ".max(64", "address too long"], &[".url("]),
            ("name", "#[validate(length(min = 1, max = 5))] #[validate(custom(function = checks::length::not_blank))] pub name: String", &[".min(1", ".max(5"], &[]),
            ("even", "#[validate(custom(function = crate::checks::range::even), range(min = 2, max = 8))] pub even: u32", &[".min(2", ".max(8"], &[]),
            ("confirm", "#[validate(must_match(other = email))] pub confirm: String", &[], &[".email(", ".url("]),
            ("site", "#[validate(custom(function = crate::rules::url), length(min = 1))] pub site: String", &[".min(1"], &[".email(", ".url("]),
            ("both", "#[validate(email(message = \"bad\"), url)] pub both: String", &[".email(", ".url("], &[]),
            ("mail", "#[validate(length(min = 2), email)] pub mail: String", &[".email(", ".min(2"], &[".url("]),
            ("gated", "#[cfg_attr(feature = \"validation\", validate(length(min = 3, max = 20), email))] pub gated: String", &[".email(", ".min(3", ".max(20"], &[".url("]),
            ("age", "#[cfg_attr(all(feature = \"validation\", not(test)), validate(range(min = 18, max = 120)))] pub age: u32", &[".min(18", ".max(120"], &[".email("]),
            ("email", "pub email: String (a field called email, no validator)", &[], &[".email(", ".min(", ".max("]),
            ("url", "pub url: String (a field called url, no validator)", &[], &[".url(", ".min(", ".max("]),
        ];
        for (key, decl, must, must_not) in wants {
            rep.case("validators_are_the_declared_items", decl, &|| {
                let files = files.as_ref().map_err(|e| e.clone())?;
                let sch = zod_field(files.get("types.ts").ok_or("no types.ts")?, "Signup", key).ok_or(format!("UNPARSED: SignupSchema has no key {}", key))?;
                for m in must { if !sch.contains(m) { return Err(format!("schema of `{}` is `{}`: the declared `{}..)` is missing", key, sch, m)); } }
                for m in must_not { if sch.contains(m) { return Err(format!("schema of `{}` is `{}`: `{}..)` is not declared for this field", key, sch, m)); } }
                Ok(sch)
            });
        }
    }
    // ---- C07: a derive of another crate written with its path (rkyv::Serialize) does not make a serde type
    {
        let src = format!("{}#[derive(rkyv::Archive, rkyv::Serialize, rkyv::Deserialize)]\npub struct Digest {{ pub bytes: [u8; 4] }}\n#[derive(serde::Serialize, serde::Deserialize)]\npub struct Plain {{ pub n: u32 }}\n#[tauri::command]\npub fn digest(p: Plain) -> Digest {{ todo!() }}\n", HDR);
        let dir = root.join("foreign_derive/src");
        write_files(&dir, &[("lib.rs".to_string(), src)]);
        for mode in ["none", "zod"] {
            let files = generate(&dir, &root.join(format!("foreign_derive/out_{}", mode)), mode);
            rep.case("non_serde_types_not_emitted", &format!("#[derive(rkyv::Archive, rkyv::Serialize, rkyv::Deserialize)] struct Digest next to #[derive(serde::Serialize, serde::Deserialize)] struct Plain mode={}", mode), &|| {
                let files = files.as_ref().map_err(|e| e.clone())?;
                let exp = exports_of(files.get("types.ts").ok_or("no types.ts")?);
                if exp.contains("Digest") || exp.contains("DigestSchema") { return Err("types.ts declares Digest, which derives rkyv's Serialize / Deserialize, not serde's".into()); }
                if !exp.contains("Plain") && !exp.contains("PlainSchema") { return Err("types.ts does not declare Plain, which derives serde::Serialize and serde::Deserialize".into()); }
                Ok("ok".into())
            });
        }
    }
    // ---- C02: one command name, one declaration - also when its two definitions stand in two files (a module per platform)
    {
        let files_src = vec![
            ("lib.rs".to_string(), "#[cfg(desktop)]\nmod desktop;\n#[cfg(mobile)]\nmod mobile;\n".to_string()),
            ("desktop.rs".to_string(), format!("{}#[tauri::command]\npub fn open_settings(tab: String) -> u32 {{ 0 }}\n", HDR)),
            ("mobile.rs".to_string(), format!("{}#[tauri::command]\npub fn open_settings(tab: String) -> u32 {{ 1 }}\n", HDR)),
        ];
        let dir = root.join("platform_files/src");
        write_files(&dir, &files_src);
        for mode in ["none", "zod"] {
            let files = generate(&dir, &root.join(format!("platform_files/out_{}", mode)), mode);
            rep.case("type_references_resolve", &format!("project=platform_files mode={}", mode), &|| references_resolve(files.as_ref().map_err(|e| e.clone())?, &[]));
        }
    }
    // ---- C07: every type a field names is declared, whichever of them the collector meets first (12 runs: hash order)
    {
        let src = format!("{}#[derive(Serialize, Deserialize, Clone)]\npub struct Square {{ pub file: u8, pub rank: u8 }}\n#[derive(Serialize, Deserialize, Clone)]\npub struct Piece {{ pub kind: String }}\n#[derive(Serialize, Deserialize, Clone)]\npub struct Move3 {{ pub to: Square }}\n#[derive(Serialize, Deserialize, Clone)]\npub struct Capture {{ pub taken: Piece }}\n\
            #[derive(Serialize, Deserialize, Clone)]\npub struct Board {{ pub cells: Vec<(Square, Piece)>, pub last: Option<(Square, Move3)>, pub taken: HashMap<String, (Square, Capture)> }}\n#[derive(Serialize, Deserialize)]\npub struct Unrelated3 {{ pub n: u32 }}\n#[tauri::command]\npub fn board(b: Board, s: Square) -> u32 {{ 0 }}\n", HDR);
        let dir = root.join("multi_ref/src");
        write_files(&dir, &[("lib.rs".to_string(), src)]);
        for mode in ["none", "zod"] {
            rep.case("every_type_a_field_names_is_declared", &format!("Board {{ cells: Vec<(Square, Piece)>, last: Option<(Square, Move3)>, taken: HashMap<String, (Square, Capture)> }} with Square also a parameter, 12 runs mode={}", mode), &|| {
                for run in 0..12 {
                    let files = generate(&dir, &root.join(format!("multi_ref/out_{}_{}", mode, run)), mode)?;
                    let exp = exports_of(files.get("types.ts").ok_or("no types.ts")?);
                    for n in ["Board", "Square", "Piece", "Move3", "Capture"] { if !exp.contains(n) && !exp.contains(&format!("{}Schema", n)) { return Err(format!("run {}: {} is reachable from command `board` but types.ts does not declare it", run, n)); } }
                    if exp.contains("Unrelated3") || exp.contains("Unrelated3Schema") { return Err(format!("run {}: Unrelated3 is declared although nothing reaches it", run)); }
                }
                Ok("12 runs".into())
            });
        }
    }
    // ---- C06: several serde(..) entries inside ONE cfg_attr all count, whichever comes first
    {
        let src = format!("{}#[derive(Serialize, Deserialize, Clone)]\npub struct Account17 {{\n    #[cfg_attr(feature = \"wire\", serde(default), serde(rename = \"accountId\"))]\n    pub account_id: u32,\n    #[cfg_attr(feature = \"wire\", serde(default), serde(skip))]\n    pub cache: u32,\n    #[cfg_attr(feature = \"wire\", serde(rename = \"firstOne\"), serde(default))]\n    pub first_one: u32,\n    pub plain: u32,\n}}\n\
            #[derive(Serialize, Deserialize, Clone)]\npub enum Speed17 {{\n    #[cfg_attr(feature = \"wire\", serde(alias = \"quick\"), serde(rename = \"fast-path\"))]\n    Fast,\n    #[cfg_attr(feature = \"wire\", serde(alias = \"gone\"), serde(skip))]\n    Hidden,\n    Slow,\n}}\n#[tauri::command]\npub fn account(a: Account17, s: Speed17) -> u32 {{ 0 }}\n", HDR);
        let dir = root.join("cfg_attr_serde/src");
        write_files(&dir, &[("lib.rs".to_string(), src)]);
        for mode in ["none", "zod"] {
            let files = generate(&dir, &root.join(format!("cfg_attr_serde/out_{}", mode)), mode);
            rep.case("struct_keys_are_serde_wire_names", &format!("Account17 with cfg_attr(.., serde(default), serde(rename = \"accountId\")), cfg_attr(.., serde(default), serde(skip)), cfg_attr(.., serde(rename = \"firstOne\"), serde(default)) mode={}", mode), &|| {
                let files = files.as_ref().map_err(|e| e.clone())?;
                let mut keys = object_keys(files.get("types.ts").ok_or("no types.ts")?, "Account17", mode == "zod").ok_or("UNPARSED: Account17 not found")?;
                keys.sort();
                if keys != ["accountId", "firstOne", "plain"] { return Err(format!("keys {:?}; serde reads and writes [accountId, firstOne, plain]", keys)); }
                Ok(format!("{:?}", keys))
            });
            rep.case("enum_literals_are_serde_wire_names", &format!("Speed17 with cfg_attr(.., serde(alias = \"quick\"), serde(rename = \"fast-path\")) Fast, cfg_attr(.., serde(alias = \"gone\"), serde(skip)) Hidden, Slow mode={}", mode), &|| {
                let files = files.as_ref().map_err(|e| e.clone())?;
                let mut lits = enum_literals(files.get("types.ts").ok_or("no types.ts")?, "Speed17", mode == "zod").ok_or("UNPARSED: Speed17 not found")?;
                lits.sort();
                if lits != ["Slow", "fast-path"] { return Err(format!("literals {:?}; serde's wire names are [Slow, fast-path]", lits)); }
                Ok(format!("{:?}", lits))
            });
        }
    }
    // ---- C02: an enum without variants is a type of the bindings like any other: what refers to it resolves, in both modes
    {
        let src = format!("{}#[derive(Serialize, Deserialize, Clone)]\npub enum Never17 {{}}\n#[derive(Serialize, Deserialize, Clone)]\npub struct Holder17 {{ pub gap: Option<Never17> }}\n#[tauri::command]\npub fn maybe() -> Option<Never17> {{ None }}\n#[tauri::command]\npub fn held(h: Holder17) -> Vec<Never17> {{ vec![] }}\n", HDR);
        let dir = root.join("empty_enum/src");
        write_files(&dir, &[("lib.rs".to_string(), src)]);
        for mode in ["none", "zod"] {
            let files = generate(&dir, &root.join(format!("empty_enum/out_{}", mode)), mode);
            rep.case("type_references_resolve", &format!("project=empty_enum (enum Never17 {{}} as return type, under Option and Vec, and as a field) mode={}", mode), &|| references_resolve(files.as_ref().map_err(|e| e.clone())?, &["Never17", "Holder17"]));
        }
    }
    // ---- C10: a Vec<T> parameter has an array schema also when a set of the same element type was a parameter before it
    {
        let src = format!("{}use std::collections::{{HashSet, BTreeSet}};\n#[tauri::command]\npub fn set_tags(seen: HashSet<String>, tags: Vec<String>, ids: BTreeSet<u32>, nums: Vec<u32>) -> u32 {{ 0 }}\n#[tauri::command]\npub fn z_later(list: Vec<String>, flags: Vec<bool>, marks: HashSet<bool>) -> u32 {{ 0 }}\n", HDR);
        let dir = root.join("set_then_vec/src");
        write_files(&dir, &[("lib.rs".to_string(), src)]);
        let files = generate(&dir, &root.join("set_then_vec/out_zod"), "zod");
        for (cmd, key) in [("SetTagsParams", "tags"), ("SetTagsParams", "nums"), ("ZLaterParams", "list"), ("ZLaterParams", "flags")] {
            rep.case("both_modes_same_primitive_kind", &format!("fn set_tags(seen: HashSet<String>, tags: Vec<String>, ids: BTreeSet<u32>, nums: Vec<u32>); fn z_later(list: Vec<String>, flags: Vec<bool>, marks: HashSet<bool>): {}.{}", cmd, key), &|| {
                let files = files.as_ref().map_err(|e| e.clone())?;
                let sch = zod_field(files.get("types.ts").ok_or("no types.ts")?, cmd, key).ok_or(format!("UNPARSED: {}Schema has no key {}", cmd, key))?;
                // array-shaped in either spelling; a set / map / record schema accepts no array; anything else is a rendering this reader does not know
                if sch.starts_with("z.array(") || sch.contains(".array()") { return Ok(sch); }
                if sch.starts_with("z.set(") || sch.starts_with("z.map(") || sch.starts_with("z.record(") { return Err(format!("{}.{} is a Vec (declared T[] in plain mode) but its schema is `{}`, which accepts no array", cmd, key, sch)); }
                Err(format!("UNPARSED: schema of {}.{} is `{}`", cmd, key, sch))
            });
        }
    }
    // ---- C07: a command named by a raw identifier (r#move) keeps its channels: their message types, reachable through nothing else, are declared
    {
        let src = format!("{}#[derive(Serialize, Clone)]\npub struct StepEvent {{ pub detail: StepDetail }}\n#[derive(Serialize, Clone)]\npub struct StepDetail {{ pub n: u32 }}\n#[derive(Serialize, Clone)]\npub struct CopyTick {{ pub done: u64 }}\n#[derive(Serialize, Deserialize)]\npub struct Decoy16 {{ pub n: u32 }}\n\
            #[tauri::command]\npub fn r#move(on_step: tauri::ipc::Channel<StepEvent>, n: u32) -> u32 {{ n }}\n#[tauri::command]\npub fn copy(on_tick: tauri::ipc::Channel<CopyTick>) -> u32 {{ 0 }}\n#[tauri::command]\npub async fn r#async(r#type: u32) -> u32 {{ 0 }}\n", HDR);
        let dir = root.join("raw_channel/src");
        write_files(&dir, &[("lib.rs".to_string(), src)]);
        for mode in ["none", "zod"] {
            let files = generate(&dir, &root.join(format!("raw_channel/out_{}", mode)), mode);
            rep.case("mentioned_project_types_are_declared", &format!("fn r#move(on_step: Channel<StepEvent>, n: u32) with StepEvent {{ detail: StepDetail }}, next to fn copy(on_tick: Channel<CopyTick>) mode={}", mode), &|| {
                let files = files.as_ref().map_err(|e| e.clone())?;
                let exp = exports_of(files.get("types.ts").ok_or("no types.ts")?);
                for n in ["CopyTick", "StepEvent", "StepDetail"] { if !exp.contains(n) && !exp.contains(&format!("{}Schema", n)) { return Err(format!("{} is reachable through a channel of a command but types.ts does not declare it", n)); } }
                if exp.contains("Decoy16") || exp.contains("Decoy16Schema") { return Err("Decoy16 is declared although nothing reaches it".into()); }
                Ok("ok".into())
            });
        }
    }
    // ---- C18: a mapped name inside a tuple replaces that element only: the project types next to it are declared as without the mapping
    {
        let src = format!("{}use uuid::Uuid;\nuse std::path::PathBuf;\n#[derive(Serialize, Deserialize, Clone)]\npub struct Item16 {{ pub n: u32 }}\n#[derive(Serialize, Deserialize, Clone)]\npub struct Entry16 {{ pub n: u32 }}\n#[derive(Serialize, Deserialize, Clone)]\npub struct Leaf16 {{ pub n: u32 }}\n#[derive(Serialize, Deserialize, Clone)]\npub struct Mid16 {{ pub n: u32 }}\n\
            #[derive(Serialize, Deserialize, Clone)]\npub struct Shelf16 {{ pub pairs: HashMap<String, (PathBuf, Leaf16)>, pub triple: Option<(u32, Uuid, Mid16)> }}\n\
            #[tauri::command]\npub fn newest() -> (Uuid, Item16) {{ todo!() }}\n#[tauri::command]\npub fn listing(s: Shelf16) -> Vec<(Uuid, Entry16)> {{ todo!() }}\n", HDR);
        let dir = root.join("mapped_tuple/src");
        write_files(&dir, &[("lib.rs".to_string(), src)]);
        for mode in ["none", "zod"] {
            for mapped in [false, true] {
                rep.case("unmapped_types_are_rendered_as_without_the_mapping", &format!("fn newest() -> (Uuid, Item16); fn listing(s: Shelf16) -> Vec<(Uuid, Entry16)>; Shelf16 {{ pairs: HashMap<String, (PathBuf, Leaf16)>, triple: Option<(u32, Uuid, Mid16)> }} mappings={} mode={}", if mapped { "{Uuid: string, PathBuf: string}" } else { "none" }, mode), &|| {
                    let out = root.join(format!("mapped_tuple/out_{}_{}", mode, mapped));
                    let _ = fs::remove_dir_all(&out);
                    let mut cfg = GenerateConfig::default();
                    cfg.project_path = dir.to_string_lossy().to_string();
                    cfg.output_path = out.to_string_lossy().to_string();
                    cfg.validation_library = mode.to_string();
                    if mapped { cfg.type_mappings = Some([("Uuid", "string"), ("PathBuf", "string")].iter().map(|(a, b)| (a.to_string(), b.to_string())).collect()); }
                    generate_from_config(&cfg).map_err(|e| format!("generate_from_config returned Err: {}", e))?;
                    let exp = exports_of(&fs::read_to_string(out.join("types.ts")).map_err(|e| e.to_string())?);
                    for n in ["Item16", "Entry16", "Leaf16", "Mid16", "Shelf16"] { if !exp.contains(n) && !exp.contains(&format!("{}Schema", n)) { return Err(format!("{} stands next to a mapped name in a tuple and is not declared; the mapping replaces the mapped element only", n)); } }
                    Ok("ok".into())
                });
            }
        }
    }
    // ---- C09: a type reached on two routes (diamond, triangle) is defined before BOTH of its dependents, whichever is resolved first (16 runs: hash order)
    {
        let src = format!("{}#[derive(Serialize, Deserialize, Clone)]\npub struct Top16 {{ pub l: Left16, pub r: Right16 }}\n#[derive(Serialize, Deserialize, Clone)]\npub struct Left16 {{ pub s: Shared16 }}\n#[derive(Serialize, Deserialize, Clone)]\npub struct Right16 {{ pub s: Vec<Shared16> }}\n#[derive(Serialize, Deserialize, Clone)]\npub struct Shared16 {{ pub n: u32 }}\n\
            #[derive(Serialize, Deserialize, Clone)]\npub struct Apex16 {{ pub b: Base16, pub z: Zed16 }}\n#[derive(Serialize, Deserialize, Clone)]\npub struct Base16 {{ pub z: Option<Zed16> }}\n#[derive(Serialize, Deserialize, Clone)]\npub struct Zed16 {{ pub n: u32 }}\n\
            #[derive(Serialize, Deserialize, Clone)]\npub struct Direct16 {{ pub w: Wanted16 }}\n#[derive(Serialize, Deserialize, Clone)]\npub struct Wanted16 {{ pub n: u32 }}\n\
            #[tauri::command]\npub fn top(t: Top16) -> u32 {{ 0 }}\n#[tauri::command]\npub fn apex(a: Apex16) -> u32 {{ 0 }}\n#[tauri::command]\npub fn direct(w: Wanted16, d: Direct16) -> u32 {{ 0 }}\n", HDR);
        let dir = root.join("two_routes/src");
        write_files(&dir, &[("lib.rs".to_string(), src)]);
        rep.case("schemas_defined_before_use", "project=two_routes (Top16 -> {Left16, Right16} -> Shared16; Apex16 -> {Base16 -> Zed16, Zed16}; Wanted16 a parameter and a field of Direct16), 16 runs", &|| {
            for run in 0..16 {
                let files = generate(&dir, &root.join(format!("two_routes/out_zod_{}", run)), "zod")?;
                schemas_defined_before_use(files.get("types.ts").ok_or("no types.ts")?).map_err(|e| format!("run {}: {}", run, e))?;
            }
            Ok("16 runs".into())
        });
    }
    // ---- C09: forty structs in a chain, every fifth naming an enum: no schema is read before its definition (the order must hold beyond any small-input threshold)
    {
        let mut src = String::from(HDR);
        // (the enums sort after the structs by name, so the depth-first order interleaves them with the chain)
        for i in 0..8 { src.push_str(&format!("#[derive(Serialize, Deserialize, Clone)]\npub enum Zone{} {{ A, B }}\n", i)); }
        for i in 0..40 {
            let next = if i < 39 { format!("pub next: Vec<Node{}>, ", i + 1) } else { String::new() };
            let kind = if i % 5 == 0 { format!("pub kind: Zone{}, ", i / 5) } else { String::new() };
            src.push_str(&format!("#[derive(Serialize, Deserialize, Clone)]\npub struct Node{} {{ {}{}pub n: u32 }}\n", i, next, kind));
        }
        src.push_str("#[tauri::command]\npub fn chain(head: Node0) -> u32 { 0 }\n");
        let dir = root.join("long_chain/src");
        write_files(&dir, &[("lib.rs".to_string(), src)]);
        let files = generate(&dir, &root.join("long_chain/out_zod"), "zod");
        rep.case("schemas_defined_before_use", "project=long_chain (Node0 -> .. -> Node39, eight enums)", &|| schemas_defined_before_use(files.as_ref().map_err(|e| e.clone())?.get("types.ts").ok_or("no types.ts")?));
    }
    // ---- C10: names that differ only in letter case are different types in both modes
    {
        let src = format!("{}#[derive(Serialize, Deserialize, Clone)]\npub struct Url {{ pub raw: String }}\n#[allow(clippy::upper_case_acronyms)]\n#[derive(Serialize, Deserialize, Clone)]\npub struct URL {{ pub parts: Vec<String> }}\n#[derive(Serialize, Deserialize, Clone)]\npub struct Id {{ pub n: u32 }}\n#[derive(Serialize, Deserialize, Clone)]\npub struct ID {{ pub s: String }}\n#[derive(Serialize, Deserialize, Clone)]\npub struct Bookmark {{ pub target: Url }}\n#[tauri::command]\npub fn open(a: Url, b: URL, c: Id, d: ID, e: Bookmark) -> u32 {{ 0 }}\n", HDR);
        let dir = root.join("case_pairs/src");
        write_files(&dir, &[("lib.rs".to_string(), src)]);
        rep.case("both_modes_same_names_and_keys", "project=case_pairs (Url / URL, Id / ID as parameters), 8 runs", &|| {
            for run in 0..8 {
                let plain = generate(&dir, &root.join(format!("case_pairs/out_none_{}", run)), "none")?;
                let zod = generate(&dir, &root.join(format!("case_pairs/out_zod_{}", run)), "zod")?;
                let pe = exports_of(plain.get("types.ts").ok_or("no types.ts")?);
                let ze = exports_of(zod.get("types.ts").ok_or("no types.ts")?);
                for n in ["Url", "URL", "Id", "ID", "Bookmark"] {
                    if !pe.contains(n) { return Err(format!("run {}: plain mode does not declare {}", run, n)); }
                    if !ze.contains(&format!("{}Schema", n)) { return Err(format!("run {}: Zod mode declares no {}Schema although plain mode declares {}", run, n, n)); }
                }
            }
            Ok("8 runs".into())
        });
    }
    // ---- C12: a project that only emits events gets its listeners (no command is needed for that)
    {
        let src = format!("{}use tauri::Emitter;\n#[derive(Serialize, Clone)]\npub struct Beat2 {{ pub n: u32 }}\npub fn start(app: tauri::AppHandle) {{ app.emit(\"beat\", Beat2 {{ n: 1 }}).ok(); app.emit(\"plain-beat\", 1u32).ok(); }}\n", HDR);
        let dir = root.join("events_only/src");
        write_files(&dir, &[("lib.rs".to_string(), src)]);
        for mode in ["none", "zod"] {
            let files = generate(&dir, &root.join(format!("events_only/out_{}", mode)), mode);
            rep.case("events_without_commands_get_their_listeners", &format!("two emits, no #[tauri::command] mode={}", mode), &|| {
                let files = files.as_ref().map_err(|e| e.clone())?;
                let ev = files.get("events.ts").ok_or(format!("no events.ts was written (files: {:?})", files.keys().collect::<Vec<_>>()))?;
                for name in ["beat", "plain-beat"] { if !ev.contains(&format!("('{}',", name)) { return Err(format!("no listener subscribed to '{}'", name)); } }
                let exp = exports_of(files.get("types.ts").ok_or("no types.ts")?);
                if !exp.contains("Beat2") && !exp.contains("Beat2Schema") { return Err("the payload type Beat2 is not declared".into()); }
                if !files.get("index.ts").map_or(false, |i| i.contains("./events")) { return Err("index.ts does not re-export the events module".into()); }
                references_resolve(files, &["Beat2"])
            });
        }
    }
    // ---- C02: no module (index.ts through its re-exports included) exports a name twice
    {
        let exported_twice = |files: &BTreeMap<String, String>| -> Result<String, String> {
            let decls = |text: &str| -> Vec<(bool, String)> {
                let mut v = Vec::new();
                for l in text.lines() {
                    let t = l.trim_start();
                    for (pre, is_type) in [("export interface ", true), ("export type ", true), ("export const ", false), ("export async function ", false), ("export function ", false), ("export class ", false), ("export enum ", false)] {
                        if let Some(r) = t.strip_prefix(pre) { v.push((is_type, r.chars().take_while(|c| c.is_alphanumeric() || *c == '_' || *c == '$').collect())); }
                    }
                }
                v
            };
            for (f, text) in files {
                if !f.ends_with(".ts") { continue; }
                let mut seen = BTreeSet::new();
                for d in decls(text) { if !seen.insert(d.clone()) { return Err(format!("{} declares the exported {} `{}` twice", f, if d.0 { "type" } else { "value" }, d.1)); } }
            }
            if let Some(index) = files.get("index.ts") {
                let mut seen: BTreeMap<(bool, String), String> = BTreeMap::new();
                for l in index.lines() {
                    if let Some(r) = l.trim().strip_prefix("export * from './") {
                        let module = format!("{}.ts", r.trim_end_matches(|c| c == ';' || c == '\''));
                        for d in decls(files.get(&module).map(|s| s.as_str()).unwrap_or("")) {
                            if let Some(first) = seen.insert(d.clone(), module.clone()) { if first != module { return Err(format!("index.ts re-exports `{}` from {} and from {}", d.1, first, module)); } }
                        }
                    }
                }
            }
            Ok("ok".into())
        };
        let projects = [
            ("kf_params_name", "struct SaveParams next to the command `save` (whose parameter interface is SaveParams)", format!("{}#[derive(Serialize, Deserialize)]\npub struct SaveParams {{ pub overwrite: bool }}\n#[tauri::command]\npub fn save(file_name: String, options: SaveParams) -> u32 {{ 0 }}\n", HDR)),
            ("kf_listener_name", "command `on_progress` next to the event \"progress\" (listener onProgress)", format!("{}use tauri::Emitter;\n#[tauri::command]\npub fn on_progress(app: tauri::AppHandle, step: u32) -> u32 {{ app.emit(\"progress\", step).ok(); 0 }}\n", HDR)),
        ];
        for (pname, what, src) in &projects {
            let dir = root.join(format!("{}/src", pname));
            write_files(&dir, &[("lib.rs".to_string(), src.clone())]);
            for mode in ["none", "zod"] {
                let files = generate(&dir, &root.join(format!("{}/out_{}", pname, mode)), mode);
                rep.case("no_name_is_exported_twice", &format!("{} mode={}", what, mode), &|| exported_twice(files.as_ref().map_err(|e| e.clone())?));
            }
        }
    }
    // ---- C07: two reachable serde structs are two declarations, also when they share their name
    {
        let files_src = vec![
            ("lib.rs".to_string(), "pub mod users;\npub mod orders;\n".to_string()),
            ("users.rs".to_string(), format!("{}#[derive(Serialize, Deserialize)]\npub struct Filter {{ pub name: String }}\n#[tauri::command]\npub fn users(f: Filter) -> u32 {{ 0 }}\n", HDR)),
            ("orders.rs".to_string(), format!("{}#[derive(Serialize, Deserialize)]\n#[serde(rename_all = \"camelCase\")]\npub struct Filter {{ pub min_total: u32, pub status: String }}\n#[tauri::command]\npub fn orders(f: Filter) -> u32 {{ 0 }}\n", HDR)),
        ];
        let dir = root.join("kf_same_name/src");
        write_files(&dir, &files_src);
        for mode in ["none", "zod"] {
            let files = generate(&dir, &root.join(format!("kf_same_name/out_{}", mode)), mode);
            rep.case("same_named_types_are_declared_apart", &format!("users::Filter {{ name }} and orders::Filter {{ min_total, status }}, each the parameter of a command mode={}", mode), &|| {
                let files = files.as_ref().map_err(|e| e.clone())?;
                let t = files.get("types.ts").ok_or("no types.ts")?;
                let head = if mode == "zod" { "export const " } else { "export interface " };
                let decls: Vec<&str> = t.lines().filter(|l| l.starts_with(head) && l[head.len()..].starts_with("Filter")).collect();
                let mut all_keys = BTreeSet::new();
                for name in decls.iter().map(|l| l[head.len()..].chars().take_while(|c| c.is_alphanumeric() || *c == '_').collect::<String>()) {
                    let n = name.trim_end_matches("Schema").to_string();
                    for k in object_keys(t, &n, mode == "zod").unwrap_or_default() { all_keys.insert(k); }
                }
                for k in ["name", "minTotal", "status"] { if !all_keys.contains(k) { return Err(format!("the declarations named Filter* ({:?}) have the keys {:?}: `{}` of the other struct Filter is missing, one of the two reachable structs is not declared", decls, all_keys, k)); } }
                Ok(format!("{:?}", all_keys))
            });
        }
    }
    // ---- C10: the schema of a recursive type can be evaluated (a constant is not read inside its own initialiser)
    {
        let src = format!("{}#[derive(Serialize, Deserialize)]\npub struct TreeNode {{ pub label: String, pub children: Vec<TreeNode> }}\n#[tauri::command]\npub fn tree(root: TreeNode) -> u32 {{ 0 }}\n", HDR);
        let dir = root.join("kf_recursive/src");
        write_files(&dir, &[("lib.rs".to_string(), src)]);
        let files = generate(&dir, &root.join("kf_recursive/out_zod"), "zod");
        rep.case("recursive_schemas_can_be_evaluated", "struct TreeNode { label: String, children: Vec<TreeNode> } mode=zod", &|| {
            let files = files.as_ref().map_err(|e| e.clone())?;
            let t = files.get("types.ts").ok_or("no types.ts")?;
            let st = t.find("export const TreeNodeSchema").ok_or("UNPARSED: no TreeNodeSchema")?;
            let en = t[st..].find(";\n").map(|e| st + e).unwrap_or(t.len());
            let init = &t[st + "export const TreeNodeSchema".len()..en];
            let mut from = 0;
            while let Some(p) = init[from..].find("TreeNodeSchema") {
                let at = from + p;
                let lazy = init[..at].rfind("z.lazy(").map_or(false, |l| init[l..at].matches('(').count() > init[l..at].matches(')').count());
                if !lazy { return Err(format!("TreeNodeSchema is read inside its own initialiser outside z.lazy: `{}` - evaluating the module throws a ReferenceError", init.trim().replace('\n', " "))); }
                from = at + 1;
            }
            Ok("ok".into())
        });
    }
    // ---- C12: the listener of every Tauri-legal event name has an identifier for a name
    {
        let src = format!("{}use tauri::Emitter;\n#[tauri::command]\npub fn measure(app: tauri::AppHandle) -> u32 {{ app.emit(\"m\u{b2}-changed\", 1u32).ok(); app.emit(\"\u{bd}-done\", true).ok(); app.emit(\"caf\u{e9}-open\", 2u32).ok(); 0 }}\n", HDR);
        let dir = root.join("kf_event_names/src");
        write_files(&dir, &[("lib.rs".to_string(), src)]);
        for mode in ["none", "zod"] {
            let files = generate(&dir, &root.join(format!("kf_event_names/out_{}", mode)), mode);
            for ev in ["m\u{b2}-changed", "\u{bd}-done", "caf\u{e9}-open"] {
                rep.case("listener_names_are_identifiers", &format!("emit(\"{}\", ..) mode={}", ev, mode), &|| {
                    let files = files.as_ref().map_err(|e| e.clone())?;
                    let e = files.get("events.ts").ok_or("no events.ts")?;
                    let at = e.find(&format!("('{}'", ev)).or_else(|| e.find(&format!("(\"{}\"", ev))).ok_or(format!("UNPARSED: events.ts does not subscribe to {}", ev))?;
                    let fn_at = e[..at].rfind("export async function ").ok_or("UNPARSED: no listener function before the subscription")?;
                    let name: String = e[fn_at + "export async function ".len()..].chars().take_while(|c| *c != '(' && *c != '<' && !c.is_whitespace()).collect();
                    let ok = name.chars().next().map_or(false, |c| unicode_ident::is_xid_start(c) || c == '_' || c == '$') && name.chars().skip(1).all(|c| unicode_ident::is_xid_continue(c) || c == '$' || c == '\u{200c}' || c == '\u{200d}');
                    if ok { Ok(name) } else { Err(format!("listener `{}` of the event \"{}\": not an identifier (a character outside ID_Start / ID_Continue)", name, ev)) }
                });
            }
        }
    }
    // ---- C18: a mapped type is rendered as its target, whatever the target is
    {
        let src = format!("{}#[derive(Serialize, Deserialize)]\npub struct Visit2 {{ pub at: Stamp2, pub level: Level2 }}\n#[tauri::command]\npub fn last_visit() -> Stamp2 {{ todo!() }}\n#[tauri::command]\npub fn level() -> Option<Level2> {{ None }}\n#[tauri::command]\npub fn visit2(v: Visit2) -> u32 {{ 0 }}\n", HDR);
        let dir = root.join("kf_targets/src");
        write_files(&dir, &[("lib.rs".to_string(), src)]);
        for mode in ["none", "zod"] {
            let out = root.join(format!("kf_targets/out_{}", mode));
            let _ = fs::remove_dir_all(&out);
            let mut cfg = GenerateConfig::default();
            cfg.project_path = dir.to_string_lossy().to_string();
            cfg.output_path = out.to_string_lossy().to_string();
            cfg.validation_library = mode.to_string();
            cfg.type_mappings = Some([("Stamp2".to_string(), "Date".to_string()), ("Level2".to_string(), "\"low\" | \"high\"".to_string())].into_iter().collect());
            let res = generate_from_config(&cfg).map_err(|e| format!("generate_from_config returned Err: {}", e)).map(|_| {
                let mut m = BTreeMap::new();
                for f in ["types.ts", "commands.ts", "events.ts", "index.ts"] { if let Ok(t) = fs::read_to_string(out.join(f)) { m.insert(f.to_string(), t); } }
                m
            });
            for (cmd, target, bad, good) in [("lastVisit", "Stamp2 -> Date, fn last_visit() -> Stamp2", "types.Date", "Promise<Date>"), ("level", "Level2 -> \"low\" | \"high\", fn level() -> Option<Level2>", "types.\"", "\"low\" | \"high\"")] {
                rep.case("mapped_type_is_rendered_as_its_target", &format!("{} mode={}", target, mode), &|| {
                    let files = res.as_ref().map_err(|e| e.clone())?;
                    let c = files.get("commands.ts").ok_or("no commands.ts")?;
                    let line = c.lines().find(|l| l.contains(&format!("function {}(", cmd))).ok_or(format!("UNPARSED: no function {}", cmd))?;
                    if line.contains(bad) { return Err(format!("commands.ts: `{}` - the target is glued to the `types.` namespace, which exports no such name", line.trim())); }
                    if !line.contains(good) { return Err(format!("commands.ts: `{}` does not name the target `{}`", line.trim(), good)); }
                    Ok(line.trim().to_string())
                });
            }
        }
    }
    // ---- C04: keys are converted the way Tauri's command macro converts them (heck), also for names that are not plain snake_case
    {
        let src = format!("{}use tauri::ipc as tipc;\n#[allow(non_snake_case)]\n#[tauri::command]\npub fn odd_names(userID: String, HTTP_port: u16, plain_name: u32) -> u32 {{ 0 }}\n#[tauri::command(rename_all = \"snake_case\")]\npub fn snake_names(_window_label: String, max__size: u32, plain_name: u32) -> u32 {{ 0 }}\n#[tauri::command]\npub fn watch(id: u32, on_tick: tipc::Channel<u32>) -> u32 {{ 0 }}\n", HDR);
        let dir = root.join("kf_cases/src");
        write_files(&dir, &[("lib.rs".to_string(), src)]);
        for mode in ["none", "zod"] {
            let files = generate(&dir, &root.join(format!("kf_cases/out_{}", mode)), mode);
            for (obj, sig, want) in [
                ("OddNamesParams", "fn odd_names(userID: String, HTTP_port: u16, plain_name: u32) (camelCase)", vec!["httpPort", "plainName", "userId"]),
                ("SnakeNamesParams", "#[tauri::command(rename_all = \"snake_case\")] fn snake_names(_window_label: String, max__size: u32, plain_name: u32)", vec!["max_size", "plain_name", "window_label"]),
            ] {
                rep.case("invoke_keys_follow_the_case_conversion_of_tauri", &format!("{} mode={}", sig, mode), &|| {
                    let files = files.as_ref().map_err(|e| e.clone())?;
                    let mut keys = object_keys(files.get("types.ts").ok_or("no types.ts")?, obj, mode == "zod").ok_or(format!("UNPARSED: {} not found", obj))?;
                    keys.sort();
                    if keys != want { return Err(format!("keys {:?}; Tauri's command macro (heck) reads {:?}", keys, want)); }
                    Ok(format!("{:?}", keys))
                });
            }
            rep.case("aliased_channel_keeps_its_key", &format!("use tauri::ipc as tipc; fn watch(id: u32, on_tick: tipc::Channel<u32>) mode={}", mode), &|| {
                let files = files.as_ref().map_err(|e| e.clone())?;
                let t = files.get("types.ts").ok_or("no types.ts")?;
                let block: String = t.split("\n\n").filter(|b| b.contains("WatchParams")).collect::<Vec<_>>().join("\n");
                if block.is_empty() { return Err("UNPARSED: no declaration of WatchParams".into()); }
                if !block.contains("onTick:") && !block.contains("onTick?:") { return Err("the argument object of `watch` has no key `onTick`: the command parser drops every `..::Channel<T>` from the plain parameters, the channel parser does not take `tipc::Channel<u32>` for a channel".into()); }
                Ok("ok".into())
            });
        }
    }
    let _ = fs::remove_dir_all(&root);
    rep.finish()
}
