// BOUNDED stand-in (syn / template glue, corpus-based): generated bindings of small projects that
// enumerate the SPELLINGS the properties quantify over — injected parameters (C04), derive and serde
// attribute forms (C06, C07, C02), emit placements and combinations (C12, C15), source transformations
// (C13), output paths (C16), both output modes (C10) — checked against expectations computed from the
// property statements.  Labelled bounded; never counted as proved.
use std::collections::{BTreeMap, BTreeSet};
use std::fs;
use std::path::{Path, PathBuf};
use tauri_typegen::analysis::CommandAnalyzer;
use tauri_typegen::{generate_from_config, GenerateConfig};
use verif_native::*;

const HDR: &str = "use serde::{Serialize, Deserialize};\nuse std::collections::HashMap;\n";

fn write_files(dir: &Path, files: &[(String, String)]) {
    let _ = fs::remove_dir_all(dir);
    for (f, c) in files {
        let p = dir.join(f);
        fs::create_dir_all(p.parent().unwrap()).unwrap();
        fs::write(p, c).unwrap();
    }
}

fn generate(src: &Path, out: &Path, mode: &str) -> Result<BTreeMap<String, String>, String> {
    let _ = fs::remove_dir_all(out);
    let mut cfg = GenerateConfig::default();
    cfg.project_path = src.to_string_lossy().to_string();
    cfg.output_path = out.to_string_lossy().to_string();
    cfg.validation_library = mode.to_string();
    generate_from_config(&cfg).map_err(|e| format!("generate_from_config returned Err: {}", e))?;
    let mut m = BTreeMap::new();
    for e in fs::read_dir(out).map_err(|e| e.to_string())?.flatten() {
        if e.path().is_file() { m.insert(e.file_name().to_string_lossy().to_string(), fs::read_to_string(e.path()).unwrap_or_default()); }
    }
    Ok(m)
}

/// keys of `export interface Name { ... }` (mode none) / `export const NameSchema = z.object({ ... })` (zod)
fn object_keys(types_ts: &str, name: &str, zod: bool) -> Option<Vec<String>> {
    let head = if zod { format!("export const {}Schema = z.object({{", name) } else { format!("export interface {} {{", name) };
    let start = types_ts.find(&head)? + head.len();
    let rest = &types_ts[start..];
    let mut depth = 0i32;
    let mut end = rest.len();
    for (i, ch) in rest.char_indices() {
        match ch { '{' | '(' | '[' => depth += 1, '}' | ')' | ']' => { if depth == 0 { end = i; break; } depth -= 1; } _ => {} }
    }
    let mut keys = Vec::new();
    // entries are separated by `,` `;` or a line break at nesting depth 0
    let mut entries: Vec<String> = vec![String::new()];
    let mut d = 0i32;
    let mut in_str: Option<char> = None;
    for ch in rest[..end].chars() {
        if let Some(q) = in_str { if ch == q { in_str = None; } entries.last_mut().unwrap().push(ch); continue; }
        match ch {
            '"' | '\'' => { in_str = Some(ch); entries.last_mut().unwrap().push(ch); }
            '(' | '[' | '{' | '<' => { d += 1; entries.last_mut().unwrap().push(ch); }
            ')' | ']' | '}' | '>' => { d -= 1; entries.last_mut().unwrap().push(ch); }
            ',' | ';' | '\n' if d == 0 => entries.push(String::new()),
            _ => entries.last_mut().unwrap().push(ch),
        }
    }
    for e in entries {
        let l = e.trim();
        if l.is_empty() || l.starts_with("//") || l.starts_with('[') { continue; }
        if let Some(c) = l.find(':') { keys.push(l[..c].trim().trim_end_matches('?').trim_matches('"').trim_matches('\'').to_string()); }
    }
    Some(keys)
}

/// literals of `export type Name = "a" | "b";` (none) / `export const NameSchema = z.enum(["a", "b"]);` (zod)
fn enum_literals(types_ts: &str, name: &str, zod: bool) -> Option<Vec<String>> {
    let head = if zod { format!("export const {}Schema = z.enum([", name) } else { format!("export type {} = ", name) };
    let start = types_ts.find(&head)? + head.len();
    let rest = &types_ts[start..];
    let end = rest.find(';')?;
    let mut v = Vec::new();
    let mut cur: Option<String> = None;
    for ch in rest[..end].chars() {
        match (&mut cur, ch) { (None, '"') => cur = Some(String::new()), (Some(s), '"') => { v.push(s.clone()); cur = None; } (Some(s), c) => s.push(c), _ => {} }
    }
    Some(v)
}

// ---- serde's renaming rules, transcribed from the serde documentation (oracle)
fn words_of_field(f: &str) -> Vec<String> { f.split('_').filter(|w| !w.is_empty()).map(|w| w.to_string()).collect() }
fn words_of_variant(v: &str) -> Vec<String> {
    let mut ws: Vec<String> = Vec::new();
    for (i, ch) in v.chars().enumerate() { if i == 0 || ch.is_uppercase() { ws.push(String::new()); } ws.last_mut().unwrap().push(ch); }
    ws
}
fn cap(w: &str) -> String { let mut c = w.chars(); match c.next() { Some(f) => f.to_uppercase().collect::<String>() + c.as_str(), None => String::new() } }
fn apply_rule(rule: &str, name: &str, variant: bool) -> String {
    let ws: Vec<String> = if variant { words_of_variant(name) } else { words_of_field(name) }.iter().map(|w| w.to_lowercase()).collect();
    match rule {
        "lowercase" => if variant { name.to_lowercase() } else { name.to_string() },
        "UPPERCASE" => name.to_uppercase(),
        "PascalCase" => if variant { name.to_string() } else { ws.iter().map(|w| cap(w)).collect() },
        "camelCase" => if variant { let mut c = name.chars(); match c.next() { Some(f) => f.to_lowercase().collect::<String>() + c.as_str(), None => String::new() } }
                       else { ws.iter().enumerate().map(|(i, w)| if i == 0 { w.clone() } else { cap(w) }).collect() },
        "snake_case" => if variant { ws.join("_") } else { name.to_string() },
        "SCREAMING_SNAKE_CASE" => if variant { ws.join("_").to_uppercase() } else { name.to_uppercase() },
        "kebab-case" => if variant { ws.join("_").replace('_', "-") } else { name.replace('_', "-") },
        "SCREAMING-KEBAB-CASE" => if variant { ws.join("_").to_uppercase().replace('_', "-") } else { name.to_uppercase().replace('_', "-") },
        _ => name.to_string(),
    }
}

fn main() {
    let mut rep = Report::new();
    let root = std::env::temp_dir().join(format!("verif_surface_{}", std::process::id()));
    let _ = fs::create_dir_all(&root);

    // ============================================================ C04: injected-parameter spellings
    {
        let injected = [
            "app: AppHandle", "app: tauri::AppHandle", "app: AppHandle<R>", "app: tauri::AppHandle<R>", "app: AppHandle<tauri::Wry>",
            "state: State<'_, AppState>", "state: tauri::State<'_, AppState>", "state: State<AppState>",
            "window: tauri::Window", "window: Window<R>", "window: tauri::Window<R>",
            "webview: WebviewWindow", "webview: tauri::WebviewWindow", "webview: WebviewWindow<R>", "webview: tauri::WebviewWindow<R>",
            "request: tauri::ipc::Request<'_>",
        ];
        let mut src = format!("{}use tauri::{{AppHandle, State, Window, WebviewWindow, Runtime, ipc::Channel}};\npub struct AppState;\n", HDR);
        for (i, inj) in injected.iter().enumerate() {
            let generic = if inj.contains("<R>") { "<R: Runtime>" } else { "" };
            src.push_str(&format!("#[tauri::command]\npub fn cmd_{}{}(first_arg: String, {}, second_arg: Option<u32>, on_event: Channel<u32>) -> u32 {{ 0 }}\n", i, generic, inj));
        }
        let dir = root.join("inject/src");
        write_files(&dir, &[("lib.rs".to_string(), src)]);
        for (i, inj) in injected.iter().enumerate() {
            rep.case("invoke_keys_exclude_injected_parameters", &format!("fn cmd_{}(first_arg: String, {}, second_arg: Option<u32>, on_event: Channel<u32>)", i, inj), &|| {
                let mut an = CommandAnalyzer::new();
                let cmds = an.analyze_project(dir.to_str().unwrap()).map_err(|e| e.to_string())?;
                let c = cmds.iter().find(|c| c.name == format!("cmd_{}", i)).ok_or("command not discovered")?;
                let ps: Vec<&str> = c.parameters.iter().map(|p| p.name.as_str()).collect();
                let chs: Vec<&str> = c.channels.iter().map(|p| p.parameter_name.as_str()).collect();
                if ps != ["first_arg", "second_arg"] { return Err(format!("frontend parameters are {:?}, expected [first_arg, second_arg] (Tauri injects `{}`)", ps, inj)); }
                if chs != ["on_event"] { return Err(format!("channels are {:?}, expected [on_event]", chs)); }
                let opt: Vec<bool> = c.parameters.iter().map(|p| p.is_optional).collect();
                if opt != [false, true] { return Err(format!("optional flags {:?}, expected [false, true]", opt)); }
                Ok(format!("{:?}", ps))
            });
        }
        for mode in ["none", "zod"] {
            rep.case("invoke_keys_in_generated_bindings", &format!("project=inject mode={}", mode), &|| {
                let files = generate(&dir, &root.join(format!("inject/out_{}", mode)), mode)?;
                let t = files.get("types.ts").ok_or("no types.ts")?;
                for i in 0..injected.len() {
                    let name = format!("Cmd{}Params", i);
                    let keys = object_keys(t, &name, mode == "zod").ok_or(format!("{} not declared in types.ts ({})", name, mode))?;
                    let mut want = vec!["firstArg".to_string(), "secondArg".to_string()];
                    let mut got: Vec<String> = keys.into_iter().filter(|k| k != "onEvent").collect();
                    got.sort(); want.sort();
                    if got != want { return Err(format!("{}: keys {:?}, expected {:?} (+ channel) for `{}`", name, got, want, injected[i])); }
                }
                Ok("ok".into())
            });
        }
    }

    // ============================================================ C06 / C07 / C02: derive spellings and serde attributes
    {
        // (field declaration incl. attributes, expected wire key or None when skipped)
        let fields: Vec<(&str, &str, Option<&str>)> = vec![
            ("plain_field", "", Some("plain_field")),
            ("renamed", "#[serde(rename = \"wire-name\")]", Some("wire-name")),
            ("skipped", "#[serde(skip)]", None),
            ("skip_then_default", "#[serde(skip, default)]", None),
            ("default_then_skip", "#[serde(default, skip)]", None),
            ("default_fn_then_skip", "#[serde(default = \"make\", skip)]", None),
            ("rename_then_skip", "#[serde(rename = \"tok\", skip)]", None),
            ("skip_in_second_attr", "#[serde(default)]\n    #[serde(skip)]", None),
            ("ser_if", "#[serde(skip_serializing_if = \"Option::is_none\")]", Some("ser_if")),
            ("with_default", "#[serde(default)]", Some("with_default")),
            ("rename_mentions_skip", "#[serde(rename = \"skip_count\")]", Some("skip_count")),
            ("alias_mentions_rename", "#[serde(alias = \"rename_all\")]", Some("alias_mentions_rename")),
            ("rename_and_default", "#[serde(default, rename = \"rd\")]", Some("rd")),
        ];
        let conventions = ["", "lowercase", "UPPERCASE", "PascalCase", "camelCase", "snake_case", "SCREAMING_SNAKE_CASE", "kebab-case", "SCREAMING-KEBAB-CASE"];
        let derives = ["#[derive(Serialize, Deserialize)]", "#[derive(Debug, Clone, serde::Serialize, serde::Deserialize)]", "#[derive(serde::Serialize)]\n#[derive(Debug)]", "#[derive(Deserialize, Clone)]"];
        let variants = ["FastPath", "Slow", "HTTPServer", "X86_64", "A"];
        let mut src = format!("{}fn make() -> u32 {{ 0 }}\n", HDR);
        let mut structs: Vec<(String, Vec<(String, bool)>)> = Vec::new();  // name -> expected keys (key, quoted?)
        let mut enums: Vec<(String, Vec<String>)> = Vec::new();
        let mut cmd_params = Vec::new();
        for (ci, conv) in conventions.iter().enumerate() {
            let sname = format!("Rec{}", ci);
            let ra = if conv.is_empty() { String::new() } else { format!("#[serde(rename_all = \"{}\")]\n", conv) };
            let mut body = String::new();
            let mut keys = Vec::new();
            for (fname, attr, want) in &fields {
                if !attr.is_empty() { body.push_str(&format!("    {}\n", attr)); }
                let ty = if *fname == "ser_if" { "Option<u32>" } else { "u32" };
                body.push_str(&format!("    pub {}: {},\n", fname, ty));
                if let Some(w) = want {
                    let explicit = attr.contains("rename = ");
                    let key = if explicit || conv.is_empty() { w.to_string() } else { apply_rule(conv, fname, false) };
                    keys.push((key, false));
                }
            }
            src.push_str(&format!("{}\n{}pub struct {} {{\n{}}}\n", derives[ci % derives.len()], ra, sname, body));
            structs.push((sname.clone(), keys));
            let ename = format!("Kind{}", ci);
            let mut lits = Vec::new();
            let mut ebody = String::new();
            for v in variants { ebody.push_str(&format!("    {},\n", v)); lits.push(if conv.is_empty() { v.to_string() } else { apply_rule(conv, v, true) }); }
            ebody.push_str("    #[serde(rename = \"explicit\")]\n    Renamed,\n");
            lits.push("explicit".to_string());
            src.push_str(&format!("#[allow(non_camel_case_types)]\n{}\n{}pub enum {} {{\n{}}}\n", derives[(ci + 1) % derives.len()], ra, ename, ebody));
            enums.push((ename.clone(), lits));
            cmd_params.push(format!("r{}: {}, k{}: {}", ci, sname, ci, ename));
        }
        src.push_str("#[derive(Debug, Clone)]\npub struct NotSerde { pub x: u32 }\n");
        src.push_str(&format!("#[tauri::command]\npub fn take({}) -> u32 {{ 0 }}\n", cmd_params.join(", ")));
        let dir = root.join("serde/src");
        write_files(&dir, &[("lib.rs".to_string(), src)]);
        for mode in ["none", "zod"] {
            let out = root.join(format!("serde/out_{}", mode));
            let files = generate(&dir, &out, mode);
            for (sname, keys) in &structs {
                rep.case("struct_keys_are_serde_wire_names", &format!("struct {} mode={}", sname, mode), &|| {
                    let files = files.as_ref().map_err(|e| e.clone())?;
                    let t = files.get("types.ts").ok_or("no types.ts")?;
                    let got = object_keys(t, sname, mode == "zod").ok_or(format!("{} is not declared in types.ts although it derives serde traits and a command uses it", sname))?;
                    let want: Vec<String> = keys.iter().map(|(k, _)| k.clone()).collect();
                    if got == want { Ok(format!("{:?}", got)) } else { Err(format!("keys {:?}, serde's wire names are {:?}", got, want)) }
                });
            }
            for (ename, lits) in &enums {
                rep.case("enum_literals_are_serde_wire_names", &format!("enum {} mode={}", ename, mode), &|| {
                    let files = files.as_ref().map_err(|e| e.clone())?;
                    let t = files.get("types.ts").ok_or("no types.ts")?;
                    let got = enum_literals(t, ename, mode == "zod").ok_or(format!("{} is not declared in types.ts although it derives serde traits and a command uses it", ename))?;
                    if got == *lits { Ok(format!("{:?}", got)) } else { Err(format!("literals {:?}, serde's wire names are {:?}", got, lits)) }
                });
            }
            rep.case("non_serde_types_not_emitted", &format!("mode={}", mode), &|| {
                let files = files.as_ref().map_err(|e| e.clone())?;
                let t = files.get("types.ts").ok_or("no types.ts")?;
                if t.contains("NotSerde") { Err("NotSerde (no serde derive, unreachable) appears in types.ts".into()) } else { Ok("ok".into()) }
            });
        }
    }

    // ============================================================ C12 / C15: emit placements, combinations, odd calls
    {
        let sites: Vec<(&str, &str)> = vec![
            ("a-stmt", "app.emit(\"a-stmt\", 1u32).unwrap();"),
            ("a-await-unwrap", "app.emit(\"a-await-unwrap\", 1u32).await.unwrap();"),
            ("a-await-ok", "window.emit_to(\"main\", \"a-await-ok\", 1u32).await.ok();"),
            ("a-await-map-err-try", "app.emit(\"a-await-map-err-try\", 1u32).await.map_err(|e| e.to_string())?;"),
            ("a-try-ok", "let _ = app.emit(\"a-try-ok\", 1u32).map_err(|e| e.to_string())?;"),
            ("a-if-expr", "let _s = if flag { app.emit(\"a-if-expr\", 1u32) } else { app.emit(\"a-else-expr\", 2u32) }.is_ok();"),
            ("a-else-expr", ""),
            ("a-match-expr", "let _m = match flag { true => app.emit(\"a-match-expr\", 1u32), false => Ok(()) }.is_ok();"),
            ("a-typed-let", "let _t: Result<(), tauri::Error> = app.emit(\"a-typed-let\", 1u32);"),
            ("a-field-recv", "self_like.app.emit(\"a-field-recv\", 1u32).ok();"),
            ("a-method-recv", "self_like.handle().emit(\"a-method-recv\", 1u32).ok();"),
            ("a-webview", "webview.emit(\"a-webview\", 1u32).ok();"),
            ("a-ref-payload", "app.emit(\"a-ref-payload\", &flag).ok();"),
        ];
        let body: String = sites.iter().map(|(_, s)| format!("    {}\n", s)).collect();
        let src = format!("{}use tauri::Emitter;\npub struct Holder {{ pub app: tauri::AppHandle }}\nimpl Holder {{ fn handle(&self) -> tauri::AppHandle {{ todo!() }} }}\n\
            #[tauri::command]\npub async fn run(app: tauri::AppHandle, window: tauri::Window, webview: tauri::WebviewWindow, self_like: Holder, flag: bool) -> Result<(), String> {{\n{}}}\n\
            // a non-Tauri bus whose emit_to takes two arguments, and calls with too few arguments: must be ignored, never panic\n\
            pub fn other(bus: Bus, app: tauri::AppHandle) {{ bus.sink().emit_to(\"main\", \"b-two-args\"); app.emit_to(\"only-target\"); app.emit(\"b-one-arg\"); app.emit(); }}\n", HDR, body);
        let dir = root.join("emits/src");
        write_files(&dir, &[("lib.rs".to_string(), src)]);
        rep.case("emit_placements_and_combinations", "project=emits", &|| {
            let mut an = CommandAnalyzer::new();
            an.analyze_project(dir.to_str().unwrap()).map_err(|e| e.to_string())?;
            let got: BTreeSet<String> = an.get_discovered_events().iter().map(|e| e.event_name.clone()).collect();
            let missing: Vec<&str> = sites.iter().map(|(n, _)| *n).filter(|n| !got.contains(*n)).collect();
            if !missing.is_empty() { return Err(format!("emit sites without a discovered event: {:?} (discovered: {:?})", missing, got)); }
            Ok(format!("{:?}", got))
        });
    }

    // ============================================================ C13: reordering / moving items changes at most the order of declarations
    {
        let items: Vec<String> = vec![
            format!("{}\n", "#[derive(Serialize, Deserialize, Clone)]\npub struct Progress { pub pct: u32 }"),
            format!("{}\n", "#[derive(Serialize, Deserialize, Clone)]\npub struct Summary { pub total: u32, pub last: Progress }"),
            "#[tauri::command]\npub fn start(app: tauri::AppHandle, update: Progress) -> u32 { app.emit(\"started\", update).ok(); 0 }\n".to_string(),
            "fn build_summary() -> Summary { todo!() }\n#[tauri::command]\npub fn finish(app: tauri::AppHandle) -> Summary { let update = build_summary(); app.emit(\"finished\", update.clone()).ok(); update }\n".to_string(),
            "#[tauri::command]\npub fn poll(update: Option<Summary>) -> Vec<Progress> { vec![] }\n".to_string(),
            "pub fn decoy_helper(update: Progress) -> Progress { update }\n".to_string(),
        ];
        let hdr = format!("{}use tauri::Emitter;\n", HDR);
        let layouts: Vec<(&str, Vec<(String, String)>)> = vec![
            ("one-file", vec![("lib.rs".to_string(), format!("{}{}", hdr, items.join("")))]),
            ("one-file-reversed", vec![("lib.rs".to_string(), format!("{}{}", hdr, items.iter().rev().cloned().collect::<Vec<_>>().join("")))]),
            ("two-files", vec![("a.rs".to_string(), format!("{}{}{}{}", hdr, items[0], items[2], items[5])), ("b.rs".to_string(), format!("{}{}{}{}", hdr, items[1], items[3], items[4]))]),
            ("two-files-swapped", vec![("b.rs".to_string(), format!("{}{}{}{}", hdr, items[5], items[2], items[0])), ("a.rs".to_string(), format!("{}{}{}{}", hdr, items[4], items[3], items[1]))]),
            ("with-noise", vec![("lib.rs".to_string(), format!("{}// comment\n\n\n{}", hdr, items.iter().map(|s| format!("/* noise */\n{}\n\npub fn unrelated_{}() {{}}\n", s, s.len())).collect::<Vec<_>>().join("")))]),
        ];
        for mode in ["none", "zod"] {
            let mut reference: Option<(String, BTreeMap<String, Vec<String>>)> = None;
            for (lname, files) in &layouts {
                let dir = root.join(format!("layout/{}/src", lname));
                write_files(&dir, files);
                let out = root.join(format!("layout/{}/out_{}", lname, mode));
                let res = generate(&dir, &out, mode).map(|fs| {
                    fs.into_iter().filter(|(k, _)| k.ends_with(".ts")).map(|(k, v)| {
                        // declaration blocks, order-insensitive: split at blank lines, drop the header comment
                        let mut blocks: Vec<String> = v.split("\n\n").map(|b| b.trim().to_string()).filter(|b| !b.is_empty() && !b.contains("Generated at:")).collect();
                        blocks.sort();
                        (k, blocks)
                    }).collect::<BTreeMap<_, _>>()
                });
                match (&reference, res) {
                    (None, Ok(r)) => reference = Some((lname.to_string(), r)),
                    (Some((rname, r0)), Ok(r)) => {
                        let r0c = r0.clone();
                        let rn = rname.clone();
                        rep.case("layout_changes_only_reorder_declarations", &format!("layout {} vs {} mode={}", rn, lname, mode), &|| {
                            for (file, blocks) in &r0c {
                                match r.get(file) {
                                    None => return Err(format!("{} is generated for layout {} but not for {}", file, rn, lname)),
                                    Some(b2) => if b2 != blocks {
                                        let d: Vec<&String> = blocks.iter().filter(|b| !b2.contains(b)).collect();
                                        return Err(format!("{} differs in content, e.g. block {:?}", file, d.first().map(|s| s.chars().take(160).collect::<String>())));
                                    }
                                }
                            }
                            Ok("same".into())
                        });
                    }
                    (_, Err(e)) => { let e2 = e.clone(); rep.case("layout_changes_only_reorder_declarations", &format!("layout {} mode={}", lname, mode), &|| Err(e2.clone())); }
                }
            }
        }
    }

    // ============================================================ C16: unusual output paths; nothing outside the output directory changes
    {
        let proj = root.join("io/app");
        let src = proj.join("src-tauri/src");
        write_files(&src, &[("lib.rs".to_string(), format!("{}{}#[tauri::command]\npub fn get() -> Thing {{ todo!() }}\n", HDR, "#[derive(Serialize, Deserialize)]\npub struct Thing { pub x: u32 }\n"))]);
        let outs = ["ui/src/generated", "ui/src\\generated", "ui/my bindings", "ui/ünïcode/gen", "ui/gen.d", "./ui/dot/../gen2"];
        for o in outs {
            for mode in ["none", "zod"] {
                rep.case("writes_stay_inside_the_output_directory", &format!("output_path={:?} mode={}", o, mode), &|| {
                    // foreign files next to and around the output directory, including the path with '\' read as '/'
                    let _ = fs::remove_dir_all(proj.join("ui"));
                    for d in ["ui/src/generated", "ui/src", "ui"] { fs::create_dir_all(proj.join(d)).map_err(|e| e.to_string())?; }
                    fs::write(proj.join("ui/src/generated/types.ts"), "// foreign types.ts").map_err(|e| e.to_string())?;
                    fs::write(proj.join("ui/src/app.ts"), "// app").map_err(|e| e.to_string())?;
                    let out = proj.join(o);
                    fn walk(d: &Path, m: &mut BTreeMap<PathBuf, String>) { if let Ok(rd) = fs::read_dir(d) { for e in rd.flatten() { let p = e.path(); if p.is_dir() { walk(&p, m); } else { m.insert(p.clone(), fs::read_to_string(&p).unwrap_or_default()); } } } }
                    let mut before = BTreeMap::new();
                    walk(&proj, &mut before);
                    let mut cfg = GenerateConfig::default();
                    cfg.project_path = src.to_string_lossy().to_string();
                    cfg.output_path = out.to_string_lossy().to_string();
                    cfg.validation_library = mode.to_string();
                    generate_from_config(&cfg).map_err(|e| format!("generate_from_config returned Err: {}", e))?;
                    let mut after = BTreeMap::new();
                    walk(&proj, &mut after);
                    let canon_out = fs::canonicalize(&out).map_err(|e| format!("configured output directory does not exist after the run: {}", e))?;
                    for (p, c) in &before {
                        let inside = fs::canonicalize(p).map(|cp| cp.starts_with(&canon_out)).unwrap_or(false);
                        if !inside && after.get(p) != Some(c) { return Err(format!("file outside the output directory changed: {}", p.display())); }
                    }
                    for p in after.keys() {
                        if before.contains_key(p) { continue; }
                        let cp = fs::canonicalize(p).map_err(|e| e.to_string())?;
                        if !cp.starts_with(&canon_out) { return Err(format!("file created outside the configured output directory {:?}: {}", o, p.display())); }
                    }
                    if !after.keys().any(|p| fs::canonicalize(p).map(|cp| cp.starts_with(&canon_out) && cp.ends_with("types.ts")).unwrap_or(false)) { return Err("types.ts was not written into the configured output directory".into()); }
                    Ok("ok".into())
                });
            }
        }
    }

    // ============================================================ C10 (first sentence) / C01: both modes describe the same names and keys; files are well formed
    {
        let src = format!("{}use tauri::Emitter;\n\
            #[derive(Serialize, Deserialize)]\npub struct Ping;\n\
            #[derive(Serialize, Deserialize)]\npub struct AllSkipped {{ #[serde(skip)] pub a: u32 }}\n\
            #[derive(Serialize, Deserialize)]\npub struct Item {{ pub id: u32, pub tags: Vec<Option<String>>, pub meta: HashMap<String, Vec<u32>>, pub pair: (u32, String), pub maybe: Option<Ping> }}\n\
            #[derive(Serialize, Deserialize)]\npub enum Level {{ Low, High }}\n\
            #[tauri::command]\npub fn ping(p: Ping, s: AllSkipped) -> Ping {{ p }}\n\
            #[tauri::command]\npub fn items(level: Level, first: Option<Item>) -> Result<Vec<Option<Item>>, String> {{ Ok(vec![]) }}\n\
            #[tauri::command]\npub fn grid(app: tauri::AppHandle) -> Option<Vec<Vec<Option<Item>>>> {{ app.emit(\"grid:done\", 1u32).ok(); None }}\n", HDR);
        let dir = root.join("modes/src");
        write_files(&dir, &[("lib.rs".to_string(), src)]);
        let none = generate(&dir, &root.join("modes/out_none"), "none");
        let zod = generate(&dir, &root.join("modes/out_zod"), "zod");
        for name in ["Ping", "AllSkipped", "Item", "PingParams", "ItemsParams"] {
            rep.case("both_modes_same_names_and_keys", &format!("type {}", name), &|| {
                let n = none.as_ref().map_err(|e| e.clone())?.get("types.ts").ok_or("no types.ts (none)")?;
                let z = zod.as_ref().map_err(|e| e.clone())?.get("types.ts").ok_or("no types.ts (zod)")?;
                let kn = object_keys(n, name, false).ok_or(format!("plain mode does not declare {} as an object type", name))?;
                let kz = object_keys(z, name, true).ok_or(format!("zod mode does not declare {}Schema as z.object", name))?;
                if kn == kz { Ok(format!("{:?}", kn)) } else { Err(format!("keys differ: plain {:?}, zod {:?}", kn, kz)) }
            });
        }
        for (mname, res) in [("none", &none), ("zod", &zod)] {
            rep.case("generated_files_are_lexically_wellformed", &format!("project=modes mode={}", mname), &|| {
                let files = res.as_ref().map_err(|e| e.clone())?;
                for (f, text) in files {
                    if !f.ends_with(".ts") { continue; }
                    // strings and comments skipped; brackets balanced; no Rust surface syntax; `types.` followed by an identifier
                    let cs: Vec<char> = text.chars().collect();
                    let mut stack: Vec<(char, usize)> = Vec::new();
                    let mut i = 0;
                    let mut line = 1;
                    while i < cs.len() {
                        let c = cs[i];
                        if c == '\n' { line += 1; }
                        if c == '/' && cs.get(i + 1) == Some(&'/') { while i < cs.len() && cs[i] != '\n' { i += 1; } continue; }
                        if c == '/' && cs.get(i + 1) == Some(&'*') { i += 2; while i + 1 < cs.len() && !(cs[i] == '*' && cs[i + 1] == '/') { if cs[i] == '\n' { line += 1; } i += 1; } i += 2; continue; }
                        if c == '"' || c == '\'' || c == '`' {
                            let q = c; i += 1;
                            while i < cs.len() && cs[i] != q { if cs[i] == '\\' { i += 1; } if cs[i] == '\n' && q != '`' { return Err(format!("{}:{} unterminated string literal", f, line)); } i += 1; }
                            i += 1; continue;
                        }
                        match c {
                            '(' | '[' | '{' => stack.push((c, line)),
                            ')' | ']' | '}' => { let want = match c { ')' => '(', ']' => '[', _ => '{' }; match stack.pop() { Some((o, _)) if o == want => {}, other => return Err(format!("{}:{} unbalanced `{}` (open: {:?})", f, line, c, other)) } }
                            ':' if cs.get(i + 1) == Some(&':') => return Err(format!("{}:{} Rust path syntax `::` leaked", f, line)),
                            '.' if i >= 5 && cs[i - 5..i].iter().collect::<String>() == "types" => {
                                let nx = cs.get(i + 1).copied().unwrap_or(' ');
                                if !(nx.is_alphabetic() || nx == '_' || nx == '$') { return Err(format!("{}:{} `types.` is followed by `{}`, not an identifier", f, line, nx)); }
                            }
                            _ => {}
                        }
                        i += 1;
                    }
                    if let Some((o, l)) = stack.pop() { return Err(format!("{}:{} `{}` never closed", f, l, o)); }
                }
                Ok("ok".into())
            });
        }
    }
    let _ = fs::remove_dir_all(&root);
    rep.finish()
}
