//! Executable oracles, written from the property statements (they mirror the Verus spec functions
//! in /verif/specs/tsty.rs and /verif/units/render_zod.rs; keep in sync), and enumerators.
use std::collections::HashMap;
use std::panic::{catch_unwind, AssertUnwindSafe};
pub use tauri_typegen::models::TypeStructure;

// ---------------------------------------------------------------- reporting protocol
pub struct Report {
    /// VERIF_TRACE=1: print every case before it is evaluated (used by ./check after the harness process died)
    pub trace: bool,
    /// set when the harness found that it does not understand the shape of the generated text (its own parsers fail on a
    /// known-good probe): failures are then reported as UNDECIDED, never as violations
    pub downgrade: bool,
    pub undecided: Vec<(String, String, String)>,
    pub evals: u64,
    pub distinct: std::collections::HashSet<u64>,
    pub counts: HashMap<String, u64>,
    pub fails: Vec<(String, String, String)>,
    pub replay: Option<(String, String)>,
}
/// the case being evaluated and when it started: a watchdog thread reports a case that does not return (C15: termination)
static CURRENT_CASE: std::sync::Mutex<Option<(String, String, std::time::Instant)>> = std::sync::Mutex::new(None);
static EVALS_SO_FAR: std::sync::atomic::AtomicU64 = std::sync::atomic::AtomicU64::new(0);

impl Report {
    pub fn new() -> Self {
        std::panic::set_hook(Box::new(|_| {}));
        let limit = std::env::var("VERIF_CASE_TIMEOUT").ok().and_then(|s| s.parse::<u64>().ok()).unwrap_or(60);
        std::thread::spawn(move || loop {
            std::thread::sleep(std::time::Duration::from_millis(500));
            let stuck = { let g = CURRENT_CASE.lock().unwrap_or_else(|e| e.into_inner()); g.as_ref().filter(|(_, _, t)| t.elapsed().as_secs() >= limit).map(|(c, i, _)| (c.clone(), i.clone())) };
            if let Some((check, input)) = stuck {
                // the evaluating thread cannot be stopped: report the input and end the process
                println!("EVALS {}", EVALS_SO_FAR.load(std::sync::atomic::Ordering::Relaxed));
                println!("DISTINCT 0");
                println!("PANICCOUNT fn={} count=1", check);
                println!("PANICCOUNT fn={}#panics count=1", check);
                println!("FAIL fn={} input={:?} msg={:?}", check, input, format!("panic: no result within {} s — the call does not terminate (or is far too slow)", limit));
                use std::io::Write;
                let _ = std::io::stdout().flush();
                std::process::exit(1);
            }
        });
        let replay = match (std::env::var("VERIF_REPLAY_FN"), std::env::var("VERIF_REPLAY_INPUT")) {
            (Ok(f), Ok(i)) => Some((f, i)),
            _ => None,
        };
        Report { trace: std::env::var("VERIF_TRACE").is_ok(), downgrade: false, undecided: Vec::new(), evals: 0, distinct: Default::default(), counts: HashMap::new(), fails: Vec::new(), replay }
    }
    pub fn depth() -> usize {
        std::env::var("VERIF_DEPTH").ok().and_then(|s| s.parse().ok()).unwrap_or(4)
    }
    /// run one case; `f` returns Err(message) when the property is violated on this input
    pub fn case(&mut self, check: &str, input: &str, f: &dyn Fn() -> Result<String, String>) {
        if let Some((rf, ri)) = &self.replay {
            if rf != check || ri != input { return; }
        }
        self.evals += 1;
        EVALS_SO_FAR.store(self.evals, std::sync::atomic::Ordering::Relaxed);
        if self.trace {
            // written before the call: if the process dies inside it (stack overflow, abort), the last line names the case
            use std::io::Write;
            println!("CASE fn={} input={:?}", check, input);
            let _ = std::io::stdout().flush();
        }
        *CURRENT_CASE.lock().unwrap_or_else(|e| e.into_inner()) = Some((check.to_string(), input.to_string(), std::time::Instant::now()));
        let res = catch_unwind(AssertUnwindSafe(|| f()));
        *CURRENT_CASE.lock().unwrap_or_else(|e| e.into_inner()) = None;
        let fail = match res {
            Ok(Ok(out)) => {
                if self.distinct.len() < 100_000 {
                    use std::hash::{Hash, Hasher};
                    let mut h = std::collections::hash_map::DefaultHasher::new();
                    (check, &out).hash(&mut h);
                    self.distinct.insert(h.finish());
                }
                if self.replay.is_some() { println!("REPLAY-OK fn={} input={:?} output={}", check, input, out); }
                None
            }
            Ok(Err(msg)) => Some(msg),
            Err(e) => Some(format!("panic: {}", e.downcast_ref::<String>().cloned().or_else(|| e.downcast_ref::<&str>().map(|s| s.to_string())).unwrap_or_default())),
        };
        if let Some(msg) = fail {
            if (self.downgrade && !msg.starts_with("panic:")) || msg.starts_with("UNPARSED:") {
                if self.undecided.len() < 5 { self.undecided.push((check.to_string(), input.to_string(), msg)); }
                return;
            }
            let c = self.counts.entry(check.to_string()).or_insert(0);
            *c += 1;
            // up to 16 failing inputs of a check are listed (the count says how many there are: `check` treats unlisted ones as new);
            // panics are reported even behind that many ordinary failures of the same check (C15 counts them from every check)
            let pc = if msg.starts_with("panic:") { let p = self.counts.entry(format!("{}#panics", check)).or_insert(0); *p += 1; *p } else { u64::MAX };
            if *self.counts.get(check).unwrap() <= 16 || pc <= 3 { self.fails.push((check.to_string(), input.to_string(), msg)); }
        }
    }
    pub fn finish(self) -> ! {
        println!("EVALS {}", self.evals);
        println!("DISTINCT {}", self.distinct.len());
        for (f, c) in &self.counts { println!("PANICCOUNT fn={} count={}", f, c); }
        for (f, i, m) in &self.fails { println!("FAIL fn={} input={:?} msg={:?}", f, i, m); }
        for (f, i, m) in &self.undecided { println!("UNDECIDED fn={} input={:?} msg={:?}", f, i, m); }
        std::process::exit(if !self.fails.is_empty() { 1 } else if !self.undecided.is_empty() { 2 } else { 0 })
    }
}

// ---------------------------------------------------------------- TypeScript oracle (C05 / C18)
#[derive(Clone, Debug, PartialEq)]
pub enum TsTy { Prim(String), Ref(String), Raw(String), Arr(Box<TsTy>), Rec(Box<TsTy>, Box<TsTy>), Tup(Vec<TsTy>), Nullable(Box<TsTy>) }

pub type Mappings = HashMap<String, String>;

pub fn den(m: &Mappings, ts: &TypeStructure) -> TsTy {
    match ts {
        TypeStructure::Primitive(p) => TsTy::Prim(p.clone()),
        TypeStructure::Array(i) | TypeStructure::Set(i) => TsTy::Arr(Box::new(den(m, i))),
        TypeStructure::Map { key, value } => TsTy::Rec(Box::new(den(m, key)), Box::new(den(m, value))),
        TypeStructure::Tuple(v) => if v.is_empty() { TsTy::Prim("void".into()) } else { TsTy::Tup(v.iter().map(|t| den(m, t)).collect()) },
        TypeStructure::Optional(i) => TsTy::Nullable(Box::new(den(m, i))),
        TypeStructure::Result(i) => den(m, i),
        TypeStructure::Custom(n) => match m.get(n) { Some(t) => TsTy::Raw(t.clone()), None => TsTy::Ref(n.clone()) },
    }
}

/// `parens`: true = the property's printer; false = with the KNOWN FINDING (union under [] unparenthesised)
pub fn pp(t: &TsTy, parens: bool) -> String {
    match t {
        TsTy::Prim(s) | TsTy::Ref(s) | TsTy::Raw(s) => s.clone(),
        TsTy::Arr(e) => if parens && matches!(**e, TsTy::Nullable(_)) { format!("({})[]", pp(e, parens)) } else { format!("{}[]", pp(e, parens)) },
        TsTy::Rec(k, v) => format!("Record<{}, {}>", pp(k, parens), pp(v, parens)),
        TsTy::Tup(ts) => format!("[{}]", ts.iter().map(|x| pp(x, parens)).collect::<Vec<_>>().join(", ")),
        TsTy::Nullable(e) => format!("{} | null", pp(e, parens)),
    }
}

/// C02: every project-type reference resolves through the `types` namespace.
/// `kf`: true = with the KNOWN FINDINGS pinned by the repository's tests (names inside Record<..> and
/// tuples stay unqualified)
pub fn qualify(t: &TsTy, kf: bool) -> TsTy {
    match t {
        TsTy::Ref(n) => TsTy::Ref(format!("types.{}", n)),
        TsTy::Prim(_) | TsTy::Raw(_) => t.clone(),
        TsTy::Arr(e) => TsTy::Arr(Box::new(qualify(e, kf))),
        TsTy::Nullable(e) => TsTy::Nullable(Box::new(qualify(e, kf))),
        TsTy::Rec(k, v) => if kf { t.clone() } else { TsTy::Rec(Box::new(qualify(k, kf)), Box::new(qualify(v, kf))) },
        TsTy::Tup(ts) => if kf { t.clone() } else { TsTy::Tup(ts.iter().map(|x| qualify(x, kf)).collect()) },
    }
}

// ---------------------------------------------------------------- Zod oracle (C10 / C18), no validators
/// `kf`: true = with the three KNOWN FINDINGS pinned by the repository's tests (z.set, Result union, .optional())
pub fn zs(m: &Mappings, ts: &TypeStructure, key: bool, kf: bool) -> String {
    match ts {
        TypeStructure::Primitive(p) => match p.as_str() {
            "string" => "z.string()".into(),
            "number" => if key { "z.number()".into() } else { "z.coerce.number()".into() },
            "boolean" => "z.coerce.boolean()".into(),
            _ => "z.void()".into(),
        },
        TypeStructure::Array(i) => format!("z.array({})", zs(m, i, false, kf)),
        TypeStructure::Set(i) => if kf { format!("z.set({})", zs(m, i, false, kf)) } else { format!("z.array({})", zs(m, i, false, kf)) },
        TypeStructure::Map { key: k, value: v } => format!("z.record({}, {})", zs(m, k, true, kf), zs(m, v, false, kf)),
        TypeStructure::Tuple(v) => if v.is_empty() { "z.void()".into() } else { format!("z.tuple([{}])", v.iter().map(|t| zs(m, t, false, kf)).collect::<Vec<_>>().join(", ")) },
        TypeStructure::Optional(i) => format!("{}{}", zs(m, i, key, kf), if kf { ".optional()" } else { ".nullish()" }),
        TypeStructure::Result(i) => if kf { format!("z.union([{}, z.object({{ error: z.string() }})])", zs(m, i, false, kf)) } else { zs(m, i, false, kf) },
        TypeStructure::Custom(n) => match m.get(n) {
            Some(t) => match t.as_str() {
                "string" => "z.string()".into(), "number" => "z.number()".into(), "boolean" => "z.boolean()".into(), "void" => "z.void()".into(),
                other => format!("z.custom<{}>((val) => true)", other),
            },
            None => format!("{}Schema", n),
        },
    }
}

pub fn customs(ts: &TypeStructure, out: &mut std::collections::BTreeSet<String>) {
    match ts {
        TypeStructure::Custom(n) => { out.insert(n.clone()); }
        TypeStructure::Array(i) | TypeStructure::Set(i) | TypeStructure::Optional(i) | TypeStructure::Result(i) => customs(i, out),
        TypeStructure::Map { key, value } => { customs(key, out); customs(value, out); }
        TypeStructure::Tuple(v) => for t in v { customs(t, out); },
        TypeStructure::Primitive(_) => {}
    }
}

// ---------------------------------------------------------------- enumerators
/// all type trees of nesting depth <= d over the given leaves
pub fn trees(d: usize, leaves: &[TypeStructure]) -> Vec<TypeStructure> {
    let mut cur: Vec<TypeStructure> = leaves.to_vec();
    for _ in 0..d {
        let mut next = leaves.to_vec();
        for t in &cur {
            next.push(TypeStructure::Array(Box::new(t.clone())));
            next.push(TypeStructure::Set(Box::new(t.clone())));
            next.push(TypeStructure::Optional(Box::new(t.clone())));
            next.push(TypeStructure::Result(Box::new(t.clone())));
        }
        // binary constructors over a thinned product to keep the family finite and small
        let mut sample: Vec<&TypeStructure> = Vec::new();
        let kind = |t: &TypeStructure| std::mem::discriminant(t);
        for t in cur.iter() {
            if matches!(t, TypeStructure::Primitive(_) | TypeStructure::Custom(_)) || !sample.iter().any(|s| kind(s) == kind(t)) { sample.push(t); }
        }
        for t in cur.iter().rev() {
            if !matches!(t, TypeStructure::Primitive(_) | TypeStructure::Custom(_)) && sample.iter().filter(|s| kind(s) == kind(t)).count() < 2 { sample.push(t); }
        }
        for a in &sample {
            for b in &sample {
                next.push(TypeStructure::Map { key: Box::new((*a).clone()), value: Box::new((*b).clone()) });
                next.push(TypeStructure::Tuple(vec![(*a).clone(), (*b).clone()]));
            }
        }
        next.push(TypeStructure::Tuple(vec![]));
        // other arities: the one-element tuple `(T,)` (serde writes `[t]`) and a triple
        for a in &sample { next.push(TypeStructure::Tuple(vec![(*a).clone()])); }
        if let (Some(a), Some(b)) = (sample.first(), sample.last()) { next.push(TypeStructure::Tuple(vec![(*a).clone(), (*b).clone(), (*a).clone()])); }
        cur = next;
    }
    cur
}

/// Rust surface syntax of a type tree whose leaves are Rust type names (for the parse-side checks)
#[derive(Clone, Debug)]
pub enum RTy { Name(String), Opt(Box<RTy>), Vec(Box<RTy>), HSet(Box<RTy>), BSet(Box<RTy>), HMap(Box<RTy>, Box<RTy>), BMap(Box<RTy>, Box<RTy>), Tup(Vec<RTy>), Res(Box<RTy>, Box<RTy>), Ref(Box<RTy>) }

pub fn rprint(t: &RTy) -> String {
    match t {
        RTy::Name(n) => n.clone(),
        RTy::Opt(i) => format!("Option<{}>", rprint(i)),
        RTy::Vec(i) => format!("Vec<{}>", rprint(i)),
        RTy::HSet(i) => format!("HashSet<{}>", rprint(i)),
        RTy::BSet(i) => format!("BTreeSet<{}>", rprint(i)),
        RTy::HMap(k, v) => format!("HashMap<{}, {}>", rprint(k), rprint(v)),
        RTy::BMap(k, v) => format!("BTreeMap<{}, {}>", rprint(k), rprint(v)),
        RTy::Tup(v) => format!("({})", v.iter().map(rprint).collect::<Vec<_>>().join(", ")),
        RTy::Res(a, b) => format!("Result<{}, {}>", rprint(a), rprint(b)),
        RTy::Ref(i) => format!("&{}", rprint(i)),
    }
}

/// the TypeStructure the README table assigns to a Rust type (C05: "denotes the JSON shape serde produces")
pub fn rtree(t: &RTy) -> TypeStructure {
    match t {
        RTy::Name(n) => match n.as_str() {
            "String" | "&str" | "str" => TypeStructure::Primitive("string".into()),
            "i8" | "i16" | "i32" | "i64" | "i128" | "isize" | "u8" | "u16" | "u32" | "u64" | "u128" | "usize" | "f32" | "f64" => TypeStructure::Primitive("number".into()),
            "bool" => TypeStructure::Primitive("boolean".into()),
            "()" => TypeStructure::Primitive("void".into()),
            _ => TypeStructure::Custom(n.clone()),
        },
        RTy::Opt(i) => TypeStructure::Optional(Box::new(rtree(i))),
        RTy::Vec(i) => TypeStructure::Array(Box::new(rtree(i))),
        RTy::HSet(i) | RTy::BSet(i) => TypeStructure::Set(Box::new(rtree(i))),
        RTy::HMap(k, v) | RTy::BMap(k, v) => TypeStructure::Map { key: Box::new(rtree(k)), value: Box::new(rtree(v)) },
        RTy::Tup(v) => TypeStructure::Tuple(v.iter().map(rtree).collect()),
        RTy::Res(a, _) => TypeStructure::Result(Box::new(rtree(a))),
        RTy::Ref(i) => rtree(i),
    }
}

pub fn rtrees(d: usize, leaves: &[&str]) -> Vec<RTy> {
    let base: Vec<RTy> = leaves.iter().map(|n| RTy::Name(n.to_string())).collect();
    let mut cur = base.clone();
    for _ in 0..d {
        let mut next = base.clone();
        for t in &cur {
            next.push(RTy::Opt(Box::new(t.clone())));
            next.push(RTy::Vec(Box::new(t.clone())));
            next.push(RTy::HSet(Box::new(t.clone())));
            next.push(RTy::Ref(Box::new(t.clone())));
        }
        // operands of the binary constructors: every leaf, plus — per outermost constructor — the first
        // and the last tree of the previous level (so that every constructor occurs under every other)
        let mut sample: Vec<&RTy> = Vec::new();
        let kind = |t: &RTy| std::mem::discriminant(t);
        for t in cur.iter() {
            if matches!(t, RTy::Name(_)) || !sample.iter().any(|s| kind(s) == kind(t)) { sample.push(t); }
        }
        for t in cur.iter().rev() {
            if !matches!(t, RTy::Name(_)) && sample.iter().filter(|s| kind(s) == kind(t)).count() < 2 { sample.push(t); }
        }
        for a in &sample {
            for b in &sample {
                next.push(RTy::HMap(Box::new((*a).clone()), Box::new((*b).clone())));
                next.push(RTy::BMap(Box::new((*a).clone()), Box::new((*b).clone())));
                next.push(RTy::Tup(vec![(*a).clone(), (*b).clone()]));
                next.push(RTy::Res(Box::new((*a).clone()), Box::new((*b).clone())));
            }
        }
        cur = next;
    }
    cur
}

pub fn show(ts: &TypeStructure) -> String { format!("{:?}", ts) }


/// true for a line that carries a time stamp (`2026-09-28T07:44`): the one part of a generated file that may differ between runs
pub fn has_timestamp(l: &str) -> bool {
    let b = l.as_bytes();
    if b.len() < 16 { return false; }
    for i in 0..=b.len() - 16 {
        let w = &b[i..i + 16];
        let d = |k: usize| w[k].is_ascii_digit();
        if d(0) && d(1) && d(2) && d(3) && w[4] == b'-' && d(5) && d(6) && w[7] == b'-' && d(8) && d(9) && (w[10] == b'T' || w[10] == b' ') && d(11) && d(12) && w[13] == b':' && d(14) && d(15) { return true; }
    }
    false
}

/// generated text without the lines that carry a time stamp
pub fn without_timestamps(s: &str) -> String { s.lines().filter(|l| !has_timestamp(l)).collect::<Vec<_>>().join("\n") }

/// generated text without comments (`//` to the end of the line and `/* .. */`, outside string literals)
pub fn without_comments(s: &str) -> String {
    let cs: Vec<char> = s.chars().collect();
    let mut out = String::new();
    let mut i = 0;
    while i < cs.len() {
        let c = cs[i];
        if c == '"' || c == '\'' || c == '`' {
            let q = c; out.push(c); i += 1;
            while i < cs.len() && cs[i] != q { if cs[i] == '\\' && i + 1 < cs.len() { out.push(cs[i]); i += 1; } out.push(cs[i]); i += 1; }
            if i < cs.len() { out.push(cs[i]); i += 1; }
            continue;
        }
        if c == '/' && cs.get(i + 1) == Some(&'/') { while i < cs.len() && cs[i] != '\n' { i += 1; } continue; }
        if c == '/' && cs.get(i + 1) == Some(&'*') { i += 2; while i + 1 < cs.len() && !(cs[i] == '*' && cs[i + 1] == '/') { i += 1; } i += 2; continue; }
        out.push(c); i += 1;
    }
    out.lines().map(|l| l.trim_end()).collect::<Vec<_>>().join("\n")
}
