// ---- specification: TypeScript type terms, the C05 denotation table, and the printer ----
// (hand-written from the property statement; trusted by inspection, ~60 lines)
pub enum TsTy {
    Prim(Seq<char>),             // string | number | boolean | void
    Ref(Seq<char>),              // reference to a project type by name
    Raw(Seq<char>),              // text of a configured type mapping, printed verbatim
    Arr(Box<TsTy>),
    Rec(Box<TsTy>, Box<TsTy>),
    Tup(Seq<TsTy>),
    Nullable(Box<TsTy>),         // T | null
}

pub type Mappings = Map<String, String>;

/// C05: the JSON shape serde produces, as a TypeScript type term (m = configured type mappings, C18)
pub open spec fn den(m: Mappings, ts: TypeStructure) -> TsTy
    decreases ts, 0int
{
    match ts {
        TypeStructure::Primitive(p) => TsTy::Prim(p@),
        TypeStructure::Array(i) => TsTy::Arr(Box::new(den(m, *i))),
        TypeStructure::Set(i) => TsTy::Arr(Box::new(den(m, *i))),
        TypeStructure::Map { key, value } => TsTy::Rec(Box::new(den(m, *key)), Box::new(den(m, *value))),
        TypeStructure::Tuple(v) => den_tuple(m, v@),
        TypeStructure::Optional(i) => TsTy::Nullable(Box::new(den(m, *i))),
        TypeStructure::Result(i) => den(m, *i),
        TypeStructure::Custom(n) => den_custom(m, n),
    }
}

pub open spec fn den_custom(m: Mappings, n: String) -> TsTy {
    if m.contains_key(n) { TsTy::Raw(m[n]@) } else { TsTy::Ref(n@) }
}

pub open spec fn den_tuple(m: Mappings, v: Seq<TypeStructure>) -> TsTy
    decreases v, 2int
{
    if v.len() == 0 { TsTy::Prim("void"@) } else { TsTy::Tup(den_list(m, v)) }
}

pub open spec fn den_list(m: Mappings, v: Seq<TypeStructure>) -> Seq<TsTy>
    decreases v, 1int
{
    if v.len() == 0 { Seq::<TsTy>::empty() } else { den_list(m, v.drop_last()).push(den(m, v.last())) }
}

pub open spec fn is_union(t: TsTy) -> bool { t is Nullable }

/// the TypeScript printer; the one precedence rule: the operand of postfix [] is parenthesised iff it is a union
pub open spec fn pp(t: TsTy) -> Seq<char>
    decreases t, 0int
{
    match t {
        TsTy::Prim(s) => s,
        TsTy::Ref(s) => s,
        TsTy::Raw(s) => s,
        TsTy::Arr(e) => if is_union(*e) { "("@ + pp(*e) + ")"@ + "[]"@ } else { pp(*e) + "[]"@ },
        TsTy::Rec(k, v) => "Record<"@ + pp(*k) + ", "@ + pp(*v) + ">"@,
        TsTy::Tup(ts) => "["@ + pp_list(ts) + "]"@,
        TsTy::Nullable(e) => pp(*e) + " | null"@,
    }
}

pub open spec fn pp_list(ts: Seq<TsTy>) -> Seq<char>
    decreases ts, 1int
{
    if ts.len() == 0 { Seq::<char>::empty() }
    else if ts.len() == 1 { pp(ts[0]) }
    else { pp_list(ts.drop_last()) + ", "@ + pp(ts.last()) }
}
