// ---- property lemmas over den/pp (pure; shared by the TS and Zod render units) ----

/// t contains a by-name reference to project type `s`
pub open spec fn mentions_ref(t: TsTy, s: Seq<char>) -> bool
    decreases t, 0int
{
    match t {
        TsTy::Prim(_) => false,
        TsTy::Raw(_) => false,
        TsTy::Ref(x) => x == s,
        TsTy::Arr(e) => mentions_ref(*e, s),
        TsTy::Rec(k, v) => mentions_ref(*k, s) || mentions_ref(*v, s),
        TsTy::Tup(ts) => mentions_ref_list(ts, s),
        TsTy::Nullable(e) => mentions_ref(*e, s),
    }
}

pub open spec fn mentions_ref_list(ts: Seq<TsTy>, s: Seq<char>) -> bool
    decreases ts, 1int
{
    if ts.len() == 0 { false } else { mentions_ref_list(ts.drop_last(), s) || mentions_ref(ts.last(), s) }
}

//@ PROPS C18
/// C18: a mapped name N is never referenced by name, at any nesting depth
pub proof fn lemma_C18_mapped_name_never_referenced(m: Mappings, ts: TypeStructure, n: String)
    requires m.contains_key(n),
    ensures !mentions_ref(den(m, ts), n@),
    decreases ts, 0int,
{
    match ts {
        TypeStructure::Primitive(p) => {},
        TypeStructure::Array(i) => { lemma_C18_mapped_name_never_referenced(m, *i, n); },
        TypeStructure::Set(i) => { lemma_C18_mapped_name_never_referenced(m, *i, n); },
        TypeStructure::Map { key, value } => {
            lemma_C18_mapped_name_never_referenced(m, *key, n);
            lemma_C18_mapped_name_never_referenced(m, *value, n);
        },
        TypeStructure::Tuple(v) => { lemma_C18_list(m, v@, n); },
        TypeStructure::Optional(i) => { lemma_C18_mapped_name_never_referenced(m, *i, n); },
        TypeStructure::Result(i) => { lemma_C18_mapped_name_never_referenced(m, *i, n); },
        TypeStructure::Custom(c) => {
            if !m.contains_key(c) { assert(c@ != n@) by { if c@ == n@ { assert(c == n); } } }
        },
    }
}

proof fn lemma_C18_list(m: Mappings, v: Seq<TypeStructure>, n: String)
    requires m.contains_key(n),
    ensures !mentions_ref_list(den_list(m, v), n@), !mentions_ref(den_tuple(m, v), n@),
    decreases v, 1int,
{
    if v.len() > 0 {
        lemma_C18_list(m, v.drop_last(), n);
        lemma_C18_mapped_name_never_referenced(m, v.last(), n);
        let dl = den_list(m, v);
        assert(dl.drop_last() =~= den_list(m, v.drop_last()));
        assert(dl.last() == den(m, v.last()));
        assert(dl.len() > 0);
        assert(den_tuple(m, v) == TsTy::Tup(dl));
        assert(!mentions_ref_list(dl.drop_last(), n@));
        assert(!mentions_ref(dl.last(), n@));
        assert(!mentions_ref_list(dl, n@));
        assert(!mentions_ref(TsTy::Tup(dl), n@));
    } else {
        assert(den_tuple(m, v) == TsTy::Prim("void"@));
        assert(den_list(m, v).len() == 0);
    }
}

//@ PROPS C18
/// C18: types not named in the mapping are rendered exactly as without it
pub proof fn lemma_C18_unmapped_types_unchanged(m: Mappings, ts: TypeStructure)
    requires forall|n: String| #[trigger] has_custom(ts, n) ==> !m.contains_key(n),
    ensures den(m, ts) == den(Map::<String, String>::empty(), ts),
    decreases ts, 0int,
{
    let e = Map::<String, String>::empty();
    match ts {
        TypeStructure::Primitive(p) => {},
        TypeStructure::Array(i) => {
            assert forall|n: String| #[trigger] has_custom(*i, n) implies !m.contains_key(n) by { assert(has_custom(ts, n)); }
            lemma_C18_unmapped_types_unchanged(m, *i);
        },
        TypeStructure::Set(i) => {
            assert forall|n: String| #[trigger] has_custom(*i, n) implies !m.contains_key(n) by { assert(has_custom(ts, n)); }
            lemma_C18_unmapped_types_unchanged(m, *i);
        },
        TypeStructure::Map { key, value } => {
            assert forall|n: String| #[trigger] has_custom(*key, n) implies !m.contains_key(n) by { assert(has_custom(ts, n)); }
            assert forall|n: String| #[trigger] has_custom(*value, n) implies !m.contains_key(n) by { assert(has_custom(ts, n)); }
            lemma_C18_unmapped_types_unchanged(m, *key);
            lemma_C18_unmapped_types_unchanged(m, *value);
        },
        TypeStructure::Tuple(v) => {
            assert forall|i: int, n: String| 0 <= i < v@.len() && #[trigger] has_custom(v@[i], n) implies !m.contains_key(n) by {
                assert(has_custom(ts, n));
            }
            lemma_C18_unchanged_list(m, v@);
        },
        TypeStructure::Optional(i) => {
            assert forall|n: String| #[trigger] has_custom(*i, n) implies !m.contains_key(n) by { assert(has_custom(ts, n)); }
            lemma_C18_unmapped_types_unchanged(m, *i);
        },
        TypeStructure::Result(i) => {
            assert forall|n: String| #[trigger] has_custom(*i, n) implies !m.contains_key(n) by { assert(has_custom(ts, n)); }
            lemma_C18_unmapped_types_unchanged(m, *i);
        },
        TypeStructure::Custom(c) => { assert(has_custom(ts, c)); },
    }
}

proof fn lemma_C18_unchanged_list(m: Mappings, v: Seq<TypeStructure>)
    requires forall|i: int, n: String| 0 <= i < v.len() && #[trigger] has_custom(v[i], n) ==> !m.contains_key(n),
    ensures den_list(m, v) == den_list(Map::<String, String>::empty(), v),
            den_tuple(m, v) == den_tuple(Map::<String, String>::empty(), v),
    decreases v, 1int,
{
    if v.len() > 0 {
        assert forall|i: int, n: String| 0 <= i < v.drop_last().len() && #[trigger] has_custom(v.drop_last()[i], n) implies !m.contains_key(n) by {
            assert(v.drop_last()[i] == v[i]);
        }
        lemma_C18_unchanged_list(m, v.drop_last());
        assert forall|n: String| #[trigger] has_custom(v.last(), n) implies !m.contains_key(n) by {
            assert(v.last() == v[v.len() - 1]);
        }
        lemma_C18_unmapped_types_unchanged(m, v.last());
    }
}

//@ PROPS C05
/// C05: the documented table, row by row, and compositionality at the binding positions the
/// property names (the spec printer parenthesises a union under [] — "binds as in Rust")
pub proof fn lemma_C05_table(m: Mappings, t: TypeStructure, u: TypeStructure, p: String, unit: Vec<TypeStructure>)
    requires unit@.len() == 0,
    ensures
        pp(den(m, TypeStructure::Primitive(p))) == p@,
        pp(den(m, TypeStructure::Optional(Box::new(t)))) == pp(den(m, t)) + " | null"@,
        pp(den(m, TypeStructure::Result(Box::new(t)))) == pp(den(m, t)),
        pp(den(m, TypeStructure::Map { key: Box::new(t), value: Box::new(u) })) == "Record<"@ + pp(den(m, t)) + ", "@ + pp(den(m, u)) + ">"@,
        pp(den(m, TypeStructure::Set(Box::new(t)))) == pp(den(m, TypeStructure::Array(Box::new(t)))),
        !is_union(den(m, t)) ==> pp(den(m, TypeStructure::Array(Box::new(t)))) == pp(den(m, t)) + "[]"@,
        pp(den(m, TypeStructure::Array(Box::new(TypeStructure::Optional(Box::new(t)))))) == "("@ + pp(den(m, t)) + " | null"@ + ")"@ + "[]"@,
        pp(den(m, TypeStructure::Tuple(unit))) == "void"@,
{
    reveal_with_fuel(den, 3);
    reveal_with_fuel(pp, 3);
}

/// join of the rendered elements == printer's list form
pub proof fn lemma_join_is_pp_list(m: Mappings, ts: Seq<TypeStructure>, strs: Seq<String>, n: int)
    requires
        0 <= n <= ts.len(), strs.len() == ts.len(),
        forall|i: int| 0 <= i < ts.len() ==> (#[trigger] strs[i])@ == pp(den(m, ts[i])),
    ensures
        join_spec(strs.take(n), ", "@) == pp_list(den_list(m, ts.take(n))),
        den_list(m, ts.take(n)).len() == n,
    decreases n,
{
    if n == 0 {
        assert(ts.take(0).len() == 0);
    } else {
        lemma_join_is_pp_list(m, ts, strs, n - 1);
        assert(strs.take(n).drop_last() =~= strs.take(n - 1));
        assert(ts.take(n).drop_last() =~= ts.take(n - 1));
        assert(strs.take(n).last() == strs[n - 1]);
        assert(ts.take(n).last() == ts[n - 1]);
        let dl = den_list(m, ts.take(n));
        assert(dl == den_list(m, ts.take(n - 1)).push(den(m, ts[n - 1])));
        assert(dl.drop_last() =~= den_list(m, ts.take(n - 1)));
        assert(dl.last() == den(m, ts[n - 1]));
        if n == 1 {
            assert(dl[0] == den(m, ts[0]));
        }
    }
}

