// ---- specification: the project-type names a type tree mentions ----
/// `n` names a Custom leaf of the type tree (any nesting depth, any constructor position)
pub open spec fn has_custom(ts: TypeStructure, n: String) -> bool
    decreases ts
{
    match ts {
        TypeStructure::Custom(m) => m == n,
        TypeStructure::Array(i) | TypeStructure::Set(i) | TypeStructure::Optional(i) | TypeStructure::Result(i) => has_custom(*i, n),
        TypeStructure::Map { key, value } => has_custom(*key, n) || has_custom(*value, n),
        TypeStructure::Tuple(ts2) => exists|i: int| 0 <= i < ts2@.len() && has_custom(#[trigger] ts2@[i], n),
        TypeStructure::Primitive(_) => false,
    }
}

