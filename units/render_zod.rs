// Unit U-render-zod: ZodSchemaBuilder (schemas for fields and parameters), escape_js_string,
// and ZodVisitor devirtualised (D3).   Properties: C10, C11, C18 (Zod mode), C05 (Zod-mode interface types)
#![feature(allocator_api)]
#![feature(slice_concat_trait)]
#![feature(pattern)]
#![allow(unused_imports, unused_variables, dead_code, unused_mut)]
use vstd::prelude::*;
use vstd::std_specs::hash::*;
use vstd::std_specs::iter::IteratorSpec;
use std::collections::{HashMap, HashSet};
use std::alloc::Allocator;
use std::path::PathBuf;

//@ INCLUDE prelude/base.rs
//@ INCLUDE prelude/fmt.rs
//@ INCLUDE prelude/join.rs
//@ INCLUDE prelude/strpat.rs
use vpre::*;
use vfmt::*;
use vjoin::*;
use vstr::*;

verus! {

broadcast use {vstd::std_specs::hash::group_hash_axioms, vpre::group_string_keys, vfmt::group_disp, vjoin::axiom_join_string, vstr::axiom_pat_char};

//@ FORMAT-MACRO

//@ INCLUDE units/inc/models.rs
//@ EXTRACT-TYPE file=src/interface/config.rs struct=GenerateConfig
//@ EXTRACT-TYPE file=src/generators/zod/type_visitor.rs struct=ZodVisitor
//@ EXTRACT-TYPE file=src/generators/zod/schema_builder.rs struct=ZodSchemaBuilder

//@ INCLUDE specs/tsty.rs
//@ INCLUDE specs/customs.rs
//@ INCLUDE specs/tsty_lemmas.rs

/// JS string-literal escaping of one character (C11: "correctly escaped string")
pub open spec fn esc_char(c: char) -> Seq<char> {
    if c == '\\' { "\\\\"@ }
    else if c == '"' { "\\\""@ }
    else if c == '\n' { "\\n"@ }
    else if c == '\r' { "\\r"@ }
    else if c == '\t' { "\\t"@ }
    else { seq![c] }
}

pub open spec fn esc(s: Seq<char>) -> Seq<char>
    decreases s.len()
{
    if s.len() == 0 { Seq::<char>::empty() } else { esc(s.drop_last()) + esc_char(s.last()) }
}

/// the five-fold replace chain of escape_js_string, as a function of the view
pub open spec fn esc_chain(s: Seq<char>) -> Seq<char> {
    replace_char(replace_char(replace_char(replace_char(replace_char(s, '\\', "\\\\"@), '"', "\\\""@), '\n', "\\n"@), '\r', "\\r"@), '\t', "\\t"@)
}

pub proof fn lemma_replace_char_concat(a: Seq<char>, b: Seq<char>, c: char, to: Seq<char>)
    ensures replace_char(a + b, c, to) == replace_char(a, c, to) + replace_char(b, c, to),
    decreases b.len(),
{
    if b.len() == 0 {
        assert(a + b =~= a);
        assert(replace_char(a, c, to) + replace_char(b, c, to) =~= replace_char(a, c, to));
    } else {
        lemma_replace_char_concat(a, b.drop_last(), c, to);
        assert((a + b).drop_last() =~= a + b.drop_last());
        assert((a + b).last() == b.last());
        let tail = if b.last() == c { to } else { seq![b.last()] };
        assert(replace_char(a + b, c, to) =~= replace_char(a, c, to) + (replace_char(b.drop_last(), c, to) + tail));
    }
}

pub proof fn lemma_replace_char_absent(s: Seq<char>, c: char, to: Seq<char>)
    requires forall|i: int| 0 <= i < s.len() ==> s[i] != c,
    ensures replace_char(s, c, to) == s,
    decreases s.len(),
{
    if s.len() > 0 {
        assert forall|i: int| 0 <= i < s.drop_last().len() implies s.drop_last()[i] != c by { assert(s.drop_last()[i] == s[i]); }
        lemma_replace_char_absent(s.drop_last(), c, to);
        assert(s.drop_last() + seq![s.last()] =~= s);
    } else {
        assert(s =~= Seq::<char>::empty());
    }
}

pub proof fn lemma_replace_char_single(x: char, c: char, to: Seq<char>)
    ensures replace_char(seq![x], c, to) == (if x == c { to } else { seq![x] }),
{
    let s = seq![x];
    assert(s.drop_last() =~= Seq::<char>::empty());
    assert(replace_char(s.drop_last(), c, to) =~= Seq::<char>::empty());
    assert(s.last() == x);
    let tail = if x == c { to } else { seq![x] };
    assert(Seq::<char>::empty() + tail =~= tail);
}

pub proof fn lemma_strlits()
    ensures
        "\\\\"@ == seq!['\\', '\\'],
        "\\\""@ == seq!['\\', '"'],
        "\\n"@ == seq!['\\', 'n'],
        "\\r"@ == seq!['\\', 'r'],
        "\\t"@ == seq!['\\', 't'],
{
    reveal_strlit("\\\\");
    reveal_strlit("\\\"");
    reveal_strlit("\\n");
    reveal_strlit("\\r");
    reveal_strlit("\\t");
    assert("\\\\"@ =~= seq!['\\', '\\']);
    assert("\\\""@ =~= seq!['\\', '"']);
    assert("\\n"@ =~= seq!['\\', 'n']);
    assert("\\r"@ =~= seq!['\\', 'r']);
    assert("\\t"@ =~= seq!['\\', 't']);
}

/// one character through the chain: later replaces never touch what earlier ones produced
pub proof fn lemma_esc_chain_single(x: char)
    ensures esc_chain(seq![x]) == esc_char(x),
{
    lemma_strlits();
    let s0 = seq![x];
    lemma_replace_char_single(x, '\\', "\\\\"@);
    let s1 = replace_char(s0, '\\', "\\\\"@);
    if x == '\\' {
        assert(s1 == seq!['\\', '\\']);
        lemma_replace_char_absent(s1, '"', "\\\""@);
        lemma_replace_char_absent(s1, '\n', "\\n"@);
        lemma_replace_char_absent(s1, '\r', "\\r"@);
        lemma_replace_char_absent(s1, '\t', "\\t"@);
    } else {
        assert(s1 == s0);
        lemma_replace_char_single(x, '"', "\\\""@);
        let s2 = replace_char(s1, '"', "\\\""@);
        if x == '"' {
            assert(s2 == seq!['\\', '"']);
            lemma_replace_char_absent(s2, '\n', "\\n"@);
            lemma_replace_char_absent(s2, '\r', "\\r"@);
            lemma_replace_char_absent(s2, '\t', "\\t"@);
        } else {
            assert(s2 == s0);
            lemma_replace_char_single(x, '\n', "\\n"@);
            let s3 = replace_char(s2, '\n', "\\n"@);
            if x == '\n' {
                assert(s3 == seq!['\\', 'n']);
                lemma_replace_char_absent(s3, '\r', "\\r"@);
                lemma_replace_char_absent(s3, '\t', "\\t"@);
            } else {
                assert(s3 == s0);
                lemma_replace_char_single(x, '\r', "\\r"@);
                let s4 = replace_char(s3, '\r', "\\r"@);
                if x == '\r' {
                    assert(s4 == seq!['\\', 'r']);
                    lemma_replace_char_absent(s4, '\t', "\\t"@);
                } else {
                    assert(s4 == s0);
                    lemma_replace_char_single(x, '\t', "\\t"@);
                }
            }
        }
    }
}

pub proof fn lemma_esc_chain_concat(a: Seq<char>, b: Seq<char>)
    ensures esc_chain(a + b) == esc_chain(a) + esc_chain(b),
{
    lemma_replace_char_concat(a, b, '\\', "\\\\"@);
    let a1 = replace_char(a, '\\', "\\\\"@); let b1 = replace_char(b, '\\', "\\\\"@);
    lemma_replace_char_concat(a1, b1, '"', "\\\""@);
    let a2 = replace_char(a1, '"', "\\\""@); let b2 = replace_char(b1, '"', "\\\""@);
    lemma_replace_char_concat(a2, b2, '\n', "\\n"@);
    let a3 = replace_char(a2, '\n', "\\n"@); let b3 = replace_char(b2, '\n', "\\n"@);
    lemma_replace_char_concat(a3, b3, '\r', "\\r"@);
    let a4 = replace_char(a3, '\r', "\\r"@); let b4 = replace_char(b3, '\r', "\\r"@);
    lemma_replace_char_concat(a4, b4, '\t', "\\t"@);
}

pub proof fn lemma_esc_chain_is_esc(s: Seq<char>)
    ensures esc_chain(s) == esc(s),
    decreases s.len(),
{
    if s.len() == 0 {
        assert(replace_char(s, '\\', "\\\\"@) =~= Seq::<char>::empty());
    } else {
        lemma_esc_chain_is_esc(s.drop_last());
        lemma_esc_chain_single(s.last());
        lemma_esc_chain_concat(s.drop_last(), seq![s.last()]);
        assert(s.drop_last() + seq![s.last()] =~= s);
    }
}

// ---- what "correctly escaped" means: a JavaScript double-quoted literal body decodes back
/// decoder of the body of a JS "..." literal (the escapes the tool emits); None = not a valid body
pub open spec fn js_decode(t: Seq<char>) -> Option<Seq<char>>
    decreases t.len()
{
    if t.len() == 0 { Some(Seq::<char>::empty()) }
    else if t[0] == '\\' {
        if t.len() < 2 { None } else {
            let c = t[1];
            let d = if c == '\\' { Some('\\') } else if c == '"' { Some('"') } else if c == 'n' { Some('\n') }
                    else if c == 'r' { Some('\r') } else if c == 't' { Some('\t') } else { None };
            match (d, js_decode(t.skip(2))) {
                (Some(x), Some(rest)) => Some(seq![x] + rest),
                _ => None,
            }
        }
    }
    else if t[0] == '"' || t[0] == '\n' || t[0] == '\r' { None }   // raw terminator / line break
    else {
        match js_decode(t.skip(1)) { Some(rest) => Some(seq![t[0]] + rest), None => None }
    }
}

pub proof fn lemma_esc_concat(a: Seq<char>, b: Seq<char>)
    ensures esc(a + b) == esc(a) + esc(b),
    decreases b.len(),
{
    if b.len() == 0 {
        assert(a + b =~= a);
        assert(esc(a) + esc(b) =~= esc(a));
    } else {
        lemma_esc_concat(a, b.drop_last());
        assert((a + b).drop_last() =~= a + b.drop_last());
        assert((a + b).last() == b.last());
        assert(esc(a + b) =~= esc(a) + (esc(b.drop_last()) + esc_char(b.last())));
    }
}

//@ PROPS C11 C01
/// C11/C01: the escaped text is a valid literal body that decodes to exactly the declared message,
/// character for character, for arbitrary Unicode (quotes, backslashes, line breaks included)
pub proof fn lemma_C11_escape_round_trips(s: Seq<char>)
    ensures js_decode(esc(s)) == Some(s),
    decreases s.len(),
{
    lemma_strlits();
    if s.len() == 0 {
        assert(esc(s) =~= Seq::<char>::empty());
        assert(s =~= Seq::<char>::empty());
    } else {
        let x = s[0];
        let rest = s.skip(1);
        assert(seq![x] + rest =~= s);
        lemma_esc_concat(seq![x], rest);
        assert(seq![x].drop_last() =~= Seq::<char>::empty());
        assert(esc(seq![x].drop_last()) =~= Seq::<char>::empty());
        assert(seq![x].last() == x);
        assert(esc(seq![x]) == esc(seq![x].drop_last()) + esc_char(x));
        assert(esc(seq![x]) =~= esc_char(x));
        lemma_C11_escape_round_trips(rest);
        let t = esc_char(x) + esc(rest);
        assert(esc(s) == t);
        if x == '\\' || x == '"' || x == '\n' || x == '\r' || x == '\t' {
            assert(esc_char(x).len() == 2);
            assert(t[0] == '\\');
            assert(t[1] == esc_char(x)[1]);
            assert(t.skip(2) =~= esc(rest));
        } else {
            assert(esc_char(x) == seq![x]);
            assert(t[0] == x);
            assert(t.skip(1) =~= esc(rest));
        }
    }
}

//@ EXTRACT-FN file=src/generators/zod/schema_builder.rs fn=escape_js_string props=C11,C01
//@ RETURNS r
//@ CONTRACT
//@|    ensures r@ == esc(s@),
//@ FIRST
//@|    proof { lemma_esc_chain_is_esc(s@); }
//@ END

// ------------------------------------------------------------------ C11: constraint chains
/// one bound: `.min(V)` or `.min(V, { message: "M" })` with M escaped
pub open spec fn bound(method: Seq<char>, v: Seq<char>, msg: Option<String>) -> Seq<char> {
    match msg {
        Some(m) => method + v + ", { message: \""@ + esc(m@) + "\" })"@,
        None => method + v + ")"@,
    }
}

/// declared bounds, exact values (a/b are the displayed numbers), min before max
pub open spec fn bounds_chain(min: Option<Seq<char>>, max: Option<Seq<char>>, msg: Option<String>) -> Seq<char> {
    (match min { Some(a) => bound(".min("@, a, msg), None => Seq::<char>::empty() })
        + (match max { Some(b) => bound(".max("@, b, msg), None => Seq::<char>::empty() })
}

pub open spec fn d_u64(x: Option<u64>) -> Option<Seq<char>> {
    match x { Some(v) => Some(disp_spec::<u64>(&v)), None => None }
}
pub open spec fn d_f64(x: Option<f64>) -> Option<Seq<char>> {
    match x { Some(v) => Some(disp_spec::<f64>(&v)), None => None }
}

pub open spec fn length_chain(validator: Option<ValidatorAttributes>, skip: bool) -> Seq<char> {
    if skip { Seq::<char>::empty() } else {
        match validator {
            Some(val) => match val.length {
                Some(l) => bounds_chain(d_u64(l.min), d_u64(l.max), l.message),
                None => Seq::<char>::empty(),
            },
            None => Seq::<char>::empty(),
        }
    }
}

pub open spec fn range_chain(validator: Option<ValidatorAttributes>, skip: bool) -> Seq<char> {
    if skip { Seq::<char>::empty() } else {
        match validator {
            Some(val) => match val.range {
                Some(l) => bounds_chain(d_f64(l.min), d_f64(l.max), l.message),
                None => Seq::<char>::empty(),
            },
            None => Seq::<char>::empty(),
        }
    }
}

pub open spec fn string_chain(validator: Option<ValidatorAttributes>, skip: bool) -> Seq<char> {
    if skip { Seq::<char>::empty() } else {
        match validator {
            Some(val) => (if val.email { ".email()"@ } else { Seq::<char>::empty() })
                + (if val.url { ".url()"@ } else { Seq::<char>::empty() })
                + length_chain(validator, skip),
            None => Seq::<char>::empty(),
        }
    }
}

/// the two places where the code's format template fuses two of the spec's literals
pub proof fn lemma_fused_literals()
    ensures
        "\" }).max("@ == "\" })"@ + ".max("@,
        ").max("@ == ")"@ + ".max("@,
{
    reveal_strlit("\" }).max(");
    reveal_strlit("\" })");
    reveal_strlit(".max(");
    reveal_strlit(").max(");
    reveal_strlit(")");
    assert("\" }).max("@ =~= "\" })"@ + ".max("@);
    assert(").max("@ =~= ")"@ + ".max("@);
}

pub proof fn lemma_both_bounds(a: Seq<char>, b: Seq<char>, msg: Option<String>)
    ensures
        msg is Some ==> ".min("@ + a + ", { message: \""@ + esc(msg->0@) + "\" }).max("@ + b + ", { message: \""@ + esc(msg->0@) + "\" })"@
            == bounds_chain(Some(a), Some(b), msg),
        msg is None ==> ".min("@ + a + ").max("@ + b + ")"@ == bounds_chain(Some(a), Some(b), msg),
{
    lemma_fused_literals();
    if msg is Some {
        let e = esc(msg->0@);
        assert(".min("@ + a + ", { message: \""@ + e + ("\" })"@ + ".max("@) + b + ", { message: \""@ + e + "\" })"@
            =~= (".min("@ + a + ", { message: \""@ + e + "\" })"@) + (".max("@ + b + ", { message: \""@ + e + "\" })"@));
    } else {
        assert(".min("@ + a + (")"@ + ".max("@) + b + ")"@ =~= (".min("@ + a + ")"@) + (".max("@ + b + ")"@));
    }
}

// ------------------------------------------------------------------ C10: expected Zod schema text
pub open spec fn is_prim_name(p: Seq<char>) -> bool {
    p == "string"@ || p == "number"@ || p == "boolean"@ || p == "void"@
}

pub open spec fn zprim(p: Seq<char>, val: Option<ValidatorAttributes>, skip: bool, key: bool) -> Seq<char> {
    if p == "string"@ { "z.string()"@ + string_chain(val, skip) }
    else if p == "number"@ { (if key { "z.number()"@ } else { "z.coerce.number()"@ }) + range_chain(val, skip) }
    else if p == "boolean"@ { "z.coerce.boolean()"@ }
    else { "z.void()"@ }
}

/// schema for a project type name: the mapped target's schema (C18), else a reference to NameSchema
pub open spec fn zcustom(m: Mappings, n: String) -> Seq<char> {
    if m.contains_key(n) {
        let t = m[n]@;
        if t == "string"@ { "z.string()"@ }
        else if t == "number"@ { "z.number()"@ }
        else if t == "boolean"@ { "z.boolean()"@ }
        else if t == "void"@ { "z.void()"@ }
        else { "z.custom<"@ + t + ">((val) => true)"@ }
    } else { n@ + "Schema"@ }
}

/// C10: the schema for a type tree: arrays for sequences AND sets, records for maps, tuples,
/// T alone for Result, Option as `inner + os` (os = the omittable/nullable suffix), validators only on
/// the field's own (possibly Option-wrapped) type.
pub open spec fn zs(m: Mappings, os: Seq<char>, ts: TypeStructure, val: Option<ValidatorAttributes>, skip: bool, key: bool) -> Seq<char>
    decreases ts, 0int
{
    match ts {
        TypeStructure::Primitive(p) => zprim(p@, val, skip, key),
        TypeStructure::Array(i) => "z.array("@ + zs(m, os, *i, val, true, false) + ")"@ + length_chain(val, skip),
        TypeStructure::Map { key: k, value: v } => "z.record("@ + zs(m, os, *k, val, true, true) + ", "@ + zs(m, os, *v, val, true, false) + ")"@,
        TypeStructure::Set(i) => "z.array("@ + zs(m, os, *i, val, true, false) + ")"@,
        TypeStructure::Tuple(v) => zs_tuple(m, os, v@, val),
        TypeStructure::Optional(i) => zs(m, os, *i, val, skip, key) + os,
        TypeStructure::Result(i) => zs(m, os, *i, val, true, false),
        TypeStructure::Custom(n) => zcustom(m, n),
    }
}

pub open spec fn zs_tuple(m: Mappings, os: Seq<char>, v: Seq<TypeStructure>, val: Option<ValidatorAttributes>) -> Seq<char>
    decreases v, 2int
{
    if v.len() == 0 { "z.void()"@ } else { "z.tuple(["@ + zs_list(m, os, v, val) + "])"@ }
}

pub open spec fn zs_list(m: Mappings, os: Seq<char>, v: Seq<TypeStructure>, val: Option<ValidatorAttributes>) -> Seq<char>
    decreases v, 1int
{
    if v.len() == 0 { Seq::<char>::empty() }
    else if v.len() == 1 { zs(m, os, v[0], val, true, false) }
    else { zs_list(m, os, v.drop_last(), val) + ", "@ + zs(m, os, v.last(), val, true, false) }
}

/// invariant of TypeStructure established by the parser: primitives are the four TS names
pub open spec fn prims_ok(ts: TypeStructure) -> bool
    decreases ts
{
    match ts {
        TypeStructure::Primitive(p) => is_prim_name(p@),
        TypeStructure::Array(i) | TypeStructure::Set(i) | TypeStructure::Optional(i) | TypeStructure::Result(i) => prims_ok(*i),
        TypeStructure::Map { key, value } => prims_ok(*key) && prims_ok(*value),
        TypeStructure::Tuple(v) => forall|i: int| 0 <= i < v@.len() ==> prims_ok(#[trigger] v@[i]),
        TypeStructure::Custom(_) => true,
    }
}

/// the suffix the code uses for Option
pub open spec fn code_os() -> Seq<char> { ".optional()"@ }

/// C10: "a value of the declared TypeScript type (T | null) that Rust would accept is never rejected":
/// the Option suffix must admit null as well as omission
pub open spec fn os_accepts_null_and_omission(os: Seq<char>) -> bool {
    os == ".nullish()"@ || os == ".nullable().optional()"@ || os == ".optional().nullable()"@
}

pub proof fn lemma_zs_join(m: Mappings, os: Seq<char>, ts: Seq<TypeStructure>, val: Option<ValidatorAttributes>, strs: Seq<String>, n: int)
    requires
        0 <= n <= ts.len(), strs.len() == ts.len(),
        forall|i: int| 0 <= i < ts.len() ==> (#[trigger] strs[i])@ == zs(m, os, ts[i], val, true, false),
    ensures
        join_spec(strs.take(n), ", "@) == zs_list(m, os, ts.take(n), val),
    decreases n,
{
    if n == 0 {
        assert(ts.take(0).len() == 0);
    } else {
        lemma_zs_join(m, os, ts, val, strs, n - 1);
        assert(strs.take(n).drop_last() =~= strs.take(n - 1));
        assert(ts.take(n).drop_last() =~= ts.take(n - 1));
        assert(strs.take(n).last() == strs[n - 1]);
        assert(ts.take(n).last() == ts[n - 1]);
        if n == 1 { assert(ts.take(n)[0] == ts[0]); assert(strs.take(n)[0] == strs[0]); }
    }
}

impl<'a> ZodVisitor<'a> {

pub closed spec fn mappings(&self) -> Mappings {
    match self.config {
        Some(c) => match c.type_mappings { Some(m) => m@, None => Map::<String, String>::empty() },
        None => Map::<String, String>::empty(),
    }
}

//@ EXTRACT-FN file=src/generators/zod/type_visitor.rs in="impl<'a> TypeVisitor for ZodVisitor<'a>" fn=get_config props=C10,C18
//@ RETURNS r
//@ CONTRACT
//@|    ensures r == self.config,
//@ END

//@ EXTRACT-FN file=src/generators/zod/type_visitor.rs in="impl<'a> TypeVisitor for ZodVisitor<'a>" fn=visit_primitive props=C10 vname=ZodVisitor::visit_primitive
//@ RETURNS r
//@ CONTRACT
//@|    ensures true,
//@ END

//@ EXTRACT-FN file=src/generators/base/type_visitor.rs in="trait TypeVisitor" fn=visit_type props=C10,C18 vname=ZodVisitor::visit_type
//@ RETURNS r
//@ CONTRACT
//@|    ensures structure is Custom ==> r@ == zcustom(self.mappings(), structure->Custom_0),
//@|    decreases *structure, 1int,
//@ END

//@ EXTRACT-FN file=src/generators/zod/type_visitor.rs in="impl<'a> TypeVisitor for ZodVisitor<'a>" fn=visit_array props=C10 vname=ZodVisitor::visit_array
//@ CONTRACT
//@|    decreases *inner, 2int,
//@ END

//@ EXTRACT-FN file=src/generators/zod/type_visitor.rs in="impl<'a> TypeVisitor for ZodVisitor<'a>" fn=visit_set props=C10 vname=ZodVisitor::visit_set
//@ CONTRACT
//@|    decreases *inner, 2int,
//@ END

//@ EXTRACT-FN file=src/generators/zod/type_visitor.rs in="impl<'a> TypeVisitor for ZodVisitor<'a>" fn=visit_optional props=C10 vname=ZodVisitor::visit_optional
//@ CONTRACT
//@|    decreases *inner, 2int,
//@ END

//@ EXTRACT-FN file=src/generators/zod/type_visitor.rs in="impl<'a> TypeVisitor for ZodVisitor<'a>" fn=visit_result props=C10 vname=ZodVisitor::visit_result
//@ CONTRACT
//@|    decreases *inner, 2int,
//@ END

//@ EXTRACT-FN file=src/generators/zod/type_visitor.rs in="impl<'a> TypeVisitor for ZodVisitor<'a>" fn=visit_map props=C10 vname=ZodVisitor::visit_map
//@ CONTRACT
//@|    decreases (TypeStructure::Map { key: Box::new(*key), value: Box::new(*value) }), 0int,
//@ FIRST
//@|    proof {
//@|        let m0 = TypeStructure::Map { key: Box::new(*key), value: Box::new(*value) };
//@|        assert(*m0->key == *key && *m0->value == *value);
//@|        assert(decreases_to!(m0 => *m0->key));
//@|        assert(decreases_to!(m0 => *m0->value));
//@|    }
//@ END

//@ EXTRACT-FN file=src/generators/zod/type_visitor.rs in="impl<'a> TypeVisitor for ZodVisitor<'a>" fn=visit_tuple props=C10 vname=ZodVisitor::visit_tuple
//@ CONTRACT
//@|    decreases types@, 2int,
//@ CLOSURE 1
//@| |t: &TypeStructure| -> (s: String) requires types@.contains(*t)
//@ END

//@ EXTRACT-FN file=src/generators/zod/type_visitor.rs in="impl<'a> TypeVisitor for ZodVisitor<'a>" fn=visit_type_for_interface props=C05,C18 vname=ZodVisitor::visit_type_for_interface
//@ RETURNS r
//@ CONTRACT
//@|    ensures
//@|        structure is Primitive ==> r@ == pp(den(self.mappings(), *structure)),
//@|        structure is Map ==> r@ == pp(den(self.mappings(), *structure)),
//@|        structure is Tuple ==> r@ == pp(den(self.mappings(), *structure)),
//@|        structure is Optional ==> r@ == pp(den(self.mappings(), *structure)),
//@|        structure is Result ==> r@ == pp(den(self.mappings(), *structure)),
//@|        structure is Custom ==> r@ == pp(den(self.mappings(), *structure)),
//@|        structure is Array && !is_union(den(self.mappings(), *structure->Array_0)) ==> r@ == pp(den(self.mappings(), *structure)),
//@|        structure is Set && !is_union(den(self.mappings(), *structure->Set_0)) ==> r@ == pp(den(self.mappings(), *structure)),
//@|        structure is Array && is_union(den(self.mappings(), *structure->Array_0)) ==> r@ == pp(den(self.mappings(), *structure)),
//@|        structure is Set && is_union(den(self.mappings(), *structure->Set_0)) ==> r@ == pp(den(self.mappings(), *structure)),
//@|    decreases *structure,
//@ CLOSURE 1
//@| |t: &TypeStructure| -> (s: String) requires types@.contains(*t) ensures s@ == pp(den(self.mappings(), *t))
//@ AFTER `.collect();`
//@|    proof {
//@|        lemma_join_is_pp_list(self.mappings(), types@, type_strs@, types@.len() as int);
//@|        assert(types@.take(types@.len() as int) =~= types@);
//@|        assert(type_strs@.take(types@.len() as int) =~= type_strs@);
//@|        assert(den(self.mappings(), *structure) == den_tuple(self.mappings(), types@));
//@|        assert(den_tuple(self.mappings(), types@) == TsTy::Tup(den_list(self.mappings(), types@)));
//@|    }
//@ END

//@ EXTRACT-FN file=src/generators/zod/type_visitor.rs in="impl<'a> TypeVisitor for ZodVisitor<'a>" fn=visit_custom props=C10,C18 vname=ZodVisitor::visit_custom
//@ RETURNS r
//@ CONTRACT
//@|    ensures r@ == zcustom(self.mappings(), string_of(name@)),
//@ END

}

impl<'a> ZodSchemaBuilder<'a> {

pub closed spec fn mappings(&self) -> Mappings { self.visitor.mappings() }

//@ EXTRACT-FN file=src/generators/zod/schema_builder.rs in="impl<'a> ZodSchemaBuilder<'a>" fn=build_schema props=C10,C11
//@ RETURNS r
//@ CONTRACT
//@|    requires prims_ok(*type_structure),
//@|    ensures r@ == zs(self.mappings(), code_os(), *type_structure, *validator_attributes, false, false),
//@ END

//@ EXTRACT-FN file=src/generators/zod/schema_builder.rs in="impl<'a> ZodSchemaBuilder<'a>" fn=build_param_schema props=C10
//@ RETURNS r
//@ CONTRACT
//@|    requires prims_ok(*type_structure),
//@|    ensures r@ == zs(self.mappings(), code_os(), *type_structure, None, true, false),
//@ END

//@ EXTRACT-FN file=src/generators/zod/schema_builder.rs in="impl<'a> ZodSchemaBuilder<'a>" fn=render_type props=C10,C11,C18
//@ RETURNS r
//@ CONTRACT
//@|    requires prims_ok(*ts),
//@|    ensures
//@|        ts is Primitive ==> r@ == zs(self.mappings(), code_os(), *ts, *validator, skip_validation, is_record_key),
//@|        ts is Array ==> r@ == zs(self.mappings(), code_os(), *ts, *validator, skip_validation, is_record_key),
//@|        ts is Map ==> r@ == zs(self.mappings(), code_os(), *ts, *validator, skip_validation, is_record_key),
//@|        ts is Tuple ==> r@ == zs(self.mappings(), code_os(), *ts, *validator, skip_validation, is_record_key),
//@|        ts is Custom ==> r@ == zs(self.mappings(), code_os(), *ts, *validator, skip_validation, is_record_key),
//@|        ts is Optional ==> r@ == zs(self.mappings(), code_os(), *ts, *validator, skip_validation, is_record_key),
//@|        ts is Set ==> r@ == zs(self.mappings(), code_os(), *ts, *validator, skip_validation, is_record_key),
//@|        ts is Result ==> r@ == zs(self.mappings(), code_os(), *ts, *validator, skip_validation, is_record_key),
//@|        ts is Optional ==> exists|os: Seq<char>| os_accepts_null_and_omission(os) && r@ == zs(self.mappings(), os, *ts, *validator, skip_validation, is_record_key),
//@|    decreases *ts,
//@ BEFORE `"z.void()".to_string()`
//@|    proof {
//@|        assert(zs(self.mappings(), code_os(), *ts, *validator, skip_validation, is_record_key) == zs_tuple(self.mappings(), code_os(), types@, *validator));
//@|    }
//@ CLOSURE 1
//@| |t: &TypeStructure| -> (s: String) requires types@.contains(*t), prims_ok(*t) ensures s@ == zs(self.mappings(), code_os(), *t, *validator, true, false)
//@ AFTER `.collect();`
//@|    proof {
//@|        lemma_zs_join(self.mappings(), code_os(), types@, *validator, type_strs@, types@.len() as int);
//@|        assert(types@.take(types@.len() as int) =~= types@);
//@|        assert(type_strs@.take(types@.len() as int) =~= type_strs@);
//@|        assert(zs(self.mappings(), code_os(), *ts, *validator, skip_validation, is_record_key) == zs_tuple(self.mappings(), code_os(), types@, *validator));
//@|    }
//@ END

//@ EXTRACT-FN file=src/generators/zod/schema_builder.rs in="impl<'a> ZodSchemaBuilder<'a>" fn=render_primitive props=C10,C11
//@ RETURNS r
//@ CONTRACT
//@|    ensures is_prim_name(type_name@) ==> r@ == zprim(type_name@, *validator, skip_validation, is_record_key),
//@ END

//@ EXTRACT-FN file=src/generators/zod/schema_builder.rs in="impl<'a> ZodSchemaBuilder<'a>" fn=apply_length_validator props=C11
//@ RETURNS r
//@ CONTRACT
//@|    ensures r@ == schema@ + length_chain(*validator, skip_validation),
//@ AFTER `let mut result = schema.to_string();`
//@|    proof {
//@|        lemma_both_bounds(disp_spec::<u64>(&length.min->0), disp_spec::<u64>(&length.max->0), length.message);
//@|        assert(schema@ + Seq::<char>::empty() =~= schema@);
//@|    }
//@ BEFORE `result }`
//@|    proof {
//@|        assert(result@ =~= schema@ + length_chain(*validator, skip_validation));
//@|    }
//@ END

//@ EXTRACT-FN file=src/generators/zod/schema_builder.rs in="impl<'a> ZodSchemaBuilder<'a>" fn=apply_range_validator props=C11
//@ RETURNS r
//@ CONTRACT
//@|    ensures r@ == schema@ + range_chain(*validator, skip_validation),
//@ AFTER `let mut result = schema.to_string();`
//@|    proof {
//@|        lemma_both_bounds(disp_spec::<f64>(&range.min->0), disp_spec::<f64>(&range.max->0), range.message);
//@|        assert(schema@ + Seq::<char>::empty() =~= schema@);
//@|    }
//@ BEFORE `result }`
//@|    proof {
//@|        assert(result@ =~= schema@ + range_chain(*validator, skip_validation));
//@|    }
//@ END

//@ EXTRACT-FN file=src/generators/zod/schema_builder.rs in="impl<'a> ZodSchemaBuilder<'a>" fn=apply_string_validators props=C11
//@ RETURNS r
//@ CONTRACT
//@|    ensures r@ == schema@ + string_chain(*validator, skip_validation),
//@ AFTER `let mut result = schema.to_string();`
//@|    let ghost e = if val.email { ".email()"@ } else { Seq::<char>::empty() };
//@|    let ghost u = if val.url { ".url()"@ } else { Seq::<char>::empty() };
//@|    let ghost l = length_chain(*validator, skip_validation);
//@|    proof { assert(string_chain(*validator, skip_validation) == e + u + l); }
//@ AFTER `if val.email { result.push_str(".email()"); }`
//@|    proof { assert(result@ =~= schema@ + e); }
//@ AFTER `if val.url { result.push_str(".url()"); }`
//@|    proof { assert(result@ =~= schema@ + e + u); }
//@ BEFORE `result }`
//@|    proof {
//@|        assert(result@ == (schema@ + e + u) + l);
//@|        assert((schema@ + e + u) + l =~= schema@ + (e + u + l));
//@|    }
//@ END

}

//@ PROPS C10
/// C10: the schema mirrors the plain-TypeScript structure constructor by constructor
/// (arrays for sequences AND sets, records for maps, T alone for Result, references by NameSchema,
/// Option = inner schema + the omittable suffix), for any nesting
pub proof fn lemma_C10_table(m: Mappings, os: Seq<char>, t: TypeStructure, u: TypeStructure, n: String, val: Option<ValidatorAttributes>, skip: bool, key: bool)
    ensures
        zs(m, os, TypeStructure::Array(Box::new(t)), val, skip, key) == "z.array("@ + zs(m, os, t, val, true, false) + ")"@ + length_chain(val, skip),
        zs(m, os, TypeStructure::Set(Box::new(t)), None, skip, key) == zs(m, os, TypeStructure::Array(Box::new(t)), None, skip, key),
        zs(m, os, TypeStructure::Map { key: Box::new(t), value: Box::new(u) }, val, skip, key)
            == "z.record("@ + zs(m, os, t, val, true, true) + ", "@ + zs(m, os, u, val, true, false) + ")"@,
        zs(m, os, TypeStructure::Result(Box::new(t)), val, skip, key) == zs(m, os, t, val, true, false),
        zs(m, os, TypeStructure::Optional(Box::new(t)), val, skip, key) == zs(m, os, t, val, skip, key) + os,
        !m.contains_key(n) ==> zs(m, os, TypeStructure::Custom(n), val, skip, key) == n@ + "Schema"@,
{
    reveal_with_fuel(zs, 2);
    assert(length_chain(None, skip) =~= Seq::<char>::empty());
    let a = "z.array("@ + zs(m, os, t, None, true, false) + ")"@;
    assert(a + Seq::<char>::empty() =~= a);
}

//@ PROPS C11
/// C11: "fields without validators carry no constraints"; parameters never carry any
pub proof fn lemma_C11_no_validators_no_constraints(skip: bool, v: ValidatorAttributes)
    ensures
        length_chain(None, skip) == Seq::<char>::empty(),
        range_chain(None, skip) == Seq::<char>::empty(),
        string_chain(None, skip) == Seq::<char>::empty(),
        length_chain(Some(v), true) == Seq::<char>::empty(),
        v.length is None && v.range is None && !v.email && !v.url ==> string_chain(Some(v), false) == Seq::<char>::empty()
            && range_chain(Some(v), false) == Seq::<char>::empty(),
{
    assert(Seq::<char>::empty() + Seq::<char>::empty() + Seq::<char>::empty() =~= Seq::<char>::empty());
}

//@ PROPS C11
/// C11: email/url appear iff declared; bounds carry the exact displayed values, min before max,
/// message through esc()
pub proof fn lemma_C11_chain_shape(v: ValidatorAttributes, a: u64, b: u64, msg: String)
    requires v.length == Some(LengthConstraint { min: Some(a), max: Some(b), message: Some(msg) }),
    ensures
        length_chain(Some(v), false) == ".min("@ + disp_spec::<u64>(&a) + ", { message: \""@ + esc(msg@) + "\" })"@
            + (".max("@ + disp_spec::<u64>(&b) + ", { message: \""@ + esc(msg@) + "\" })"@),
        string_chain(Some(v), false) == (if v.email { ".email()"@ } else { Seq::<char>::empty() })
            + (if v.url { ".url()"@ } else { Seq::<char>::empty() }) + length_chain(Some(v), false),
{
}

//@ AUTO-FREE-FNS
} // verus!
fn main() {}
