// Unit U-collect: TypeCollector::{collect_referenced_types_from_structure,
// discover_nested_dependencies, collect_used_types}  — C07 (reachability closure)
#![feature(allocator_api)]
#![allow(unused_imports, unused_variables, dead_code, unused_mut)]
use vstd::prelude::*;
use vstd::std_specs::hash::*;
use vstd::std_specs::iter::IteratorSpec;
use std::collections::{HashMap, HashSet};
use std::alloc::Allocator;
use std::path::PathBuf;

//@ INCLUDE prelude/base.rs
use vpre::*;

verus! {

broadcast use {vstd::std_specs::hash::group_hash_axioms, vpre::group_string_keys};

//@ INCLUDE units/inc/models.rs

//@ EXTRACT-TYPE file=src/generators/mod.rs struct=TypeCollector

pub type Structs = Map<String, StructInfo>;

// ------------------------------------------------------------------ specification
//@ INCLUDE specs/customs.rs

pub open spec fn fields_mention(fs: Seq<FieldInfo>, k: int, m: String) -> bool {
    exists|i: int| 0 <= i < k && i < fs.len() && has_custom((#[trigger] fs[i]).type_structure, m)
}

/// project type `n` has a field whose type mentions project type `m`
pub open spec fn sedge(s: Structs, n: String, m: String) -> bool {
    s.contains_key(n) && s.contains_key(m) && fields_mention(s[n].fields@, s[n].fields@.len() as int, m)
}

pub open spec fn is_spath(s: Structs, p: Seq<String>) -> bool {
    p.len() >= 1 && forall|i: int| 0 <= i < p.len() - 1 ==> sedge(s, #[trigger] p[i], p[i + 1])
}

pub open spec fn sreaches(s: Structs, u: String, v: String) -> bool {
    exists|p: Seq<String>| is_spath(s, p) && p[0] == u && p.last() == v
}

pub proof fn lemma_sreaches_refl(s: Structs, u: String)
    ensures sreaches(s, u, u),
{
    let p = seq![u];
    assert(is_spath(s, p) && p[0] == u && p.last() == u);
}

pub proof fn lemma_sreaches_step(s: Structs, u: String, v: String, w: String)
    requires sreaches(s, u, v), sedge(s, v, w),
    ensures sreaches(s, u, w),
{
    let p = choose|p: Seq<String>| is_spath(s, p) && p[0] == u && p.last() == v;
    let q = p.push(w);
    assert forall|i: int| 0 <= i < q.len() - 1 implies sedge(s, #[trigger] q[i], q[i + 1]) by {
        if i < p.len() - 1 {
            assert(q[i] == p[i] && q[i + 1] == p[i + 1]);
        } else {
            assert(q[i] == p.last() && q[i + 1] == w);
        }
    }
    assert(is_spath(s, q) && q[0] == u && q.last() == w);
}

/// a set that contains `u` and is closed under sedge contains everything reachable from `u`
proof fn lemma_closed_contains_reach(s: Structs, all: Set<String>, p: Seq<String>, k: int)
    requires
        is_spath(s, p), all.contains(p[0]), 0 <= k < p.len(),
        forall|n: String, m: String| all.contains(n) && #[trigger] sedge(s, n, m) ==> all.contains(m),
    ensures all.contains(p[k]),
    decreases k,
{
    if k > 0 {
        lemma_closed_contains_reach(s, all, p, k - 1);
        assert(sedge(s, p[k - 1], p[k - 1 + 1]));
    }
}

/// a name on the public surface of a command: parameter, return or channel message type
pub open spec fn params_mention(ps: Seq<ParameterInfo>, k: int, n: String) -> bool {
    exists|i: int| 0 <= i < k && i < ps.len() && has_custom((#[trigger] ps[i]).type_structure, n)
}

pub open spec fn channels_mention(cs: Seq<ChannelInfo>, k: int, n: String) -> bool {
    exists|i: int| 0 <= i < k && i < cs.len() && has_custom((#[trigger] cs[i]).message_type_structure, n)
}

pub open spec fn cmd_surface(c: CommandInfo, n: String) -> bool {
    params_mention(c.parameters@, c.parameters@.len() as int, n)
        || has_custom(c.return_type_structure, n)
        || channels_mention(c.channels@, c.channels@.len() as int, n)
}

pub open spec fn cmds_surface(cs: Seq<CommandInfo>, k: int, n: String) -> bool {
    exists|i: int| 0 <= i < k && i < cs.len() && cmd_surface(#[trigger] cs[i], n)
}

/// a name on the public surface: command parameter, return, channel message or event payload type
pub open spec fn on_surface(cs: Seq<CommandInfo>, es: Seq<EventInfo>, n: String) -> bool {
    cmds_surface(cs, cs.len() as int, n) || events_mention(es, es.len() as int, n)
}

/// C07: reachable from the public surface through any chain of field types
pub open spec fn reachable_from_surface(cs: Seq<CommandInfo>, es: Seq<EventInfo>, s: Structs, k: String) -> bool {
    exists|n: String| on_surface(cs, es, n) && sreaches(s, n, k)
}

/// C07: the emitted map holds exactly the discovered project types reachable from the surface,
/// each once (map keys), with their original definitions
pub open spec fn declared_exactly(cs: Seq<CommandInfo>, es: Seq<EventInfo>, s: Structs, r: Structs) -> bool {
    &&& forall|k: String| #![trigger r.contains_key(k)] r.contains_key(k) <==> s.contains_key(k) && reachable_from_surface(cs, es, s, k)
    &&& forall|k: String| #![trigger r[k]] r.contains_key(k) ==> r[k] == s[k]
}

// O1: the final filter/map/collect of collect_used_types uses tuple-pattern closures
// (rejected by Verus); its contract is ASSUMED.
impl TypeCollector {

//@ EXTRACT-FN file=src/generators/mod.rs in="impl TypeCollector" fn=collect_referenced_types_from_structure props=C07
//@ CONTRACT
//@|    ensures
//@|        forall|n: String| #![trigger final(used_types)@.contains(n)] #![trigger has_custom(*type_structure, n)]
//@|            final(used_types)@.contains(n) <==> old(used_types)@.contains(n) || has_custom(*type_structure, n),
//@|    decreases *type_structure,
//@ LOOP 1 ITER=it
//@|    invariant
//@|        *type_structure == TypeStructure::Tuple(*types),
//@|        it.snapshot@.remaining() == types@.map_values(|t: TypeStructure| &t),
//@|        forall|n: String| used_types@.contains(n) <==> old(used_types)@.contains(n)
//@|            || exists|i: int| 0 <= i < it.index@ && has_custom(#[trigger] types@[i], n),
//@ BEFORE `Self::collect_referenced_types_from_structure(t, used_types);`
//@|    let ghost used_before = used_types@;
//@|    proof {
//@|        assert(0 <= it.index@ < types@.len());
//@|        assert(*t == types@[it.index@]);
//@|        assert(type_structure->Tuple_0 == *types);
//@|        assert(decreases_to!(*type_structure => type_structure->Tuple_0@[it.index@]));
//@|    }
//@ AFTER `Self::collect_referenced_types_from_structure(t, used_types);`
//@|    proof {
//@|        let k = it.index@;
//@|        assert forall|n: String| used_types@.contains(n) <==> old(used_types)@.contains(n)
//@|            || exists|i: int| 0 <= i < k + 1 && has_custom(#[trigger] types@[i], n) by {
//@|            if has_custom(types@[k], n) { }
//@|            if exists|i: int| 0 <= i < k + 1 && has_custom(#[trigger] types@[i], n) {
//@|                let i = choose|i: int| 0 <= i < k + 1 && has_custom(#[trigger] types@[i], n);
//@|                if i < k { } else { assert(i == k); }
//@|            }
//@|        }
//@|    }
//@ AFTER-LOOP 1
//@|    proof {
//@|        assert forall|n: String| used_types@.contains(n) <==> old(used_types)@.contains(n) || has_custom(*type_structure, n) by {
//@|            assert(type_structure->Tuple_0 == *types);
//@|        }
//@|    }
//@ END

//@ EXTRACT-FN file=src/generators/mod.rs in="impl TypeCollector" fn=collect_used_types props=C07
//@ RETURNS r
//@ CONTRACT
//@|    ensures
//@|        declared_exactly(commands@, Seq::<EventInfo>::empty(), all_structs@, r@),
//@ END

//@ EXTRACT-FN file=src/generators/mod.rs in="impl TypeCollector" fn=collect_used_types_with_events props=C07
//@ RETURNS r
//@ CONTRACT
//@|    ensures
//@|        declared_exactly(commands@, events@, all_structs@, r@),
//@ LOOP 1 ITER=it1
//@|    invariant
//@|        it1.snapshot@.remaining() == commands@.map_values(|c: CommandInfo| &c),
//@|        forall|n: String| #![trigger used_types@.contains(n)] used_types@.contains(n) <==> cmds_surface(commands@, it1.index@, n),
//@ BEFORE `for param in &command.parameters {`
//@|    let ghost k1 = it1.index@;
//@|    let ghost used0 = used_types@;
//@|    proof {
//@|        assert(0 <= k1 < commands@.len());
//@|        assert(*command == commands@[k1]);
//@|    }
//@ LOOP 2 ITER=it2
//@|    invariant
//@|        it2.snapshot@.remaining() == command.parameters@.map_values(|p: ParameterInfo| &p),
//@|        forall|n: String| #![trigger used_types@.contains(n)] used_types@.contains(n) <==> used0.contains(n)
//@|            || params_mention(command.parameters@, it2.index@, n),
//@ BEFORE `Self::collect_referenced_types_from_structure( &param.type_structure, &mut used_types, );`
//@|    let ghost k2 = it2.index@;
//@|    let ghost used1 = used_types@;
//@|    proof {
//@|        assert(0 <= k2 < command.parameters@.len());
//@|        assert(*param == command.parameters@[k2]);
//@|    }
//@ AFTER `Self::collect_referenced_types_from_structure( &param.type_structure, &mut used_types, );`
//@|    proof {
//@|        assert forall|n: String| #![trigger used_types@.contains(n)] used_types@.contains(n) <==> used0.contains(n)
//@|            || params_mention(command.parameters@, k2 + 1, n) by {
//@|            if has_custom(param.type_structure, n) { assert(has_custom(command.parameters@[k2].type_structure, n)); }
//@|            if params_mention(command.parameters@, k2 + 1, n) {
//@|                let i = choose|i: int| 0 <= i < k2 + 1 && i < command.parameters@.len() && has_custom((#[trigger] command.parameters@[i]).type_structure, n);
//@|                if i < k2 { assert(params_mention(command.parameters@, k2, n)); }
//@|            }
//@|        }
//@|    }
//@ BEFORE `for channel in &command.channels {`
//@|    let ghost used2 = used_types@;
//@ LOOP 3 ITER=it3
//@|    invariant
//@|        it3.snapshot@.remaining() == command.channels@.map_values(|c: ChannelInfo| &c),
//@|        forall|n: String| #![trigger used_types@.contains(n)] used_types@.contains(n) <==> used2.contains(n)
//@|            || channels_mention(command.channels@, it3.index@, n),
//@ BEFORE `Self::collect_referenced_types_from_structure( &channel.message_type_structure, &mut used_types, );`
//@|    let ghost k3 = it3.index@;
//@|    proof {
//@|        assert(0 <= k3 < command.channels@.len());
//@|        assert(*channel == command.channels@[k3]);
//@|    }
//@ AFTER `Self::collect_referenced_types_from_structure( &channel.message_type_structure, &mut used_types, );`
//@|    proof {
//@|        assert forall|n: String| #![trigger used_types@.contains(n)] used_types@.contains(n) <==> used2.contains(n)
//@|            || channels_mention(command.channels@, k3 + 1, n) by {
//@|            if has_custom(channel.message_type_structure, n) { assert(has_custom(command.channels@[k3].message_type_structure, n)); }
//@|            if channels_mention(command.channels@, k3 + 1, n) {
//@|                let i = choose|i: int| 0 <= i < k3 + 1 && i < command.channels@.len() && has_custom((#[trigger] command.channels@[i]).message_type_structure, n);
//@|                if i < k3 { assert(channels_mention(command.channels@, k3, n)); }
//@|            }
//@|        }
//@|    }
//@ AFTER-LOOP 3
//@|    proof {
//@|        assert forall|n: String| #![trigger used_types@.contains(n)] used_types@.contains(n) <==> cmds_surface(commands@, k1 + 1, n) by {
//@|            if cmd_surface(commands@[k1], n) { }
//@|            if cmds_surface(commands@, k1 + 1, n) {
//@|                let i = choose|i: int| 0 <= i < k1 + 1 && i < commands@.len() && cmd_surface(#[trigger] commands@[i], n);
//@|                if i < k1 { assert(cmds_surface(commands@, k1, n)); }
//@|            }
//@|            if used0.contains(n) { assert(cmds_surface(commands@, k1, n)); }
//@|        }
//@|    }
//@ AFTER-LOOP 1
//@|    let ghost used_cmds = used_types@;
//@ LOOP 4 ITER=it4
//@|    invariant
//@|        it4.snapshot@.remaining() == events@.map_values(|e: EventInfo| &e),
//@|        forall|n: String| #![trigger used_types@.contains(n)] used_types@.contains(n) <==> used_cmds.contains(n)
//@|            || events_mention(events@, it4.index@, n),
//@ BEFORE `Self::collect_referenced_types_from_structure( &event.payload_type_structure, &mut used_types, );`
//@|    let ghost k4 = it4.index@;
//@|    proof {
//@|        assert(0 <= k4 < events@.len());
//@|        assert(*event == events@[k4]);
//@|    }
//@ AFTER `Self::collect_referenced_types_from_structure( &event.payload_type_structure, &mut used_types, );`
//@|    proof {
//@|        assert forall|n: String| #![trigger used_types@.contains(n)] used_types@.contains(n) <==> used_cmds.contains(n)
//@|            || events_mention(events@, k4 + 1, n) by {
//@|            if has_custom(event.payload_type_structure, n) { assert(has_custom(events@[k4].payload_type_structure, n)); }
//@|            if events_mention(events@, k4 + 1, n) {
//@|                let i = choose|i: int| 0 <= i < k4 + 1 && i < events@.len() && has_custom((#[trigger] events@[i]).payload_type_structure, n);
//@|                if i < k4 { assert(events_mention(events@, k4, n)); }
//@|            }
//@|        }
//@|    }
//@ OUTLINE `all_structs .iter() .filter(|(name, _)| used_types.contains(*name)) .map(|(k, v)| (k.clone(), v.clone())) .collect()` AS Self::restrict_to_used(all_structs, &used_types)
//@|pub fn restrict_to_used(all_structs: &HashMap<String, StructInfo>, used_types: &std::collections::HashSet<String>) -> (r: HashMap<String, StructInfo>)
//@|    ensures
//@|        forall|k: String| #![trigger r@.contains_key(k)] r@.contains_key(k) <==> all_structs@.contains_key(k) && used_types@.contains(k),
//@|        forall|k: String| #![trigger r@[k]] r@.contains_key(k) ==> r@[k] == all_structs@[k],
//@ BEFORE `let initial_types = used_types.clone();`
//@|    let ghost surface = used_types@;
//@ AFTER `self.discover_nested_dependencies(&initial_types, all_structs, &mut used_types);`
//@|    proof {
//@|        assert forall|k: String| all_structs@.contains_key(k) && used_types@.contains(k)
//@|            <==> all_structs@.contains_key(k) && reachable_from_surface(commands@, events@, all_structs@, k) by {
//@|            if used_types@.contains(k) {
//@|                if surface.contains(k) {
//@|                    lemma_sreaches_refl(all_structs@, k);
//@|                    assert(on_surface(commands@, events@, k));
//@|                } else {
//@|                    let n = choose|n: String| surface.contains(n) && sreaches(all_structs@, n, k);
//@|                    assert(on_surface(commands@, events@, n));
//@|                }
//@|            }
//@|            if reachable_from_surface(commands@, events@, all_structs@, k) {
//@|                let n = choose|n: String| on_surface(commands@, events@, n) && sreaches(all_structs@, n, k);
//@|                assert(surface.contains(n));
//@|                assert(from_initial(all_structs@, surface, k));
//@|            }
//@|        }
//@|    }
//@ END

//@ EXTRACT-FN file=src/generators/mod.rs in="impl TypeCollector" fn=discover_nested_dependencies props=C07
//@ CONTRACT
//@|    requires
//@|        initial_types@ == old(all_types)@,
//@|    ensures
//@|        forall|m: String| final(all_types)@.contains(m) <==> old(all_types)@.contains(m)
//@|            || from_initial(all_structs@, initial_types@, m),
//@ FIRST
//@|    let ghost s = all_structs@;
//@|    let ghost initial = initial_types@;
//@|    let ghost init = all_types@;
//@|    let ghost uni = all_structs@.dom().union(initial_types@);
//@ WRAP `for nested_type in <<nested_types>> {` WITH owned_set_iteration_order
//@ OUTLINE `initial_types.iter().cloned().collect()` AS Self::set_to_worklist(initial_types)
//@|pub fn set_to_worklist(initial_types: &std::collections::HashSet<String>) -> (r: Vec<String>)
//@|    ensures r@.to_set() == initial_types@,
//@ AFTER `let mut processed: std::collections::HashSet<String> = std::collections::HashSet::new();`
//@|    proof {
//@|        assert forall|i: int| 0 <= i < to_process@.len() implies from_initial(s, initial, #[trigger] to_process@[i]) by {
//@|            assert(to_process@.to_set().contains(to_process@[i]));
//@|            lemma_sreaches_refl(s, to_process@[i]);
//@|        }
//@|        assert forall|n: String| #[trigger] all_types@.contains(n)
//@|            implies processed@.contains(n) || to_process@.contains(n) by {
//@|            assert(to_process@.to_set().contains(n));
//@|        }
//@|        assert forall|i: int| 0 <= i < to_process@.len() implies all_types@.contains(#[trigger] to_process@[i]) && uni.contains(to_process@[i]) by {
//@|            assert(to_process@.to_set().contains(to_process@[i]));
//@|        }
//@|    }
//@|    let ghost mut gt = to_process@;
//@ LOOP 1
//@|    invariant
//@|        s == all_structs@, initial == initial_types@, init == old(all_types)@, uni == s.dom().union(initial),
//@|        wl_inv(s, initial, init, all_types@, processed@, to_process@, Set::<String>::empty()),
//@|        gt == to_process@,
//@|    ensures
//@|        to_process@.len() == 0,
//@|    decreases uni.difference(processed@).len(), to_process@.len(),
//@ BEFORE `if processed.contains(&type_name) {`
//@|    let ghost processed0 = processed@;
//@|    let ghost todo0 = gt;
//@|    proof {
//@|        assert(to_process@ == todo0.drop_last());
//@|        assert(todo0.last() == type_name);
//@|        assert(all_types@.contains(type_name) && from_initial(s, initial, type_name) && uni.contains(type_name)) by {
//@|            assert(todo0[todo0.len() - 1] == type_name);
//@|        }
//@|        lemma_todo_pop(todo0);
//@|    }
//@ LOOP-END 1
//@|    proof { gt = to_process@; }
//@ BEFORE `continue;` #*
//@|    proof {
//@|        gt = to_process@;
//@|        assert(wl_inv(s, initial, init, all_types@, processed@, to_process@, Set::<String>::empty()));
//@|    }
//@ AFTER `processed.insert(type_name.clone());`
//@|    let ghost tn = type_name;
//@|    proof {
//@|        assert(processed@ == processed0.insert(tn));
//@|        vstd::set::Set::lemma_set_insert_diff_decreases(uni, processed0, tn);
//@|        assert(wl_inv(s, initial, init, all_types@, processed@, to_process@, set![tn]));
//@|    }
//@ LOOP 2 ITER=it2
//@|    invariant
//@|        s == all_structs@, initial == initial_types@, init == old(all_types)@, uni == s.dom().union(initial),
//@|        wl_inv(s, initial, init, all_types@, processed@, to_process@, set![tn]),
//@|        processed@ == processed0.insert(tn), !processed0.contains(tn), uni.contains(tn),
//@|        from_initial(s, initial, tn),
//@|        s.contains_key(tn), s[tn] == *struct_info,
//@|        it2.snapshot@.remaining() == struct_info.fields@.map_values(|f: FieldInfo| &f),
//@|        forall|m: String| #![trigger s.contains_key(m)] fields_mention(struct_info.fields@, it2.index@, m) && s.contains_key(m)
//@|            ==> all_types@.contains(m),
//@ BEFORE `let mut nested_types = std::collections::HashSet::new();`
//@|    let ghost k2 = it2.index@;
//@|    proof {
//@|        assert(0 <= k2 < struct_info.fields@.len());
//@|        assert(*field == struct_info.fields@[k2]);
//@|    }
//@ LOOP 3 ITER=it3
//@|    invariant
//@|        s == all_structs@, initial == initial_types@, init == old(all_types)@, uni == s.dom().union(initial),
//@|        wl_inv(s, initial, init, all_types@, processed@, to_process@, set![tn]),
//@|        processed@ == processed0.insert(tn), !processed0.contains(tn), uni.contains(tn),
//@|        from_initial(s, initial, tn),
//@|        s.contains_key(tn), s[tn] == *struct_info,
//@|        0 <= k2 < struct_info.fields@.len(), *field == struct_info.fields@[k2],
//@|        forall|m: String| #![trigger s.contains_key(m)] fields_mention(struct_info.fields@, k2, m) && s.contains_key(m)
//@|            ==> all_types@.contains(m),
//@|        forall|m: String| #![trigger has_custom(field.type_structure, m)]
//@|            has_custom(field.type_structure, m) <==> it3.snapshot@.remaining().contains(m),
//@|        0 <= it3.index@ <= it3.snapshot@.remaining().len(),
//@|        forall|j: int| 0 <= j < it3.index@ && s.contains_key(#[trigger] it3.snapshot@.remaining()[j])
//@|            ==> all_types@.contains(it3.snapshot@.remaining()[j]),
//@ BEFORE `all_types.insert(nested_type.clone());`
//@|    let ghost all0 = all_types@;
//@|    let ghost todo1 = to_process@;
//@|    proof {
//@|        assert(nested_type == it3.snapshot@.remaining()[it3.index@]);
//@|        assert(it3.snapshot@.remaining().contains(nested_type));
//@|        assert(has_custom(field.type_structure, nested_type));
//@|        assert(fields_mention(struct_info.fields@, struct_info.fields@.len() as int, nested_type));
//@|        assert(sedge(s, tn, nested_type));
//@|        let r = choose|r: String| initial.contains(r) && sreaches(s, r, tn);
//@|        lemma_sreaches_step(s, r, tn, nested_type);
//@|        assert(from_initial(s, initial, nested_type));
//@|    }
//@ AFTER `to_process.push(nested_type);`
//@|    proof {
//@|        assert(all_types@ == all0.insert(nested_type));
//@|        assert(to_process@ == todo1.push(nested_type));
//@|        lemma_todo_push(todo1, nested_type);
//@|        assert(wl_inv(s, initial, init, all_types@, processed@, to_process@, set![tn]));
//@|    }
//@ AFTER-LOOP 3
//@|    proof {
//@|        assert forall|m: String| #![trigger s.contains_key(m)] fields_mention(struct_info.fields@, k2 + 1, m) && s.contains_key(m)
//@|            implies all_types@.contains(m) by {
//@|            let i = choose|i: int| 0 <= i < k2 + 1 && i < struct_info.fields@.len() && has_custom((#[trigger] struct_info.fields@[i]).type_structure, m);
//@|            if i < k2 {
//@|                assert(fields_mention(struct_info.fields@, k2, m));
//@|            } else {
//@|                assert(has_custom(field.type_structure, m));
//@|            }
//@|        }
//@|    }
//@ AFTER-LOOP 2
//@|    proof {
//@|        assert(wl_inv(s, initial, init, all_types@, processed@, to_process@, Set::<String>::empty()));
//@|    }
//@ AFTER-LOOP 1
//@|    proof {
//@|        assert(to_process@.len() == 0);
//@|        assert forall|m: String| all_types@.contains(m) <==> init.contains(m) || from_initial(s, initial, m) by {
//@|            if from_initial(s, initial, m) {
//@|                let n = choose|n: String| initial.contains(n) && sreaches(s, n, m);
//@|                let p = choose|p: Seq<String>| is_spath(s, p) && p[0] == n && p.last() == m;
//@|                lemma_wl_closed(s, initial, init, all_types@, processed@, to_process@, p, p.len() - 1);
//@|            }
//@|        }
//@|    }
//@ END

}

pub assume_specification[ <StructInfo as Clone>::clone ](s: &StructInfo) -> (r: StructInfo)
    ensures r == *s;

pub open spec fn events_mention(es: Seq<EventInfo>, k: int, n: String) -> bool {
    exists|i: int| 0 <= i < k && i < es.len() && has_custom((#[trigger] es[i]).payload_type_structure, n)
}

/// C07 for the event half: what the merge must add to the declared set
pub open spec fn reachable_from_events(es: Seq<EventInfo>, s: Structs, k: String) -> bool {
    exists|n: String| events_mention(es, es.len() as int, n) && sreaches(s, n, k)
}

// B1: the event-payload merge loop of generate_models (ts and zod generators), lifted verbatim.
//@ EXTRACT-BLOCK file=src/generators/ts/generator.rs in="impl BaseBindingsGenerator for TypeScriptBindingsGenerator" fn=generate_models anchor="for event in events {" props=C07 as=ts_generate_models_event_merge optional=1
//@ SIGNATURE
//@|pub fn ts_generate_models_event_merge(events: &[EventInfo], discovered_structs: &HashMap<String, StructInfo>, used_structs: &mut HashMap<String, StructInfo>)
//@|    ensures
//@|        forall|k: String| #![trigger final(used_structs)@.contains_key(k)] final(used_structs)@.contains_key(k) <==> old(used_structs)@.contains_key(k)
//@|            || (discovered_structs@.contains_key(k) && reachable_from_events(events@, discovered_structs@, k)),
//@ WRAP `for type_name in <<event_types>> {` WITH owned_set_iteration_order
//@ LOOP 1 ITER=it1
//@|    invariant
//@|        it1.snapshot@.remaining() == events@.map_values(|e: EventInfo| &e),
//@|        forall|k: String| #![trigger used_structs@.contains_key(k)] used_structs@.contains_key(k) <==> old(used_structs)@.contains_key(k)
//@|            || (discovered_structs@.contains_key(k) && events_mention(events@, it1.index@, k)),
//@ BEFORE `let mut event_types = std::collections::HashSet::new();`
//@|    let ghost k1 = it1.index@;
//@|    proof { assert(0 <= k1 < events@.len()); assert(*event == events@[k1]); }
//@ LOOP 2 ITER=it2
//@|    invariant
//@|        0 <= k1 < events@.len(), *event == events@[k1],
//@|        forall|m: String| #![trigger has_custom(event.payload_type_structure, m)]
//@|            has_custom(event.payload_type_structure, m) <==> it2.snapshot@.remaining().contains(m),
//@|        0 <= it2.index@ <= it2.snapshot@.remaining().len(),
//@|        forall|k: String| #![trigger used_structs@.contains_key(k)] used_structs@.contains_key(k) <==> old(used_structs)@.contains_key(k)
//@|            || (discovered_structs@.contains_key(k) && events_mention(events@, k1, k))
//@|            || (discovered_structs@.contains_key(k) && exists|j: int| 0 <= j < it2.index@ && it2.snapshot@.remaining()[j] == k),
//@ END

//@ EXTRACT-BLOCK file=src/generators/zod/generator.rs in="impl BaseBindingsGenerator for ZodBindingsGenerator" fn=generate_models anchor="for event in events {" props=C07 as=zod_generate_models_event_merge optional=1
//@ SIGNATURE
//@|pub fn zod_generate_models_event_merge(events: &[EventInfo], discovered_structs: &HashMap<String, StructInfo>, used_structs: &mut HashMap<String, StructInfo>)
//@|    ensures
//@|        forall|k: String| #![trigger final(used_structs)@.contains_key(k)] final(used_structs)@.contains_key(k) <==> old(used_structs)@.contains_key(k)
//@|            || (discovered_structs@.contains_key(k) && reachable_from_events(events@, discovered_structs@, k)),
//@ WRAP `for type_name in <<event_types>> {` WITH owned_set_iteration_order
//@ LOOP 1 ITER=it1
//@|    invariant
//@|        it1.snapshot@.remaining() == events@.map_values(|e: EventInfo| &e),
//@|        forall|k: String| #![trigger used_structs@.contains_key(k)] used_structs@.contains_key(k) <==> old(used_structs)@.contains_key(k)
//@|            || (discovered_structs@.contains_key(k) && events_mention(events@, it1.index@, k)),
//@ BEFORE `let mut event_types = std::collections::HashSet::new();`
//@|    let ghost k1 = it1.index@;
//@|    proof { assert(0 <= k1 < events@.len()); assert(*event == events@[k1]); }
//@ LOOP 2 ITER=it2
//@|    invariant
//@|        0 <= k1 < events@.len(), *event == events@[k1],
//@|        forall|m: String| #![trigger has_custom(event.payload_type_structure, m)]
//@|            has_custom(event.payload_type_structure, m) <==> it2.snapshot@.remaining().contains(m),
//@|        0 <= it2.index@ <= it2.snapshot@.remaining().len(),
//@|        forall|k: String| #![trigger used_structs@.contains_key(k)] used_structs@.contains_key(k) <==> old(used_structs)@.contains_key(k)
//@|            || (discovered_structs@.contains_key(k) && events_mention(events@, k1, k))
//@|            || (discovered_structs@.contains_key(k) && exists|j: int| 0 <= j < it2.index@ && it2.snapshot@.remaining()[j] == k),
//@ END

pub open spec fn from_initial(s: Structs, initial: Set<String>, m: String) -> bool {
    exists|n: String| initial.contains(n) && sreaches(s, n, m)
}

pub open spec fn expandable(initial: Set<String>, init: Set<String>, n: String) -> bool {
    initial.contains(n) || !init.contains(n)
}

pub proof fn lemma_todo_pop(todo: Seq<String>)
    requires todo.len() > 0,
    ensures forall|n: String| #[trigger] todo.contains(n) ==> todo.drop_last().contains(n) || n == todo.last(),
{
    assert forall|n: String| #[trigger] todo.contains(n) implies todo.drop_last().contains(n) || n == todo.last() by {
        let i = choose|i: int| 0 <= i < todo.len() && todo[i] == n;
        if i < todo.len() - 1 { assert(todo.drop_last()[i] == n); }
    }
}

pub proof fn lemma_todo_push(todo: Seq<String>, x: String)
    ensures
        todo.push(x).contains(x),
        forall|n: String| #[trigger] todo.contains(n) ==> todo.push(x).contains(n),
{
    assert(todo.push(x)[todo.len() as int] == x);
    assert forall|n: String| #[trigger] todo.contains(n) implies todo.push(x).contains(n) by {
        let i = choose|i: int| 0 <= i < todo.len() && todo[i] == n;
        assert(todo.push(x)[i] == n);
    }
}

/// at loop exit (worklist empty) the collected set is closed under sedge along every path from `initial`
pub proof fn lemma_wl_closed(s: Structs, initial: Set<String>, init: Set<String>, all: Set<String>,
                             processed: Set<String>, todo: Seq<String>, p: Seq<String>, k: int)
    requires
        wl_inv(s, initial, init, all, processed, todo, Set::<String>::empty()), todo.len() == 0,
        initial == init,
        is_spath(s, p), initial.contains(p[0]), 0 <= k < p.len(),
    ensures all.contains(p[k]), processed.contains(p[k]),
    decreases k,
{
    if k > 0 {
        lemma_wl_closed(s, initial, init, all, processed, todo, p, k - 1);
        assert(sedge(s, p[k - 1], p[k - 1 + 1]));
        assert(all.contains(p[k]));
    }
    assert(!todo.contains(p[k]));
}

/// worklist invariant of discover_nested_dependencies; `cur` = nodes whose expansion is in progress
pub open spec fn wl_inv(s: Structs, initial: Set<String>, init: Set<String>, all: Set<String>,
                        processed: Set<String>, todo: Seq<String>, cur: Set<String>) -> bool {
    let uni = s.dom().union(initial);
    &&& init.subset_of(all)
    &&& processed.subset_of(all)
    &&& forall|i: int| 0 <= i < todo.len() ==> all.contains(#[trigger] todo[i])
    &&& forall|m: String| #[trigger] all.contains(m) ==> init.contains(m) || from_initial(s, initial, m)
    &&& forall|n: String| #[trigger] all.contains(n) ==> processed.contains(n) || todo.contains(n)
    &&& forall|n: String, m: String| processed.contains(n) && !cur.contains(n) && #[trigger] sedge(s, n, m) ==> all.contains(m)
    &&& forall|n: String| #[trigger] processed.contains(n) ==> from_initial(s, initial, n) && uni.contains(n)
    &&& forall|i: int| 0 <= i < todo.len() ==> from_initial(s, initial, #[trigger] todo[i]) && uni.contains(todo[i])
}

// ------------------------------------------------------------------ the property
//@ PROPS C07
/// C07: "declares, exactly once each, precisely those project-defined types that are reachable";
/// unreachable types are not emitted
pub proof fn lemma_C07_exactly_the_reachable_project_types(cs: Seq<CommandInfo>, es: Seq<EventInfo>, s: Structs, r: Structs, k: String)
    requires declared_exactly(cs, es, s, r),
    ensures
        r.contains_key(k) ==> s.contains_key(k),
        r.contains_key(k) ==> r[k] == s[k],
        s.contains_key(k) && reachable_from_surface(cs, es, s, k) ==> r.contains_key(k),
        !reachable_from_surface(cs, es, s, k) ==> !r.contains_key(k),
{
}

//@ PROPS C07
/// C07: a type mentioned by a field of a declared type is declared too (closure), any chain length
pub proof fn lemma_C07_closed_under_field_references(cs: Seq<CommandInfo>, es: Seq<EventInfo>, s: Structs, r: Structs, k: String, m: String)
    requires declared_exactly(cs, es, s, r), r.contains_key(k), sedge(s, k, m),
    ensures r.contains_key(m),
{
    let n = choose|n: String| on_surface(cs, es, n) && sreaches(s, n, k);
    lemma_sreaches_step(s, n, k, m);
}

//@ PROPS C07
/// C07: "reachability does not depend on how deeply the reference is nested" — every constructor
/// context passes its arguments' custom names through unchanged
pub proof fn lemma_C07_nesting_is_transparent(t: TypeStructure, u: TypeStructure, ts: Vec<TypeStructure>, i: int, n: String)
    requires 0 <= i < ts@.len(),
    ensures
        has_custom(TypeStructure::Array(Box::new(t)), n) == has_custom(t, n),
        has_custom(TypeStructure::Set(Box::new(t)), n) == has_custom(t, n),
        has_custom(TypeStructure::Optional(Box::new(t)), n) == has_custom(t, n),
        has_custom(TypeStructure::Result(Box::new(t)), n) == has_custom(t, n),
        has_custom(TypeStructure::Map { key: Box::new(t), value: Box::new(u) }, n) == (has_custom(t, n) || has_custom(u, n)),
        has_custom(ts@[i], n) ==> has_custom(TypeStructure::Tuple(ts), n),
        has_custom(TypeStructure::Custom(n), n),
{
    if has_custom(ts@[i], n) {
        let tup = TypeStructure::Tuple(ts);
        assert(tup->Tuple_0@[i] == ts@[i]);
    }
}

//@ AUTO-FREE-FNS
} // verus!
fn main() {}
