// Unit U-resolve: the recording step of CommandAnalyzer::resolve_types_lazily (block-extracted, B1):
// which dependency edges are stored for a resolved type and which names are queued for resolution.
// Properties: C09 (b: edge completeness w.r.t. the harvested names), C07 (discovery work-list)
#![feature(allocator_api)]
#![allow(unused_imports, unused_variables, dead_code, unused_mut)]
use vstd::prelude::*;
use vstd::std_specs::hash::*;
use vstd::std_specs::iter::IteratorSpec;
use std::collections::{HashMap, HashSet};
use std::alloc::Allocator;
use std::path::PathBuf;

//@ INCLUDE prelude/base.rs
use vpre::*;

verus! {

broadcast use {vstd::std_specs::hash::group_hash_axioms, vpre::group_string_keys};

#[verifier::external_type_specification]
#[verifier::external_body]
pub struct ExPathBuf(std::path::PathBuf);

//@ INCLUDE units/inc/models.rs
//@ EXTRACT-TYPE file=src/analysis/dependency_graph.rs struct=TypeDependencyGraph
//@ EXTRACT-TYPE file=src/analysis/mod.rs struct=CommandAnalyzer fields=dependency_graph,discovered_structs

pub assume_specification[ <StructInfo as Clone>::clone ](s: &StructInfo) -> (r: StructInfo)
    ensures r == *s;

/// the names extract_type_names harvests from a Rust type string (ASSUMED here; its relation to the
/// parsed type tree is checked by the bounded unit crate:parse)
pub uninterp spec fn names_of(rust_type: Seq<char>) -> Set<String>;

pub open spec fn fields_name(fs: Seq<FieldInfo>, k: int, n: String) -> bool {
    exists|i: int| 0 <= i < k && i < fs.len() && #[trigger] names_of(fs[i].rust_type@).contains(n)
}

impl TypeDependencyGraph {

//@ EXTRACT-FN file=src/analysis/dependency_graph.rs in="impl TypeDependencyGraph" fn=add_dependencies props=C09,C07
//@ CONTRACT
//@|    ensures
//@|        final(self).dependencies@ == old(self).dependencies@.insert(dependent, dependencies),
//@|        final(self).type_definitions == old(self).type_definitions,
//@|        final(self).resolved_types == old(self).resolved_types,
//@ END

//@ EXTRACT-FN file=src/analysis/dependency_graph.rs in="impl TypeDependencyGraph" fn=add_resolved_type props=C09,C07
//@ CONTRACT
//@|    ensures
//@|        final(self).resolved_types@ == old(self).resolved_types@.insert(type_name, struct_info),
//@|        final(self).type_definitions == old(self).type_definitions,
//@|        final(self).dependencies == old(self).dependencies,
//@ END

//@ EXTRACT-FN file=src/analysis/dependency_graph.rs in="impl TypeDependencyGraph" fn=has_type_definition props=C09,C07
//@ RETURNS r
//@ CONTRACT
//@|    ensures r == self.type_definitions@.contains_key(string_of(type_name@)),
//@ END

// the type index the discovery work-list consults (C07): filled by add_type_definition for every struct / enum item the
// project walk finds, read by get_type_definition_path when a queued name is resolved. Postconditions over the whole view: an
// insertion that also dropped or redirected another type's entry would fail the first clause.
//@ EXTRACT-FN file=src/analysis/dependency_graph.rs in="impl TypeDependencyGraph" fn=add_type_definition props=C07,C09
//@ CONTRACT
//@|    ensures
//@|        // the name is indexed afterwards, no other name appears or disappears
//@|        final(self).type_definitions@.dom() =~= old(self).type_definitions@.dom().insert(type_name),
//@|        // every other name keeps its file
//@|        forall|k: String| #![trigger final(self).type_definitions@[k]] k != type_name && old(self).type_definitions@.contains_key(k)
//@|            ==> final(self).type_definitions@[k] == old(self).type_definitions@[k],
//@|        // the name points at the file given now or at the one it had (which of two same-named definitions wins is not
//@|        // something C07 / C09 state, so it is not pinned)
//@|        final(self).type_definitions@[type_name] == file_path
//@|            || (old(self).type_definitions@.contains_key(type_name) && final(self).type_definitions@[type_name] == old(self).type_definitions@[type_name]),
//@|        final(self).dependencies == old(self).dependencies,
//@|        final(self).resolved_types == old(self).resolved_types,
//@ END

//@ EXTRACT-FN file=src/analysis/dependency_graph.rs in="impl TypeDependencyGraph" fn=get_type_definition_path props=C07,C09
//@ RETURNS r
//@ CONTRACT
//@|    ensures
//@|        r is Some <==> self.type_definitions@.contains_key(string_of(type_name@)),
//@|        r is Some ==> *r->0 == self.type_definitions@[string_of(type_name@)],
//@ END

//@ EXTRACT-FN file=src/analysis/dependency_graph.rs in="impl TypeDependencyGraph" fn=get_dependencies props=C09,C07
//@ RETURNS r
//@ CONTRACT
//@|    ensures
//@|        r is Some <==> self.dependencies@.contains_key(string_of(type_name@)),
//@|        r is Some ==> *r->0 == self.dependencies@[string_of(type_name@)],
//@ END

}

impl CommandAnalyzer {

#[verifier::external_body]
pub fn extract_type_names(&self, rust_type: &str, type_names: &mut HashSet<String>)
    ensures final(type_names)@ == old(type_names)@.union(names_of(rust_type@)),
{ unimplemented!() }

//@ EXTRACT-BLOCK file=src/analysis/mod.rs in="impl CommandAnalyzer" fn=resolve_types_lazily anchor="if let Some(struct_info) = self.extract_type_from_ast(" body=1 props=C09,C07 as=resolve_types_lazily_record_step
//@ SIGNATURE
//@|fn resolve_types_lazily_record_step(&mut self, type_name: String, struct_info: StructInfo,
//@|        resolved_types: &mut HashSet<String>, types_to_resolve: &mut Vec<String>)
//@|    ensures
//@|        // C09(b): the recorded dependency set of the type is exactly what was harvested from ALL its field types
//@|        final(self).dependency_graph.dependencies@.contains_key(type_name),
//@|        forall|n: String| #![trigger final(self).dependency_graph.dependencies@[type_name]@.contains(n)]
//@|            final(self).dependency_graph.dependencies@[type_name]@.contains(n) <==> fields_name(struct_info.fields@, struct_info.fields@.len() as int, n),
//@|        // C07: the type is now discovered, with its definition
//@|        final(self).discovered_structs@ == old(self).discovered_structs@.insert(type_name, struct_info),
//@|        final(resolved_types)@ == old(resolved_types)@.insert(type_name),
//@|        // C07: every harvested name that is defined in the project and not yet resolved is queued
//@|        forall|n: String| #![trigger old(self).dependency_graph.type_definitions@.contains_key(n)]
//@|            fields_name(struct_info.fields@, struct_info.fields@.len() as int, n)
//@|            && old(self).dependency_graph.type_definitions@.contains_key(n)
//@|            && !old(resolved_types)@.contains(n) && !old(self).discovered_structs@.contains_key(n)
//@|            ==> final(types_to_resolve)@.contains(n),
//@|        // nothing already queued is lost
//@|        forall|i: int| 0 <= i < old(types_to_resolve)@.len() ==> final(types_to_resolve)@.contains(#[trigger] old(types_to_resolve)@[i]),
//@ LOOP 1 ITER=it1
//@|    invariant
//@|        it1.snapshot@.remaining() == struct_info.fields@.map_values(|f: FieldInfo| &f),
//@|        forall|n: String| #![trigger type_dependencies@.contains(n)] type_dependencies@.contains(n) <==> fields_name(struct_info.fields@, it1.index@, n),
//@ BEFORE `self.extract_type_names(&field.rust_type, &mut type_dependencies)`
//@|    let ghost k1 = it1.index@;
//@|    let ghost deps0 = type_dependencies@;
//@|    proof { assert(0 <= k1 < struct_info.fields@.len()); assert(*field == struct_info.fields@[k1]); }
//@ AFTER `self.extract_type_names(&field.rust_type, &mut type_dependencies)`
//@|    proof {
//@|        assert forall|n: String| #![trigger type_dependencies@.contains(n)] type_dependencies@.contains(n) <==> fields_name(struct_info.fields@, k1 + 1, n) by {
//@|            if names_of(struct_info.fields@[k1].rust_type@).contains(n) { }
//@|            if fields_name(struct_info.fields@, k1 + 1, n) {
//@|                let i = choose|i: int| 0 <= i < k1 + 1 && i < struct_info.fields@.len() && #[trigger] names_of(struct_info.fields@[i].rust_type@).contains(n);
//@|                if i < k1 { assert(fields_name(struct_info.fields@, k1, n)); }
//@|            }
//@|            if deps0.contains(n) { assert(fields_name(struct_info.fields@, k1, n)); }
//@|        }
//@|    }
//@ LOOP 2 ITER=it2
//@|    invariant
//@|        self.dependency_graph == old(self).dependency_graph,
//@|        self.discovered_structs == old(self).discovered_structs,
//@|        *resolved_types == *old(resolved_types),
//@|        0 <= it2.index@ <= it2.snapshot@.remaining().len(),
//@|        forall|i: int| 0 <= i < it2.snapshot@.remaining().len() ==> type_dependencies@.contains(*#[trigger] it2.snapshot@.remaining()[i]),
//@|        forall|x: String| type_dependencies@.contains(x) ==> exists|i: int| 0 <= i < it2.snapshot@.remaining().len() && *#[trigger] it2.snapshot@.remaining()[i] == x,
//@|        forall|i: int| 0 <= i < old(types_to_resolve)@.len() ==> types_to_resolve@.contains(#[trigger] old(types_to_resolve)@[i]),
//@|        forall|x: String| #![trigger type_dependencies@.contains(x)] type_dependencies@.contains(x)
//@|            && self.dependency_graph.type_definitions@.contains_key(x)
//@|            && !resolved_types@.contains(x) && !self.discovered_structs@.contains_key(x)
//@|            ==> types_to_resolve@.contains(x)
//@|                || exists|i: int| it2.index@ <= i < it2.snapshot@.remaining().len() && *#[trigger] it2.snapshot@.remaining()[i] == x,
//@ AFTER-LOOP 2
//@|    let ghost queue_after = types_to_resolve@;
//@|    proof {
//@|        assert forall|n: String| fields_name(struct_info.fields@, struct_info.fields@.len() as int, n)
//@|            && old(self).dependency_graph.type_definitions@.contains_key(n)
//@|            && !old(resolved_types)@.contains(n) && !old(self).discovered_structs@.contains_key(n)
//@|            implies queue_after.contains(n) by {
//@|            assert(type_dependencies@.contains(n));
//@|        }
//@|    }
//@ BEFORE `types_to_resolve.push(dep_type.clone())`
//@|    let ghost q0 = types_to_resolve@;
//@|    proof { assert(string_of(dep_type@) == *dep_type); }
//@ AFTER `types_to_resolve.push(dep_type.clone())`
//@|    proof {
//@|        assert(types_to_resolve@ == q0.push(*dep_type));
//@|        assert(types_to_resolve@[q0.len() as int] == *dep_type);
//@|        assert forall|x: String| q0.contains(x) implies types_to_resolve@.contains(x) by {
//@|            let i = choose|i: int| 0 <= i < q0.len() && q0[i] == x;
//@|            assert(types_to_resolve@[i] == x);
//@|        }
//@|    }
//@ END

}

//@ PROPS C09
/// C09(b): a type the fields of S mention (by the harvest) is a recorded dependency of S — so the
/// topological sort (unit topo) sees the edge and emits it first
pub proof fn lemma_C09_every_harvested_name_is_an_edge(deps: Set<String>, fields: Seq<FieldInfo>, i: int, n: String)
    requires
        forall|m: String| #![trigger deps.contains(m)] deps.contains(m) <==> fields_name(fields, fields.len() as int, m),
        0 <= i < fields.len(), names_of(fields[i].rust_type@).contains(n),
    ensures deps.contains(n),
{
    assert(fields_name(fields, fields.len() as int, n));
}

//@ AUTO-FREE-FNS
} // verus!
fn main() {}
