// Unit U-resolver: TypeResolver pieces of the parse half of C05 that are within reach
#![feature(allocator_api)]
#![feature(pattern)]
#![allow(unused_imports, unused_variables, dead_code, unused_mut)]
use vstd::prelude::*;
use vstd::std_specs::hash::*;
use vstd::std_specs::iter::IteratorSpec;
use std::collections::{HashMap, HashSet};
use std::alloc::Allocator;

//@ INCLUDE prelude/base.rs
//@ INCLUDE prelude/fmt.rs
//@ INCLUDE prelude/strpat.rs
use vpre::*;
use vfmt::*;
use vstr::*;

verus! {

broadcast use {vstd::std_specs::hash::group_hash_axioms, vpre::group_string_keys, vfmt::group_disp, vstr::axiom_pat_char, vstr::axiom_pat_str, vstr::axiom_pat_char_not_str};

//@ EXTRACT-TYPE file=src/analysis/type_resolver.rs struct=TypeResolver

/// C05 / README table: the TypeScript primitive a Rust primitive type name denotes
pub open spec fn prim_table(s: Seq<char>) -> Option<Seq<char>> {
    if s == "String"@ || s == "str"@ || s == "&str"@ { Some("string"@) }
    else if s == "i8"@ || s == "i16"@ || s == "i32"@ || s == "i64"@ || s == "i128"@ || s == "isize"@
         || s == "u8"@ || s == "u16"@ || s == "u32"@ || s == "u64"@ || s == "u128"@ || s == "usize"@
         || s == "f32"@ || s == "f64"@ { Some("number"@) }
    else if s == "bool"@ { Some("boolean"@) }
    else if s == "()"@ { Some("void"@) }
    else { None }
}

impl TypeResolver {

//@ EXTRACT-FN file=src/analysis/type_resolver.rs in="impl TypeResolver" fn=map_to_target_primitive props=C05
//@ RETURNS r
//@ CONTRACT
//@|    ensures
//@|        prim_table(rust_type@) is Some ==> r is Some && r->0@ == prim_table(rust_type@)->0,
//@|        prim_table(rust_type@) is None ==> r is None,
//@ END

}

//@ PROPS C05
/// C05: "strings, all numeric widths, bool and unit per the documented table"
pub proof fn lemma_C05_primitive_table()
    ensures
        prim_table("String"@) == Some("string"@), prim_table("&str"@) == Some("string"@),
        prim_table("i8"@) == Some("number"@), prim_table("i128"@) == Some("number"@), prim_table("u8"@) == Some("number"@),
        prim_table("u128"@) == Some("number"@), prim_table("isize"@) == Some("number"@), prim_table("usize"@) == Some("number"@),
        prim_table("f32"@) == Some("number"@), prim_table("f64"@) == Some("number"@),
        prim_table("bool"@) == Some("boolean"@), prim_table("()"@) == Some("void"@),
{
    reveal_strlit("String"); reveal_strlit("str"); reveal_strlit("&str"); reveal_strlit("i8"); reveal_strlit("i16"); reveal_strlit("i32");
    reveal_strlit("i64"); reveal_strlit("i128"); reveal_strlit("isize"); reveal_strlit("u8"); reveal_strlit("u16"); reveal_strlit("u32");
    reveal_strlit("u64"); reveal_strlit("u128"); reveal_strlit("usize"); reveal_strlit("f32"); reveal_strlit("f64"); reveal_strlit("bool"); reveal_strlit("()");
}

//@ AUTO-FREE-FNS
} // verus!
fn main() {}
