// Unit U-naming: NamingContext default methods, devirtualised (D3) for FieldContext.
// Properties: C06 (precedence and which serde rule is applied to what), C04 (parameter keys)
#![feature(allocator_api)]
#![feature(slice_concat_trait)]
#![feature(pattern)]
#![allow(unused_imports, unused_variables, dead_code, unused_mut)]
use vstd::prelude::*;
use vstd::std_specs::hash::*;
use vstd::std_specs::iter::IteratorSpec;
use std::collections::{HashMap, HashSet};
use std::alloc::Allocator;
use std::path::PathBuf;

//@ INCLUDE prelude/base.rs
//@ INCLUDE prelude/fmt.rs
//@ INCLUDE prelude/strpat.rs
use vpre::*;
use vfmt::*;
use vstr::*;
pub mod models { pub use crate::*; }   // crate::models::X paths in extracted text resolve to the extracted types

verus! {

broadcast use {vstd::std_specs::hash::group_hash_axioms, vpre::group_string_keys, vfmt::group_disp, vstr::axiom_pat_char, vstr::axiom_pat_str, vstr::axiom_pat_char_not_str, vstr::axiom_pat_chars};

//@ FORMAT-MACRO

//@ INCLUDE units/inc/models.rs
//@ EXTRACT-TYPE file=src/interface/config.rs struct=GenerateConfig
//@ EXTRACT-TYPE file=src/generators/base/template_context.rs struct=FieldContext

// ---- serde's renaming rules (dependency serde-rename-rule, a verbatim extract of serde_derive's
// case.rs): ASSUMED, not verified.  rule_field / rule_variant stand for RenameRule::apply_to_field /
// apply_to_variant; only the two identity rows of apply_to_field are interpreted.
pub uninterp spec fn rule_field_other(c: RenameRule, s: Seq<char>) -> Seq<char>;
pub uninterp spec fn rule_variant(c: RenameRule, s: Seq<char>) -> Seq<char>;

// char::to_ascii_uppercase / to_ascii_lowercase: only the facts used below are stated
pub uninterp spec fn upper(c: char) -> char;
pub uninterp spec fn lower(c: char) -> char;
pub open spec fn ascii_alnum(c: char) -> bool {
    ('a' <= c && c <= 'z') || ('A' <= c && c <= 'Z') || ('0' <= c && c <= '9')
}
pub open spec fn ascii_digit(c: char) -> bool { '0' <= c && c <= '9' }
pub broadcast axiom fn axiom_ascii_case(c: char)
    ensures
        #![trigger upper(c)] #![trigger lower(c)]
        ascii_alnum(c) ==> ascii_alnum(upper(c)) && ascii_alnum(lower(c)),
        ascii_digit(c) ==> upper(c) == c && lower(c) == c,
        ascii_alnum(c) && !ascii_digit(c) ==> !ascii_digit(upper(c)) && !ascii_digit(lower(c)),
        !ascii_alnum(c) ==> upper(c) == c && lower(c) == c;

/// apply_to_field(PascalCase): drop underscores, upper-case the first character and every character after one
pub open spec fn pascal_from(s: Seq<char>, cap: bool) -> Seq<char>
    decreases s.len()
{
    if s.len() == 0 { Seq::<char>::empty() }
    else if s[0] == '_' { pascal_from(s.skip(1), true) }
    else if cap { seq![upper(s[0])] + pascal_from(s.skip(1), false) }
    else { seq![s[0]] + pascal_from(s.skip(1), false) }
}
pub open spec fn pascal_spec(s: Seq<char>) -> Seq<char> { pascal_from(s, true) }

/// apply_to_field(CamelCase) of the dependency = `pascal[..1].to_ascii_lowercase() + &pascal[1..]` — PANICS
/// unless the PascalCase form is non-empty and starts with a one-byte (ASCII) character
pub open spec fn camel_safe(s: Seq<char>) -> bool {
    pascal_spec(s).len() > 0 && (pascal_spec(s)[0] as u32) < 128
}
/// char::to_lowercase (Unicode, may yield several characters); ASCII: the one lower-case letter
pub uninterp spec fn lowercase_seq(c: char) -> Seq<char>;
pub broadcast axiom fn axiom_lowercase_ascii(c: char)
    ensures (c as u32) < 128 ==> #[trigger] lowercase_seq(c) == seq![lower(c)];

pub open spec fn lower_first_spec(p: Seq<char>) -> Seq<char> {
    if p.len() == 0 { p } else { lowercase_seq(p[0]) + p.skip(1) }
}
pub open spec fn camel_spec(s: Seq<char>) -> Seq<char> { lower_first_spec(pascal_spec(s)) }

pub open spec fn rule_field(c: RenameRule, s: Seq<char>) -> Seq<char> {
    if c is LowerCase || c is SnakeCase { s }
    else if c is PascalCase { pascal_spec(s) }
    else if c is CamelCase { camel_spec(s) }
    else { rule_field_other(c, s) }
}

/// RENAME_RULES table of the dependency
pub open spec fn parse_rule(s: Seq<char>) -> Option<RenameRule> {
    if s == "lowercase"@ { Some(RenameRule::LowerCase) }
    else if s == "UPPERCASE"@ { Some(RenameRule::UpperCase) }
    else if s == "PascalCase"@ { Some(RenameRule::PascalCase) }
    else if s == "camelCase"@ { Some(RenameRule::CamelCase) }
    else if s == "snake_case"@ { Some(RenameRule::SnakeCase) }
    else if s == "SCREAMING_SNAKE_CASE"@ { Some(RenameRule::ScreamingSnakeCase) }
    else if s == "kebab-case"@ { Some(RenameRule::KebabCase) }
    else if s == "SCREAMING-KEBAB-CASE"@ { Some(RenameRule::ScreamingKebabCase) }
    else { None }
}

pub open spec fn default_rule(s: Seq<char>) -> RenameRule {
    match parse_rule(s) { Some(r) => r, None => RenameRule::CamelCase }
}

pub struct ParseError { pub unknown: String }

// derived PartialEq of the field-less enum RenameRule is equality of variants
pub assume_specification[ <RenameRule as PartialEq>::eq ](a: &RenameRule, b: &RenameRule) -> (r: bool)
    ensures r == (*a == *b);

// char::to_ascii_uppercase / to_ascii_lowercase (std): the spec functions `upper` / `lower`
pub assume_specification[ char::to_ascii_uppercase ](c: &char) -> (r: char)
    ensures r == upper(*c);

// ---- the PascalCase arm of the dependency's apply_to_field, VERIFIED against pascal_spec (the stub
// below relies on it); extracted from the registry copy of serde-rename-rule pinned by Cargo.lock
//@ EXTRACT-BLOCK crate=serde-rename-rule file=src/lib.rs in="impl RenameRule" fn=apply_to_field anchor="Self::PascalCase => {" body=1 props=C12,C01,C04,C06 as=apply_to_field_pascal_arm
//@ SIGNATURE
//@|fn apply_to_field_pascal_arm(field: &str) -> (r: String)
//@|    ensures r@ == pascal_spec(field@),
//@ LOOP 1 ITER=it
//@|    invariant
//@|        it.snapshot@.remaining() == field@,
//@|        0 <= it.index@ <= field@.len(),
//@|        pascal@ + pascal_from(field@.skip(it.index@), capitalize) == pascal_spec(field@),
//@ AFTER `let mut capitalize = true;`
//@|    proof {
//@|        assert(field@.skip(0) =~= field@);
//@|        assert(pascal@ + pascal_from(field@.skip(0), true) =~= pascal_spec(field@));
//@|    }
//@ BEFORE `if ch == '_' {`
//@|    let ghost k = it.index@;
//@|    let ghost before = pascal@;
//@|    let ghost cap0 = capitalize;
//@|    proof {
//@|        assert(0 <= k < field@.len());
//@|        assert(ch == field@[k]);
//@|        assert(field@.skip(k)[0] == ch);
//@|        assert(field@.skip(k).skip(1) =~= field@.skip(k + 1));
//@|    }
//@ LOOP-END 1
//@|    proof {
//@|        let rest = pascal_from(field@.skip(k + 1), capitalize);
//@|        if ch == '_' {
//@|            assert(pascal@ == before);
//@|        } else if cap0 {
//@|            assert(pascal@ == before.push(upper(ch)));
//@|            assert(before + (seq![upper(ch)] + rest) =~= before.push(upper(ch)) + rest);
//@|        } else {
//@|            assert(pascal@ == before.push(ch));
//@|            assert(before + (seq![ch] + rest) =~= before.push(ch) + rest);
//@|        }
//@|    }
//@ AFTER-LOOP 1
//@|    proof {
//@|        assert(field@.skip(field@.len() as int) =~= Seq::<char>::empty());
//@|        assert(pascal@ + Seq::<char>::empty() =~= pascal@);
//@|    }
//@ END

impl RenameRule {
    #[verifier::external_body]
    pub fn apply_to_field(&self, field: &str) -> (r: String)
        requires *self is CamelCase ==> camel_safe(field@),
        ensures r@ == rule_field(*self, field@),
    { unimplemented!() }

    #[verifier::external_body]
    pub fn apply_to_variant(&self, variant: &str) -> (r: String)
        // the dependency's CamelCase arm is `variant[..1].to_ascii_lowercase() + &variant[1..]`: it PANICS
        // unless the name is non-empty and starts with a one-byte (ASCII) character
        requires *self is CamelCase ==> variant@.len() > 0 && (variant@[0] as u32) < 128,
        ensures r@ == rule_variant(*self, variant@),
    { unimplemented!() }

    #[verifier::external_body]
    pub fn from_rename_all_str(s: &str) -> (r: Result<RenameRule, ParseError>)
        ensures
            parse_rule(s@) is Some ==> r == Ok::<RenameRule, ParseError>(parse_rule(s@)->0),
            parse_rule(s@) is None ==> r is Err,
    { unimplemented!() }
}

//@ EXTRACT-RAW file=src/generators/base/template_context.rs item="const JS_RESERVED_WORDS" static_lifetime=1
//@ EXTRACT-RAW file=src/generators/base/template_context.rs item="const ASCII_DIGITS"

impl FieldContext {

//@ EXTRACT-FN file=src/generators/base/template_context.rs in="impl NamingContext for FieldContext" fn=config props=C06,C04
//@ RETURNS r
//@ CONTRACT
//@|    ensures *r == self.config,
//@ END

//@ EXTRACT-FN file=src/generators/base/template_context.rs in="trait NamingContext" fn=apply_naming_convention props=C06,C04,C15
//@ RETURNS r
//@ CONTRACT
//@|    ensures r@ == rule_field(convention, field_name@),
//@ OUTLINE `match pascal.chars().next() { Some(first) => first.to_lowercase().chain(pascal.chars().skip(1)).collect(), None => pascal, }` AS Self::lower_first(pascal)
//@|pub fn lower_first(pascal: String) -> (r: String)
//@|    ensures r@ == lower_first_spec(pascal@),
//@ END

//@ EXTRACT-FN file=src/generators/base/template_context.rs in="trait NamingContext" fn=compute_field_name props=C06,C15
//@ RETURNS r
//@ CONTRACT
//@|    ensures
//@|        field_rename is Some ==> r@ == field_rename->0@,
//@|        field_rename is None && struct_rename_all is Some ==> r@ == rule_field(struct_rename_all->0, field_name@),
//@|        field_rename is None && struct_rename_all is None ==> r@ == rule_field(default_rule(self.config.default_field_case@), field_name@),
//@ END

//@ EXTRACT-FN file=src/generators/base/template_context.rs in="trait NamingContext" fn=compute_variant_name props=C06,C15
//@ RETURNS r
//@ CONTRACT
//@|    ensures
//@|        variant_rename is Some ==> r@ == variant_rename->0@,
//@|        variant_rename is None && enum_rename_all is Some && !(enum_rename_all->0 is CamelCase) ==> r@ == rule_variant(enum_rename_all->0, variant_name@),
//@|        variant_rename is None && enum_rename_all is Some && enum_rename_all->0 is CamelCase ==> r@ == lower_first_spec(variant_name@),
//@|        variant_rename is None && enum_rename_all is None ==> r@ == rule_field(default_rule(self.config.default_field_case@), variant_name@),
//@ OUTLINE `match variant_name.chars().next() { Some(first) => first .to_lowercase() .chain(variant_name.chars().skip(1)) .collect(), None => String::new(), }` AS Self::lower_first_str(variant_name)
//@|pub fn lower_first_str(variant_name: &str) -> (r: String)
//@|    ensures r@ == lower_first_spec(variant_name@),
//@ END

//@ EXTRACT-FN file=src/generators/base/template_context.rs in="trait NamingContext" fn=compute_parameter_name props=C04,C15
//@ RETURNS r
//@ CONTRACT
//@|    ensures
//@|        param_rename is Some ==> r@ == param_rename->0@,
//@|        param_rename is None && command_rename_all is Some ==> r@ == rule_field(command_rename_all->0, param_name@),
//@|        param_rename is None && command_rename_all is None ==> r@ == rule_field(default_rule(self.config.default_parameter_case@), param_name@),
//@ END

//@ EXTRACT-FN file=src/generators/base/template_context.rs in="trait NamingContext" fn=event_name_to_function props=C12,C01,C15
//@ RETURNS r
//@ CONTRACT
//@|    ensures r@ == "on"@ + pascal_spec(event_norm(event_name@)),
//@ FIRST
//@|    proof { lemma_event_norm_any_order(event_name@); }
//@ END

//@ EXTRACT-FN file=src/generators/base/template_context.rs in="trait NamingContext" fn=compute_function_name props=C01,C15
//@ RETURNS r
//@ CONTRACT
//@|    requires rust_ident(name@),
//@|    ensures
//@|        // C01: the wrapper is the camelCase name; `_` is appended when that is a reserved word and put in front when
//@|        // it is empty or starts with a digit
//@|        r@ == wrapper_name(camel_spec(name@)),
//@|        !js_reserved(r@),
//@|        // ... and that is a legal identifier whenever the camelCase form consists of identifier characters
//@|        all_ident_chars(camel_spec(name@)) ==> ts_ident(r@),
//@ BEFORE `if JS_RESERVED_WORDS.contains(&function_name.as_str())`
//@|    proof {
//@|        lemma_reserved_plus_underscore(function_name@);
//@|        lemma_underscore_first_not_reserved(function_name@);
//@|        // the suffix may be appended with format!, push_str or push: all three are this sequence
//@|        reveal_strlit("_");
//@|        assert(function_name@.push('_') =~= function_name@ + "_"@);
//@|        if all_ident_chars(function_name@) { lemma_wrapper_name_is_identifier(function_name@); }
//@|        assert(ASCII_DIGITS@ =~= seq!['0', '1', '2', '3', '4', '5', '6', '7', '8', '9']);
//@|        if function_name@.len() > 0 { assert(ASCII_DIGITS@.contains(function_name@[0]) <==> ascii_digit(function_name@[0])) by {
//@|            let c = function_name@[0];
//@|            if ascii_digit(c) { let k = (c as u32 - '0' as u32) as int; assert(0 <= k < 10); assert(ASCII_DIGITS@[k] == c); }
//@|        } }
//@|    }
//@ END

//@ EXTRACT-FN file=src/generators/base/template_context.rs in="trait NamingContext" fn=compute_type_name props=C01,C15
//@ RETURNS r
//@ CONTRACT
//@|    ensures
//@|        r@ == (if needs_underscore(pascal_spec(name@)) { "_"@ + pascal_spec(name@) } else { pascal_spec(name@) }),
//@|        all_ident_chars(pascal_spec(name@)) ==> ts_ident(r@),
//@ BEFORE `if type_name.is_empty() || type_name.starts_with(ASCII_DIGITS)`
//@|    proof {
//@|        reveal_strlit("_");
//@|        assert(ASCII_DIGITS@ =~= seq!['0', '1', '2', '3', '4', '5', '6', '7', '8', '9']);
//@|        if type_name@.len() > 0 { assert(ASCII_DIGITS@.contains(type_name@[0]) <==> ascii_digit(type_name@[0])) by {
//@|            let c = type_name@[0];
//@|            if ascii_digit(c) { let k = (c as u32 - '0' as u32) as int; assert(0 <= k < 10); assert(ASCII_DIGITS@[k] == c); }
//@|        } }
//@|        let t = "_"@ + type_name@;
//@|        assert(t[0] == '_');
//@|        assert forall|i: int| 0 <= i < t.len() && all_ident_chars(type_name@) implies ident_char(#[trigger] t[i]) by { if i >= 1 { assert(t[i] == type_name@[i - 1]); } }
//@|    }
//@ END

}

// ------------------------------------------------------------------ identifiers (C01, C12)
pub open spec fn ident_char(c: char) -> bool { ascii_alnum(c) || c == '_' || c == '$' || (c as u32) >= 128 }

/// a TypeScript identifier (ASCII rules; non-ASCII characters are taken to be identifier characters)
pub open spec fn ts_ident(s: Seq<char>) -> bool {
    s.len() > 0 && !ascii_digit(s[0]) && forall|i: int| 0 <= i < s.len() ==> ident_char(#[trigger] s[i])
}

/// a Rust identifier as the tool receives it from syn (raw prefix already stripped)
pub open spec fn rust_ident(s: Seq<char>) -> bool {
    s.len() > 0 && !ascii_digit(s[0]) && forall|i: int| 0 <= i < s.len() ==> (ascii_alnum(#[trigger] s[i]) || s[i] == '_' || (s[i] as u32) >= 128)
}

/// words that cannot name a function in an ES module: the reserved words of ECMAScript (strict mode, module goal) with the
/// literals, plus `arguments` and `eval` — taken from the language, not from the code under check; several are Rust keywords
/// too, which the camelCase conversion can still produce (`enum_` -> `enum`, `r#try` -> `try`)
pub open spec fn js_reserved(s: Seq<char>) -> bool {
    s == "break"@ || s == "case"@ || s == "catch"@ || s == "class"@ || s == "const"@ || s == "continue"@
    || s == "debugger"@ || s == "default"@ || s == "delete"@ || s == "do"@ || s == "else"@ || s == "enum"@
    || s == "export"@ || s == "extends"@ || s == "false"@ || s == "finally"@ || s == "for"@ || s == "function"@
    || s == "if"@ || s == "import"@ || s == "in"@ || s == "instanceof"@ || s == "new"@ || s == "null"@
    || s == "return"@ || s == "super"@ || s == "switch"@ || s == "this"@ || s == "throw"@ || s == "true"@
    || s == "try"@ || s == "typeof"@ || s == "var"@ || s == "void"@ || s == "while"@ || s == "with"@
    || s == "implements"@ || s == "interface"@ || s == "let"@ || s == "package"@ || s == "private"@ || s == "protected"@
    || s == "public"@ || s == "static"@ || s == "yield"@ || s == "await"@ || s == "arguments"@ || s == "eval"@
}

pub open spec fn all_ident_chars(s: Seq<char>) -> bool { forall|i: int| 0 <= i < s.len() ==> ident_char(#[trigger] s[i]) }
/// empty or starting with a digit: not an identifier as it stands
pub open spec fn needs_underscore(s: Seq<char>) -> bool { s.len() == 0 || ascii_digit(s[0]) }
/// C01: the name of a command wrapper, given the camelCase form of the Rust name
pub open spec fn wrapper_name(camel: Seq<char>) -> Seq<char> {
    if js_reserved(camel) { camel + "_"@ } else if needs_underscore(camel) { "_"@ + camel } else { camel }
}

/// a name starting with `_` is not a reserved word
pub proof fn lemma_underscore_first_not_reserved(s: Seq<char>)
    ensures !js_reserved("_"@ + s),
{
    reveal_strlit("_");
    let t = "_"@ + s;
    assert(t[0] == '_');
    reveal_strlit("break"); reveal_strlit("case"); reveal_strlit("catch"); reveal_strlit("class"); reveal_strlit("const"); reveal_strlit("continue"); reveal_strlit("debugger"); reveal_strlit("default"); reveal_strlit("delete"); reveal_strlit("do"); reveal_strlit("else"); reveal_strlit("enum"); reveal_strlit("export"); reveal_strlit("extends"); reveal_strlit("false"); reveal_strlit("finally"); reveal_strlit("for"); reveal_strlit("function"); reveal_strlit("if"); reveal_strlit("import"); reveal_strlit("in"); reveal_strlit("instanceof"); reveal_strlit("new"); reveal_strlit("null"); reveal_strlit("return"); reveal_strlit("super"); reveal_strlit("switch"); reveal_strlit("this"); reveal_strlit("throw"); reveal_strlit("true"); reveal_strlit("try"); reveal_strlit("typeof"); reveal_strlit("var"); reveal_strlit("void"); reveal_strlit("while"); reveal_strlit("with"); reveal_strlit("implements"); reveal_strlit("interface"); reveal_strlit("let"); reveal_strlit("package"); reveal_strlit("private"); reveal_strlit("protected"); reveal_strlit("public"); reveal_strlit("static"); reveal_strlit("yield"); reveal_strlit("await"); reveal_strlit("arguments"); reveal_strlit("eval");
}

/// C01: the wrapper name is an identifier whenever the camelCase form consists of identifier characters
pub proof fn lemma_wrapper_name_is_identifier(camel: Seq<char>)
    requires all_ident_chars(camel),
    ensures ts_ident(wrapper_name(camel)),
{
    reveal_strlit("_");
    if js_reserved(camel) {
        reveal_strlit("break"); reveal_strlit("case"); reveal_strlit("catch"); reveal_strlit("class"); reveal_strlit("const"); reveal_strlit("continue"); reveal_strlit("debugger"); reveal_strlit("default"); reveal_strlit("delete"); reveal_strlit("do"); reveal_strlit("else"); reveal_strlit("enum"); reveal_strlit("export"); reveal_strlit("extends"); reveal_strlit("false"); reveal_strlit("finally"); reveal_strlit("for"); reveal_strlit("function"); reveal_strlit("if"); reveal_strlit("import"); reveal_strlit("in"); reveal_strlit("instanceof"); reveal_strlit("new"); reveal_strlit("null"); reveal_strlit("return"); reveal_strlit("super"); reveal_strlit("switch"); reveal_strlit("this"); reveal_strlit("throw"); reveal_strlit("true"); reveal_strlit("try"); reveal_strlit("typeof"); reveal_strlit("var"); reveal_strlit("void"); reveal_strlit("while"); reveal_strlit("with"); reveal_strlit("implements"); reveal_strlit("interface"); reveal_strlit("let"); reveal_strlit("package"); reveal_strlit("private"); reveal_strlit("protected"); reveal_strlit("public"); reveal_strlit("static"); reveal_strlit("yield"); reveal_strlit("await"); reveal_strlit("arguments"); reveal_strlit("eval");
        let t = camel + "_"@;
        assert(camel.len() >= 2);
        assert(t[0] == camel[0]);
        assert(!ascii_digit(camel[0]));
        assert forall|i: int| 0 <= i < t.len() implies ident_char(#[trigger] t[i]) by { if i < camel.len() { assert(t[i] == camel[i]); } else { assert(t[i] == '_'); } }
    } else if needs_underscore(camel) {
        let t = "_"@ + camel;
        assert(t[0] == '_');
        assert forall|i: int| 0 <= i < t.len() implies ident_char(#[trigger] t[i]) by { if i >= 1 { assert(t[i] == camel[i - 1]); } }
    }
}

/// a reserved word followed by `_` is not a reserved word
pub proof fn lemma_reserved_plus_underscore(s: Seq<char>)
    ensures !js_reserved(s + "_"@),
{
    reveal_strlit("_");
    let t = s + "_"@;
    assert(t.last() == '_');
    reveal_strlit("break"); reveal_strlit("case"); reveal_strlit("catch"); reveal_strlit("class"); reveal_strlit("const"); reveal_strlit("continue"); reveal_strlit("debugger"); reveal_strlit("default"); reveal_strlit("delete"); reveal_strlit("do"); reveal_strlit("else"); reveal_strlit("enum"); reveal_strlit("export"); reveal_strlit("extends"); reveal_strlit("false"); reveal_strlit("finally"); reveal_strlit("for"); reveal_strlit("function"); reveal_strlit("if"); reveal_strlit("import"); reveal_strlit("in"); reveal_strlit("instanceof"); reveal_strlit("new"); reveal_strlit("null"); reveal_strlit("return"); reveal_strlit("super"); reveal_strlit("switch"); reveal_strlit("this"); reveal_strlit("throw"); reveal_strlit("true"); reveal_strlit("try"); reveal_strlit("typeof"); reveal_strlit("var"); reveal_strlit("void"); reveal_strlit("while"); reveal_strlit("with"); reveal_strlit("implements"); reveal_strlit("interface"); reveal_strlit("let"); reveal_strlit("package"); reveal_strlit("private"); reveal_strlit("protected"); reveal_strlit("public"); reveal_strlit("static"); reveal_strlit("yield"); reveal_strlit("await"); reveal_strlit("arguments"); reveal_strlit("eval");
}

/// characters Tauri allows in event names (ASCII part of `is_alphanumeric() || - / : _`)
pub open spec fn tauri_event_char(c: char) -> bool { ascii_alnum(c) || c == '-' || c == '/' || c == ':' || c == '_' }
pub open spec fn tauri_event_name(e: Seq<char>) -> bool {
    e.len() > 0 && forall|i: int| 0 <= i < e.len() ==> tauri_event_char(#[trigger] e[i])
}

/// normalisation applied by event_name_to_function before PascalCase
pub open spec fn event_norm(e: Seq<char>) -> Seq<char> {
    replace_char(replace_char(replace_char(e, '-', "_"@), ':', "_"@), '/', "_"@)
}

/// one character replaced by `_`, position by position
pub open spec fn sub_char(s: Seq<char>, c: char) -> Seq<char> { Seq::new(s.len(), |i: int| if s[i] == c { '_' } else { s[i] }) }

pub proof fn lemma_replace_char_is_sub(s: Seq<char>, c: char)
    ensures replace_char(s, c, "_"@) == sub_char(s, c),
    decreases s.len(),
{
    reveal_strlit("_");
    assert("_"@ =~= seq!['_']);
    if s.len() > 0 {
        lemma_replace_char_is_sub(s.drop_last(), c);
        assert(replace_char(s, c, "_"@) =~= sub_char(s, c));
    } else {
        assert(replace_char(s, c, "_"@) =~= sub_char(s, c));
    }
}

/// the three separators may be normalised in any order: the result is the same text
pub proof fn lemma_event_norm_any_order(e: Seq<char>)
    ensures
        replace_char(replace_char(replace_char(e, '-', "_"@), '/', "_"@), ':', "_"@) == event_norm(e),
        replace_char(replace_char(replace_char(e, ':', "_"@), '-', "_"@), '/', "_"@) == event_norm(e),
        replace_char(replace_char(replace_char(e, ':', "_"@), '/', "_"@), '-', "_"@) == event_norm(e),
        replace_char(replace_char(replace_char(e, '/', "_"@), '-', "_"@), ':', "_"@) == event_norm(e),
        replace_char(replace_char(replace_char(e, '/', "_"@), ':', "_"@), '-', "_"@) == event_norm(e),
{
    lemma_replace_char_is_sub(e, '-'); lemma_replace_char_is_sub(e, ':'); lemma_replace_char_is_sub(e, '/');
    lemma_replace_char_is_sub(sub_char(e, '-'), ':'); lemma_replace_char_is_sub(sub_char(e, '-'), '/');
    lemma_replace_char_is_sub(sub_char(e, ':'), '-'); lemma_replace_char_is_sub(sub_char(e, ':'), '/');
    lemma_replace_char_is_sub(sub_char(e, '/'), '-'); lemma_replace_char_is_sub(sub_char(e, '/'), ':');
    let n = sub_char(sub_char(sub_char(e, '-'), ':'), '/');
    lemma_replace_char_is_sub(sub_char(sub_char(e, '-'), ':'), '/');
    lemma_replace_char_is_sub(sub_char(sub_char(e, '-'), '/'), ':');
    lemma_replace_char_is_sub(sub_char(sub_char(e, ':'), '-'), '/');
    lemma_replace_char_is_sub(sub_char(sub_char(e, ':'), '/'), '-');
    lemma_replace_char_is_sub(sub_char(sub_char(e, '/'), '-'), ':');
    lemma_replace_char_is_sub(sub_char(sub_char(e, '/'), ':'), '-');
    assert(sub_char(sub_char(sub_char(e, '-'), '/'), ':') =~= n);
    assert(sub_char(sub_char(sub_char(e, ':'), '-'), '/') =~= n);
    assert(sub_char(sub_char(sub_char(e, ':'), '/'), '-') =~= n);
    assert(sub_char(sub_char(sub_char(e, '/'), '-'), ':') =~= n);
    assert(sub_char(sub_char(sub_char(e, '/'), ':'), '-') =~= n);
}

pub open spec fn all_alnum_or_us(s: Seq<char>) -> bool { forall|i: int| 0 <= i < s.len() ==> (ascii_alnum(#[trigger] s[i]) || s[i] == '_') }
pub open spec fn all_alnum(s: Seq<char>) -> bool { forall|i: int| 0 <= i < s.len() ==> ascii_alnum(#[trigger] s[i]) }

proof fn lemma_replace_char_sep(s: Seq<char>, c: char)
    requires forall|i: int| 0 <= i < s.len() ==> (tauri_event_char(#[trigger] s[i])),
    ensures
        forall|i: int| 0 <= i < replace_char(s, c, "_"@).len() ==> tauri_event_char(#[trigger] replace_char(s, c, "_"@)[i]) && replace_char(s, c, "_"@)[i] != c || c == '_',
        forall|i: int| 0 <= i < replace_char(s, c, "_"@).len() ==> (#[trigger] replace_char(s, c, "_"@)[i] == '_' || s.contains(replace_char(s, c, "_"@)[i])),
    decreases s.len(),
{
    reveal_strlit("_");
    assert("_"@ =~= seq!['_']);
    if s.len() > 0 {
        assert forall|i: int| 0 <= i < s.drop_last().len() implies tauri_event_char(#[trigger] s.drop_last()[i]) by { assert(s.drop_last()[i] == s[i]); }
        lemma_replace_char_sep(s.drop_last(), c);
        let r0 = replace_char(s.drop_last(), c, "_"@);
        let tail = if s.last() == c { "_"@ } else { seq![s.last()] };
        let r = replace_char(s, c, "_"@);
        assert(r == r0 + tail);
        assert(tail.len() == 1);
        assert forall|i: int| 0 <= i < r.len() implies (#[trigger] r[i] == '_' || s.contains(r[i])) by {
            if i < r0.len() {
                assert(r[i] == r0[i]);
                if r0[i] != '_' {
                    let j = choose|j: int| 0 <= j < s.drop_last().len() && s.drop_last()[j] == r0[i];
                    assert(s[j] == r0[i]);
                }
            } else {
                assert(r[i] == tail[0]);
                if s.last() != c { assert(s[s.len() - 1] == r[i]); }
            }
        }
        assert forall|i: int| 0 <= i < r.len() implies tauri_event_char(#[trigger] r[i]) && r[i] != c || c == '_' by {
            if i < r0.len() { assert(r[i] == r0[i]); } else { assert(r[i] == tail[0]); }
        }
    }
}

proof fn lemma_pascal_alnum(s: Seq<char>, cap: bool)
    requires all_alnum_or_us(s),
    ensures all_alnum(pascal_from(s, cap)),
    decreases s.len(),
{
    broadcast use axiom_ascii_case;
    if s.len() > 0 {
        assert forall|i: int| 0 <= i < s.skip(1).len() implies (ascii_alnum(#[trigger] s.skip(1)[i]) || s.skip(1)[i] == '_') by { assert(s.skip(1)[i] == s[i + 1]); }
        lemma_pascal_alnum(s.skip(1), true);
        lemma_pascal_alnum(s.skip(1), false);
        assert(ascii_alnum(s[0]) || s[0] == '_');
    }
}

//@ PROPS C12 C01
/// C12/C01: every legal (ASCII) Tauri event name yields a legal TypeScript identifier
pub proof fn lemma_C12_listener_name_is_an_identifier(e: Seq<char>)
    requires tauri_event_name(e),
    ensures ts_ident("on"@ + pascal_spec(event_norm(e))),
{
    reveal_strlit("on");
    let s1 = replace_char(e, '-', "_"@);
    lemma_replace_char_sep(e, '-');
    let s2 = replace_char(s1, ':', "_"@);
    lemma_replace_char_sep(s1, ':');
    let s3 = replace_char(s2, '/', "_"@);
    lemma_replace_char_sep(s2, '/');
    assert forall|i: int| 0 <= i < s3.len() implies (ascii_alnum(#[trigger] s3[i]) || s3[i] == '_') by {
        let ch = s3[i];
        assert(tauri_event_char(ch) && ch != '/');
        if ch != '_' {
            assert(s2.contains(ch));
            let j = choose|j: int| 0 <= j < s2.len() && s2[j] == ch;
            assert(tauri_event_char(s2[j]) && s2[j] != ':');
            assert(s1.contains(ch));
            let k = choose|k: int| 0 <= k < s1.len() && s1[k] == ch;
            assert(tauri_event_char(s1[k]) && s1[k] != '-');
        }
    }
    lemma_pascal_alnum(s3, true);
    let p = pascal_spec(event_norm(e));
    let r = "on"@ + p;
    assert("on"@ =~= seq!['o', 'n']);
    assert(r[0] == 'o');
    assert forall|i: int| 0 <= i < r.len() implies ident_char(#[trigger] r[i]) by {
        if i >= 2 { assert(r[i] == p[i - 2]); }
    }
}

//@ PROPS C01
/// C01: "every declared function, type and parameter name is a legal identifier" for command wrappers and their parameter
/// types: for every (ASCII) Rust function name — including `_1st`, `__`, `delete` — the names computed by
/// compute_function_name / compute_type_name are TypeScript identifiers
pub proof fn lemma_C01_command_names_are_identifiers(name: Seq<char>)
    requires all_alnum_or_us(name),
    ensures
        ts_ident(wrapper_name(camel_spec(name))),
        ts_ident(if needs_underscore(pascal_spec(name)) { "_"@ + pascal_spec(name) } else { pascal_spec(name) }),
{
    broadcast use axiom_ascii_case;
    broadcast use axiom_lowercase_ascii;
    reveal_strlit("_");
    lemma_pascal_alnum(name, true);
    let p = pascal_spec(name);
    assert(all_ident_chars(p)) by { assert forall|i: int| 0 <= i < p.len() implies ident_char(#[trigger] p[i]) by { assert(ascii_alnum(p[i])); } }
    let c = camel_spec(name);
    assert(all_ident_chars(c)) by {
        if p.len() > 0 {
            assert((p[0] as u32) < 128) by { assert(ascii_alnum(p[0])); }
            assert(lowercase_seq(p[0]) == seq![lower(p[0])]);
            assert(c == seq![lower(p[0])] + p.skip(1));
            assert forall|i: int| 0 <= i < c.len() implies ident_char(#[trigger] c[i]) by {
                if i == 0 { assert(ascii_alnum(lower(p[0]))); } else { assert(c[i] == p[i]); assert(ascii_alnum(p[i])); }
            }
        }
    }
    lemma_wrapper_name_is_identifier(c);
    let t = "_"@ + p;
    if needs_underscore(p) {
        assert(t[0] == '_');
        assert forall|i: int| 0 <= i < t.len() implies ident_char(#[trigger] t[i]) by { if i >= 1 { assert(t[i] == p[i - 1]); } }
    }
}

// C12 "unique": event_name_to_function is NOT injective ("user-login" / "user_login"); since /repo edb1036 the names are
// made unique afterwards by unique_function_names, which is under contract in unit `unique`.

//@ PROPS C06
/// C06: "unattributed items keep their Rust name" (default configuration: default_field_case = snake_case,
/// serde's field rule for snake_case/lowercase is the identity)
pub proof fn lemma_C06_unattributed_items_keep_their_name(case: Seq<char>, name: Seq<char>)
    requires case == "snake_case"@ || case == "lowercase"@,
    ensures rule_field(default_rule(case), name) == name,
{
    reveal_strlit("snake_case");
    reveal_strlit("lowercase");
    reveal_strlit("UPPERCASE");
    reveal_strlit("PascalCase");
    reveal_strlit("camelCase");
    reveal_strlit("SCREAMING_SNAKE_CASE");
    reveal_strlit("kebab-case");
    reveal_strlit("SCREAMING-KEBAB-CASE");
}

//@ PROPS C04
/// C04: with the default configuration (default_parameter_case = camelCase, or anything unparsable)
/// an unattributed parameter is keyed by serde's camelCase field rule of its Rust name
pub proof fn lemma_C04_default_is_camel_case(case: Seq<char>, name: Seq<char>)
    requires case == "camelCase"@ || parse_rule(case) is None,
    ensures rule_field(default_rule(case), name) == rule_field(RenameRule::CamelCase, name),
{
    reveal_strlit("snake_case");
    reveal_strlit("lowercase");
    reveal_strlit("UPPERCASE");
    reveal_strlit("PascalCase");
    reveal_strlit("camelCase");
    reveal_strlit("SCREAMING_SNAKE_CASE");
    reveal_strlit("kebab-case");
    reveal_strlit("SCREAMING-KEBAB-CASE");
}

//@ AUTO-FREE-FNS
} // verus!
fn main() {}
