// Unit U-naming: NamingContext default methods, devirtualised (D3) for FieldContext.
// Properties: C06 (precedence and which serde rule is applied to what), C04 (parameter keys)
#![feature(allocator_api)]
#![feature(slice_concat_trait)]
#![feature(pattern)]
#![allow(unused_imports, unused_variables, dead_code, unused_mut)]
use vstd::prelude::*;
use vstd::std_specs::hash::*;
use vstd::std_specs::iter::IteratorSpec;
use std::collections::{HashMap, HashSet};
use std::alloc::Allocator;
use std::path::PathBuf;

//@ INCLUDE prelude/base.rs
//@ INCLUDE prelude/fmt.rs
//@ INCLUDE prelude/strpat.rs
use vpre::*;
use vfmt::*;
use vstr::*;
pub mod models { pub use crate::*; }   // crate::models::X paths in extracted text resolve to the extracted types

verus! {

broadcast use {vstd::std_specs::hash::group_hash_axioms, vpre::group_string_keys, vfmt::group_disp, vstr::axiom_pat_char};

//@ FORMAT-MACRO

//@ INCLUDE units/inc/models.rs
//@ EXTRACT-TYPE file=src/interface/config.rs struct=GenerateConfig
//@ EXTRACT-TYPE file=src/generators/base/template_context.rs struct=FieldContext

// ---- serde's renaming rules (dependency serde-rename-rule, a verbatim extract of serde_derive's
// case.rs): ASSUMED, not verified.  rule_field / rule_variant stand for RenameRule::apply_to_field /
// apply_to_variant; only the two identity rows of apply_to_field are interpreted.
pub uninterp spec fn rule_field_other(c: RenameRule, s: Seq<char>) -> Seq<char>;
pub uninterp spec fn rule_variant(c: RenameRule, s: Seq<char>) -> Seq<char>;

pub open spec fn rule_field(c: RenameRule, s: Seq<char>) -> Seq<char> {
    if c is LowerCase || c is SnakeCase { s } else { rule_field_other(c, s) }
}

/// RENAME_RULES table of the dependency
pub open spec fn parse_rule(s: Seq<char>) -> Option<RenameRule> {
    if s == "lowercase"@ { Some(RenameRule::LowerCase) }
    else if s == "UPPERCASE"@ { Some(RenameRule::UpperCase) }
    else if s == "PascalCase"@ { Some(RenameRule::PascalCase) }
    else if s == "camelCase"@ { Some(RenameRule::CamelCase) }
    else if s == "snake_case"@ { Some(RenameRule::SnakeCase) }
    else if s == "SCREAMING_SNAKE_CASE"@ { Some(RenameRule::ScreamingSnakeCase) }
    else if s == "kebab-case"@ { Some(RenameRule::KebabCase) }
    else if s == "SCREAMING-KEBAB-CASE"@ { Some(RenameRule::ScreamingKebabCase) }
    else { None }
}

pub open spec fn default_rule(s: Seq<char>) -> RenameRule {
    match parse_rule(s) { Some(r) => r, None => RenameRule::CamelCase }
}

pub struct ParseError { pub unknown: String }

impl RenameRule {
    #[verifier::external_body]
    pub fn apply_to_field(&self, field: &str) -> (r: String)
        ensures r@ == rule_field(*self, field@),
    { unimplemented!() }

    #[verifier::external_body]
    pub fn apply_to_variant(&self, variant: &str) -> (r: String)
        ensures r@ == rule_variant(*self, variant@),
    { unimplemented!() }

    #[verifier::external_body]
    pub fn from_rename_all_str(s: &str) -> (r: Result<RenameRule, ParseError>)
        ensures
            parse_rule(s@) is Some ==> r == Ok::<RenameRule, ParseError>(parse_rule(s@)->0),
            parse_rule(s@) is None ==> r is Err,
    { unimplemented!() }
}

impl FieldContext {

//@ EXTRACT-FN file=src/generators/base/template_context.rs in="impl NamingContext for FieldContext" fn=config props=C06,C04
//@ RETURNS r
//@ CONTRACT
//@|    ensures *r == self.config,
//@ END

//@ EXTRACT-FN file=src/generators/base/template_context.rs in="trait NamingContext" fn=apply_naming_convention props=C06,C04
//@ RETURNS r
//@ CONTRACT
//@|    ensures r@ == rule_field(convention, field_name@),
//@ END

//@ EXTRACT-FN file=src/generators/base/template_context.rs in="trait NamingContext" fn=compute_field_name props=C06
//@ RETURNS r
//@ CONTRACT
//@|    ensures
//@|        field_rename is Some ==> r@ == field_rename->0@,
//@|        field_rename is None && struct_rename_all is Some ==> r@ == rule_field(struct_rename_all->0, field_name@),
//@|        field_rename is None && struct_rename_all is None ==> r@ == rule_field(default_rule(self.config.default_field_case@), field_name@),
//@ END

//@ EXTRACT-FN file=src/generators/base/template_context.rs in="trait NamingContext" fn=compute_variant_name props=C06
//@ RETURNS r
//@ CONTRACT
//@|    ensures
//@|        variant_rename is Some ==> r@ == variant_rename->0@,
//@|        variant_rename is None && enum_rename_all is Some ==> r@ == rule_variant(enum_rename_all->0, variant_name@),
//@|        variant_rename is None && enum_rename_all is None ==> r@ == rule_field(default_rule(self.config.default_field_case@), variant_name@),
//@ END

//@ EXTRACT-FN file=src/generators/base/template_context.rs in="trait NamingContext" fn=compute_parameter_name props=C04
//@ RETURNS r
//@ CONTRACT
//@|    ensures
//@|        param_rename is Some ==> r@ == param_rename->0@,
//@|        param_rename is None && command_rename_all is Some ==> r@ == rule_field(command_rename_all->0, param_name@),
//@|        param_rename is None && command_rename_all is None ==> r@ == rule_field(default_rule(self.config.default_parameter_case@), param_name@),
//@ END

}

//@ PROPS C06
/// C06: "unattributed items keep their Rust name" (default configuration: default_field_case = snake_case,
/// serde's field rule for snake_case/lowercase is the identity)
pub proof fn lemma_C06_unattributed_items_keep_their_name(case: Seq<char>, name: Seq<char>)
    requires case == "snake_case"@ || case == "lowercase"@,
    ensures rule_field(default_rule(case), name) == name,
{
    reveal_strlit("snake_case");
    reveal_strlit("lowercase");
    reveal_strlit("UPPERCASE");
    reveal_strlit("PascalCase");
    reveal_strlit("camelCase");
    reveal_strlit("SCREAMING_SNAKE_CASE");
    reveal_strlit("kebab-case");
    reveal_strlit("SCREAMING-KEBAB-CASE");
}

//@ PROPS C04
/// C04: with the default configuration (default_parameter_case = camelCase, or anything unparsable)
/// an unattributed parameter is keyed by serde's camelCase field rule of its Rust name
pub proof fn lemma_C04_default_is_camel_case(case: Seq<char>, name: Seq<char>)
    requires case == "camelCase"@ || parse_rule(case) is None,
    ensures rule_field(default_rule(case), name) == rule_field(RenameRule::CamelCase, name),
{
    reveal_strlit("snake_case");
    reveal_strlit("lowercase");
    reveal_strlit("UPPERCASE");
    reveal_strlit("PascalCase");
    reveal_strlit("camelCase");
    reveal_strlit("SCREAMING_SNAKE_CASE");
    reveal_strlit("kebab-case");
    reveal_strlit("SCREAMING-KEBAB-CASE");
}

} // verus!
fn main() {}
