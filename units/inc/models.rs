// ---- data model of the tool, extracted from src/models.rs (D2: attributes dropped) ----
//@ EXTRACT-TYPE crate=serde-rename-rule file=src/lib.rs enum=RenameRule derive=Clone,Copy,PartialEq,Eq
//@ EXTRACT-TYPE file=src/models.rs enum=TypeStructure clone=1
//@ EXTRACT-TYPE file=src/models.rs struct=LengthConstraint clone=1
//@ EXTRACT-TYPE file=src/models.rs struct=RangeConstraint clone=1
//@ EXTRACT-TYPE file=src/models.rs struct=ValidatorAttributes clone=1
//@ EXTRACT-TYPE file=src/models.rs struct=FieldInfo clone=1
//@ EXTRACT-TYPE file=src/models.rs struct=StructInfo clone=1
//@ EXTRACT-TYPE file=src/models.rs struct=ParameterInfo clone=1
//@ EXTRACT-TYPE file=src/models.rs struct=ChannelInfo clone=1
//@ EXTRACT-TYPE file=src/models.rs struct=EventInfo clone=1
//@ EXTRACT-TYPE file=src/models.rs struct=CommandInfo clone=1
