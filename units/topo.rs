// Unit U-topo: TypeDependencyGraph::{topological_sort_types, topological_visit}
// Properties: C20 (first sentence), C09(a).   See DESIGN.md §5 C20 / C09.
#![feature(allocator_api)]
#![allow(unused_imports, unused_variables, dead_code, unused_mut)]
use vstd::prelude::*;
use vstd::std_specs::hash::*;
use vstd::std_specs::iter::IteratorSpec;
use std::collections::{HashMap, HashSet};
use std::alloc::Allocator;
use std::path::PathBuf;

//@ INCLUDE prelude/base.rs
use vpre::*;

verus! {

broadcast use {vstd::std_specs::hash::group_hash_axioms, vpre::group_string_keys};

// ---------------------------------------------------------------- graph theory (spec)
pub type Graph = Map<String, Set<String>>;

pub open spec fn graph_of(m: Map<String, HashSet<String>>) -> Graph {
    Map::new(m.dom(), |k: String| m[k]@)
}

pub open spec fn edge(g: Graph, u: String, v: String) -> bool {
    g.contains_key(u) && g[u].contains(v)
}

pub open spec fn is_path(g: Graph, p: Seq<String>) -> bool {
    p.len() >= 1 && forall|i: int| 0 <= i < p.len() - 1 ==> edge(g, #[trigger] p[i], p[i + 1])
}

pub open spec fn reaches(g: Graph, u: String, v: String) -> bool {
    exists|p: Seq<String>| is_path(g, p) && p[0] == u && p.last() == v
}

pub proof fn lemma_reaches_refl(g: Graph, u: String)
    ensures reaches(g, u, u),
{
    let p = seq![u];
    assert(is_path(g, p));
    assert(p[0] == u && p.last() == u);
}

pub proof fn lemma_reaches_step(g: Graph, u: String, v: String, w: String)
    requires reaches(g, u, v), edge(g, v, w),
    ensures reaches(g, u, w),
{
    let p = choose|p: Seq<String>| is_path(g, p) && p[0] == u && p.last() == v;
    let q = p.push(w);
    assert forall|i: int| 0 <= i < q.len() - 1 implies edge(g, #[trigger] q[i], q[i + 1]) by {
        if i < p.len() - 1 {
            assert(q[i] == p[i] && q[i + 1] == p[i + 1]);
        } else {
            assert(q[i] == p.last() && q[i + 1] == w);
        }
    }
    assert(is_path(g, q) && q[0] == u && q.last() == w);
}

pub proof fn lemma_reaches_trans(g: Graph, u: String, v: String, w: String)
    requires reaches(g, u, v), reaches(g, v, w),
    ensures reaches(g, u, w),
{
    let q = choose|q: Seq<String>| is_path(g, q) && q[0] == v && q.last() == w;
    lemma_reaches_trans_aux(g, u, v, q, q.len() as int - 1);
}

proof fn lemma_reaches_trans_aux(g: Graph, u: String, v: String, q: Seq<String>, k: int)
    requires reaches(g, u, v), is_path(g, q), q[0] == v, 0 <= k < q.len(),
    ensures reaches(g, u, q[k]),
    decreases k,
{
    if k > 0 {
        lemma_reaches_trans_aux(g, u, v, q, k - 1);
        assert(edge(g, q[k - 1], q[k - 1 + 1]));
        lemma_reaches_step(g, u, q[k - 1], q[k]);
    }
}

pub proof fn lemma_edge_reaches(g: Graph, u: String, v: String)
    requires edge(g, u, v),
    ensures reaches(g, u, v),
{
    lemma_reaches_refl(g, u);
    lemma_reaches_step(g, u, u, v);
}

// position of an element in a duplicate-free sequence
pub open spec fn idx(s: Seq<String>, x: String) -> int {
    choose|i: int| 0 <= i < s.len() && s[i] == x
}

// "closed": every recorded dependency of an emitted type is emitted or on the DFS stack
pub open spec fn closed(g: Graph, sorted: Seq<String>, visiting: Set<String>) -> bool {
    forall|i: int, v: String| 0 <= i < sorted.len() && #[trigger] edge(g, sorted[i], v)
        ==> sorted.contains(v) || visiting.contains(v)
}

// "ordered": a recorded dependency of an emitted type comes earlier, or both are on a common cycle
pub open spec fn ordered(g: Graph, sorted: Seq<String>) -> bool {
    forall|i: int, v: String| 0 <= i < sorted.len() && #[trigger] edge(g, sorted[i], v)
        ==> (exists|j: int| 0 <= j < i && sorted[j] == v) || reaches(g, v, sorted[i])
}

pub open spec fn from_roots(g: Graph, roots: Set<String>, sorted: Seq<String>) -> bool {
    forall|i: int| 0 <= i < sorted.len()
        ==> exists|t: String| roots.contains(t) && reaches(g, t, #[trigger] sorted[i])
}

// ---------------------------------------------------------------- C13: canonical enumeration
/// String's Ord (lexicographic); only that it is a strict total order on the text is used
pub uninterp spec fn str_lt(a: Seq<char>, b: Seq<char>) -> bool;
pub broadcast axiom fn axiom_str_lt_order(a: Seq<char>, b: Seq<char>, c: Seq<char>)
    ensures
        #![trigger str_lt(a, b), str_lt(b, c)]
        !str_lt(a, a),
        str_lt(a, b) && str_lt(b, c) ==> str_lt(a, c),
        a != b ==> str_lt(a, b) || str_lt(b, a);

pub open spec fn strictly_sorted(v: Seq<&String>) -> bool {
    forall|i: int, j: int| 0 <= i < j < v.len() ==> str_lt((#[trigger] v[i])@, (#[trigger] v[j])@)
}

pub open spec fn enumerates(v: Seq<&String>, s: Set<String>) -> bool {
    &&& forall|i: int| 0 <= i < v.len() ==> s.contains(*#[trigger] v[i])
    &&& forall|x: String| s.contains(x) ==> exists|i: int| 0 <= i < v.len() && *#[trigger] v[i] == x
}

/// the strictly sorted enumeration of a finite set of names (unique by lemma_C13_sorted_enumeration_is_unique)
pub open spec fn canon(s: Set<String>) -> Seq<String> {
    choose|v: Seq<String>| sorted_strings(v) && v.no_duplicates() && v.to_set() == s
}

pub open spec fn sorted_strings(v: Seq<String>) -> bool {
    forall|i: int, j: int| 0 <= i < j < v.len() ==> str_lt((#[trigger] v[i])@, (#[trigger] v[j])@)
}

pub open spec fn derefs(v: Seq<&String>) -> Seq<String> {
    v.map_values(|x: &String| *x)
}

/// C13: the canonical depth-first post-order — a function of the abstract graph and set only
pub open spec fn cvisit(g: Graph, name: String, sorted: Seq<String>, visiting: Set<String>) -> Seq<String>
    decreases g.dom().difference(visiting).len(), 0int, 0int
    when g.dom().finite()
    via cvisit_decreases
{
    if visiting.contains(name) || sorted.contains(name) { sorted }
    else if g.contains_key(name) {
        cfold(g, canon(g[name]), canon(g[name]).len() as int, sorted, visiting.insert(name)).push(name)
    } else { sorted.push(name) }
}

#[via_fn]
proof fn cvisit_decreases(g: Graph, name: String, sorted: Seq<String>, visiting: Set<String>) {
    if !(visiting.contains(name) || sorted.contains(name)) && g.contains_key(name) {
        lemma_measure_decreases(g.dom(), visiting, name);
    }
}

/// the first k elements of `list` visited in order
pub open spec fn cfold(g: Graph, list: Seq<String>, k: int, sorted: Seq<String>, visiting: Set<String>) -> Seq<String>
    decreases g.dom().difference(visiting).len(), 1int, k
    when g.dom().finite()
{
    if k <= 0 || k > list.len() { sorted }
    else { cvisit(g, list[k - 1], cfold(g, list, k - 1, sorted, visiting), visiting) }
}

pub open spec fn canon_topo(g: Graph, roots: Set<String>) -> Seq<String> {
    cfold(g, canon(roots), canon(roots).len() as int, Seq::<String>::empty(), Set::<String>::empty())
}

//@ EXTRACT-TYPE file=src/analysis/dependency_graph.rs struct=TypeDependencyGraph

#[verifier::external_type_specification]
#[verifier::external_body]
pub struct ExPathBuf(std::path::PathBuf);

//@ INCLUDE units/inc/models.rs

impl TypeDependencyGraph {

pub open spec fn g(&self) -> Graph { graph_of(self.dependencies@) }

//@ EXTRACT-FN file=src/analysis/dependency_graph.rs in="impl TypeDependencyGraph" fn=sorted_names props=C13
//@ RETURNS r
//@ EXTERNAL-BODY
//@ CONTRACT
//@|    ensures strictly_sorted(r@), enumerates(r@, names@),
//@ END

//@ EXTRACT-FN file=src/analysis/dependency_graph.rs in="impl TypeDependencyGraph" fn=topological_sort_types props=C20,C09,C13
//@ RETURNS r
//@ CONTRACT
//@|    ensures
//@|        topo_post(self.g(), types@, r@),
//@|        r@ == canon_topo(self.g(), types@), // [C13]
//@ FIRST
//@|    proof { broadcast use lemma_sorted_names_is_canon; }
//@ LOOP 1 ITER=it
//@|    invariant
//@|        visiting@ == Set::<String>::empty(),
//@|        sorted@.to_set() == visited@,
//@|        sorted@.no_duplicates(),
//@|        closed(self.g(), sorted@, visiting@),
//@|        ordered(self.g(), sorted@),
//@|        from_roots(self.g(), types@, sorted@),
//@|        0 <= it.index@ <= it.snapshot@.remaining().len(),
//@|        strictly_sorted(it.snapshot@.remaining()), // [C13]
//@|        enumerates(it.snapshot@.remaining(), types@), // [C13]
//@|        self.g().dom().finite(),
//@|        derefs(it.snapshot@.remaining()) == canon(types@), // [C13]
//@|        sorted@ == cfold(self.g(), canon(types@), it.index@, Seq::<String>::empty(), Set::<String>::empty()), // [C13]
//@|        forall|i: int| 0 <= i < it.snapshot@.remaining().len() ==> types@.contains(*#[trigger] it.snapshot@.remaining()[i]),
//@|        forall|x: String| types@.contains(x) ==> visited@.contains(x)
//@|            || exists|i: int| it.index@ <= i < it.snapshot@.remaining().len() && *#[trigger] it.snapshot@.remaining()[i] == x,
//@ BEFORE `self.topological_visit(type_name, &mut sorted, &mut visited, &mut visiting)`
//@|    let ghost sorted_before = sorted@;
//@|    let ghost kk = it.index@;
//@|    proof {
//@|        assert(string_of(type_name@) == *type_name);
//@|        assert(derefs(it.snapshot@.remaining())[kk] == *type_name);
//@|        assert(canon(types@)[kk] == *type_name);
//@|    }
//@ AFTER `self.topological_visit(type_name, &mut sorted, &mut visited, &mut visiting)`
//@|    proof {
//@|        assert forall|i: int| 0 <= i < sorted@.len() implies
//@|            exists|t: String| types@.contains(t) && reaches(self.g(), t, #[trigger] sorted@[i]) by {
//@|            if i < sorted_before.len() {
//@|                assert(sorted@[i] == sorted_before[i]);
//@|            } else {
//@|                assert(types@.contains(*type_name) && reaches(self.g(), *type_name, sorted@[i]));
//@|            }
//@|        }
//@|    }
//@ LOOP-END 1
//@|    proof {
//@|        // C13: whether or not the root was already emitted, one more step of the canonical fold was taken
//@|        let k2 = it.index@;
//@|        assert(derefs(it.snapshot@.remaining())[k2] == *type_name);
//@|        assert(canon(types@)[k2] == *type_name);
//@|        let prev = cfold(self.g(), canon(types@), k2, Seq::<String>::empty(), Set::<String>::empty());
//@|        assert(sorted@ == cvisit(self.g(), *type_name, prev, Set::<String>::empty())) by {
//@|            if prev.contains(*type_name) { assert(sorted@ == prev); }
//@|        }
//@|        assert(sorted@ == cfold(self.g(), canon(types@), k2 + 1, Seq::<String>::empty(), Set::<String>::empty()));
//@|    }
//@ END

//@ EXTRACT-FN file=src/analysis/dependency_graph.rs in="impl TypeDependencyGraph" fn=topological_visit props=C20,C09,C13
//@ CONTRACT
//@|    requires
//@|        old(sorted)@.to_set() == old(visited)@,
//@|        old(sorted)@.no_duplicates(),
//@|        old(visited)@.disjoint(old(visiting)@),
//@|        forall|w: String| old(visiting)@.contains(w) ==> reaches(self.g(), w, string_of(type_name@)),
//@|        closed(self.g(), old(sorted)@, old(visiting)@),
//@|        ordered(self.g(), old(sorted)@),
//@|    ensures
//@|        final(visiting)@ == old(visiting)@,
//@|        final(sorted)@.to_set() == final(visited)@,
//@|        final(sorted)@.no_duplicates(),
//@|        final(visited)@.disjoint(final(visiting)@),
//@|        old(sorted)@.is_prefix_of(final(sorted)@),
//@|        closed(self.g(), final(sorted)@, final(visiting)@),
//@|        ordered(self.g(), final(sorted)@),
//@|        old(visiting)@.contains(string_of(type_name@)) || final(visited)@.contains(string_of(type_name@)),
//@|        forall|i: int| old(sorted)@.len() <= i < final(sorted)@.len()
//@|            ==> reaches(self.g(), string_of(type_name@), #[trigger] final(sorted)@[i]),
//@|        final(sorted)@ == cvisit(self.g(), string_of(type_name@), old(sorted)@, old(visiting)@), // [C13]
//@|    decreases self.dependencies@.dom().difference(old(visiting)@).len(),
//@ FIRST
//@|    proof { broadcast use lemma_sorted_names_is_canon; }
//@|    let ghost name_s = string_of(type_name@);
//@|    let ghost g = self.g();
//@ AFTER `visiting.insert(type_name.to_string());`
//@|    proof {
//@|        assert(visiting@ == old(visiting)@.insert(name_s));
//@|        lemma_reaches_refl(g, name_s);
//@|        assert(g.dom() =~= self.dependencies@.dom());
//@|    }
//@ LOOP 1 ITER=it
//@|    invariant
//@|        name_s == string_of(type_name@),
//@|        g == self.g(),
//@|        self.dependencies@.contains_key(name_s),
//@|        self.dependencies@[name_s] == *deps,
//@|        !old(visiting)@.contains(name_s),
//@|        !old(visited)@.contains(name_s),
//@|        forall|w: String| old(visiting)@.contains(w) ==> reaches(g, w, name_s),
//@|        visiting@ == old(visiting)@.insert(name_s),
//@|        sorted@.to_set() == visited@,
//@|        sorted@.no_duplicates(),
//@|        visited@.disjoint(visiting@),
//@|        old(sorted)@.is_prefix_of(sorted@),
//@|        closed(g, sorted@, visiting@),
//@|        ordered(g, sorted@),
//@|        forall|i: int| old(sorted)@.len() <= i < sorted@.len()
//@|            ==> reaches(g, name_s, #[trigger] sorted@[i]),
//@|        0 <= it.index@ <= it.snapshot@.remaining().len(),
//@|        strictly_sorted(it.snapshot@.remaining()), // [C13]
//@|        enumerates(it.snapshot@.remaining(), deps@), // [C13]
//@|        g.dom().finite(), g.contains_key(name_s), g[name_s] == deps@,
//@|        derefs(it.snapshot@.remaining()) == canon(deps@), // [C13]
//@|        sorted@ == cfold(g, canon(deps@), it.index@, old(sorted)@, visiting@), // [C13]
//@|        forall|i: int| 0 <= i < it.snapshot@.remaining().len() ==> deps@.contains(*#[trigger] it.snapshot@.remaining()[i]),
//@|        forall|x: String| deps@.contains(x) ==> visiting@.contains(x) || visited@.contains(x)
//@|            || exists|i: int| it.index@ <= i < it.snapshot@.remaining().len() && *#[trigger] it.snapshot@.remaining()[i] == x,
//@ BEFORE `self.topological_visit(dep, sorted, visited, visiting)`
//@|    let ghost sorted_before = sorted@;
//@|    let ghost visited_before = visited@;
//@|    let ghost kk = it.index@;
//@|    proof {
//@|        assert(derefs(it.snapshot@.remaining())[kk] == *dep);
//@|        assert(canon(deps@)[kk] == *dep);
//@|        assert(deps@.contains(*dep));
//@|        assert(edge(g, name_s, *dep));
//@|        assert(string_of(dep@) == *dep);
//@|        lemma_edge_reaches(g, name_s, *dep);
//@|        lemma_reaches_refl(g, name_s);
//@|        assert forall|w: String| visiting@.contains(w) implies reaches(g, w, *dep) by {
//@|            lemma_reaches_trans(g, w, name_s, *dep);
//@|        }
//@|        lemma_measure_decreases(self.dependencies@.dom(), old(visiting)@, name_s);
//@|    }
//@ AFTER `self.topological_visit(dep, sorted, visited, visiting)`
//@|    proof {
//@|        assert(sorted@ == cvisit(g, canon(deps@)[kk], cfold(g, canon(deps@), kk, old(sorted)@, visiting@), visiting@));
//@|        assert(sorted@ == cfold(g, canon(deps@), kk + 1, old(sorted)@, visiting@));
//@|        assert forall|i: int| old(sorted)@.len() <= i < sorted@.len()
//@|            implies reaches(g, name_s, #[trigger] sorted@[i]) by {
//@|            if i >= sorted_before.len() {
//@|                lemma_reaches_trans(g, name_s, *dep, sorted@[i]);
//@|            } else {
//@|                assert(sorted@[i] == sorted_before[i]);
//@|            }
//@|        }
//@|        assert(visited_before.subset_of(visited@)) by {
//@|            assert forall|x: String| visited_before.contains(x) implies visited@.contains(x) by {
//@|                let j = choose|j: int| 0 <= j < sorted_before.len() && sorted_before[j] == x;
//@|                assert(sorted@[j] == x);
//@|            }
//@|        }
//@|    }
//@ AFTER-LOOP 1
//@|    proof {
//@|        assert(sorted@ == cfold(g, canon(g[name_s]), canon(g[name_s]).len() as int, old(sorted)@, visiting@));
//@|    }
//@ AFTER `if let Some(deps) = self.dependencies.get(type_name)`
//@|    let ghost sorted_mid = sorted@;
//@|    let ghost visited_mid = visited@;
//@|    let ghost visiting_mid = visiting@;
//@|    proof {
//@|        assert(visiting_mid == old(visiting)@.insert(name_s));
//@|        // every recorded dependency of `type_name` is emitted or on the stack
//@|        assert forall|v: String| edge(g, name_s, v) implies visiting_mid.contains(v) || visited_mid.contains(v) by {
//@|            assert(self.dependencies@.contains_key(name_s));
//@|        }
//@|    }
//@ LAST
//@|    proof {
//@|        assert(visiting@ == old(visiting)@) by {
//@|            assert(visiting_mid.remove(name_s) =~= old(visiting)@);
//@|        }
//@|        assert(sorted@ == sorted_mid.push(name_s));
//@|        assert(visited@ == visited_mid.insert(name_s));
//@|        lemma_push_to_set(sorted_mid, name_s);
//@|        assert(!visited_mid.contains(name_s));
//@|        assert(sorted@.no_duplicates());
//@|        let n = sorted_mid.len() as int;
//@|        assert forall|i: int, v: String| 0 <= i < sorted@.len() && #[trigger] edge(g, sorted@[i], v)
//@|            implies sorted@.contains(v) || visiting@.contains(v) by {
//@|            if i < n {
//@|                assert(sorted@[i] == sorted_mid[i]);
//@|                assert(edge(g, sorted_mid[i], v));
//@|                if sorted_mid.contains(v) {
//@|                    let j = choose|j: int| 0 <= j < n && sorted_mid[j] == v;
//@|                    assert(sorted@[j] == v);
//@|                } else {
//@|                    assert(visiting_mid.contains(v));
//@|                    if v == name_s { assert(sorted@[n] == v); }
//@|                }
//@|            } else {
//@|                assert(sorted@[i] == name_s);
//@|                if visited_mid.contains(v) {
//@|                    let j = choose|j: int| 0 <= j < n && sorted_mid[j] == v;
//@|                    assert(sorted@[j] == v);
//@|                } else {
//@|                    assert(visiting_mid.contains(v));
//@|                    if v == name_s { assert(sorted@[n] == v); }
//@|                }
//@|            }
//@|        }
//@|        assert forall|i: int, v: String| 0 <= i < sorted@.len() && #[trigger] edge(g, sorted@[i], v)
//@|            implies (exists|j: int| 0 <= j < i && sorted@[j] == v) || reaches(g, v, sorted@[i]) by {
//@|            if i < n {
//@|                assert(sorted@[i] == sorted_mid[i]);
//@|                assert(edge(g, sorted_mid[i], v));
//@|                if exists|j: int| 0 <= j < i && sorted_mid[j] == v {
//@|                    let j = choose|j: int| 0 <= j < i && sorted_mid[j] == v;
//@|                    assert(sorted@[j] == v);
//@|                }
//@|            } else {
//@|                assert(sorted@[i] == name_s);
//@|                if visited_mid.contains(v) {
//@|                    let j = choose|j: int| 0 <= j < n && sorted_mid[j] == v;
//@|                    assert(sorted@[j] == v);
//@|                } else {
//@|                    assert(visiting_mid.contains(v));
//@|                }
//@|            }
//@|        }
//@|        assert(sorted@[n] == name_s);
//@|        // C13: this is the canonical post-order
//@|        assert(g.dom() =~= self.dependencies@.dom());
//@|        assert(!old(sorted)@.contains(name_s)) by { if old(sorted)@.contains(name_s) { assert(old(sorted)@.to_set().contains(name_s)); } }
//@|        if g.contains_key(name_s) {
//@|            assert(sorted_mid == cfold(g, canon(g[name_s]), canon(g[name_s]).len() as int, old(sorted)@, old(visiting)@.insert(name_s)));
//@|        } else {
//@|            assert(sorted_mid == old(sorted)@);
//@|        }
//@|        assert(sorted@ == cvisit(g, name_s, old(sorted)@, old(visiting)@));
//@|    }
//@ END

}

// measure of topological_visit: |dom(deps) \ visiting|
pub proof fn lemma_measure_decreases(dom: Set<String>, visiting: Set<String>, x: String)
    requires dom.finite(), dom.contains(x), !visiting.contains(x),
    ensures dom.difference(visiting.insert(x)).len() < dom.difference(visiting).len(),
{
    let a = dom.difference(visiting);
    assert(a.finite());
    assert(a.contains(x));
    assert(dom.difference(visiting.insert(x)) =~= a.remove(x));
}

pub proof fn lemma_push_to_set(s: Seq<String>, x: String)
    ensures s.push(x).to_set() == s.to_set().insert(x),
{
    assert forall|y: String| s.push(x).to_set().contains(y) <==> s.to_set().insert(x).contains(y) by {
        if s.push(x).to_set().contains(y) {
            let i = choose|i: int| 0 <= i < s.push(x).len() && s.push(x)[i] == y;
            if i < s.len() { assert(s[i] == y); }
        }
        if s.to_set().contains(y) {
            let i = choose|i: int| 0 <= i < s.len() && s[i] == y;
            assert(s.push(x)[i] == y);
        }
        if y == x { assert(s.push(x)[s.len() as int] == x); }
    }
    assert(s.push(x).to_set() =~= s.to_set().insert(x));
}

// ------------------------------------------------------------------ C13
//@ PROPS C13
/// C13: a strictly sorted enumeration is determined by the set alone — whatever order the hash
/// collection yields its elements in, the sequence the loops of topological_* iterate is the same
pub proof fn lemma_C13_sorted_enumeration_is_unique(a: Seq<&String>, b: Seq<&String>, s: Set<String>)
    requires strictly_sorted(a), strictly_sorted(b), enumerates(a, s), enumerates(b, s),
    ensures a.len() == b.len(), forall|i: int| 0 <= i < a.len() ==> *a[i] == *b[i],
    decreases a.len(),
{
    broadcast use axiom_str_lt_order;
    if a.len() == 0 {
        if b.len() > 0 { assert(s.contains(*b[0])); }
    } else {
        assert(s.contains(*a[0]));
        let j = choose|j: int| 0 <= j < b.len() && *b[j] == *a[0];
        assert(s.contains(*b[0]));
        let k = choose|k: int| 0 <= k < a.len() && *a[k] == *b[0];
        // minimal elements coincide
        if j > 0 {
            assert(str_lt(b[0]@, b[j]@));
            if k > 0 { assert(str_lt(a[0]@, a[k]@)); }
            assert(false);
        }
        assert(*a[0] == *b[0]);
        let a1 = a.skip(1);
        let b1 = b.skip(1);
        let s1 = s.remove(*a[0]);
        assert forall|i: int, jj: int| 0 <= i < jj < a1.len() implies str_lt((#[trigger] a1[i])@, (#[trigger] a1[jj])@) by {
            assert(a1[i] == a[i + 1] && a1[jj] == a[jj + 1]);
        }
        assert forall|i: int, jj: int| 0 <= i < jj < b1.len() implies str_lt((#[trigger] b1[i])@, (#[trigger] b1[jj])@) by {
            assert(b1[i] == b[i + 1] && b1[jj] == b[jj + 1]);
        }
        assert forall|i: int| 0 <= i < a1.len() implies s1.contains(*#[trigger] a1[i]) by {
            assert(a1[i] == a[i + 1]);
            assert(str_lt(a[0]@, a[i + 1]@));
        }
        assert forall|i: int| 0 <= i < b1.len() implies s1.contains(*#[trigger] b1[i]) by {
            assert(b1[i] == b[i + 1]);
            assert(str_lt(b[0]@, b[i + 1]@));
        }
        assert forall|x: String| s1.contains(x) implies exists|i: int| 0 <= i < a1.len() && *#[trigger] a1[i] == x by {
            let i = choose|i: int| 0 <= i < a.len() && *#[trigger] a[i] == x;
            assert(i > 0);
            assert(*a1[i - 1] == x);
        }
        assert forall|x: String| s1.contains(x) implies exists|i: int| 0 <= i < b1.len() && *#[trigger] b1[i] == x by {
            let i = choose|i: int| 0 <= i < b.len() && *#[trigger] b[i] == x;
            assert(i > 0);
            assert(*b1[i - 1] == x);
        }
        lemma_C13_sorted_enumeration_is_unique(a1, b1, s1);
        assert forall|i: int| 0 <= i < a.len() implies *a[i] == *b[i] by {
            if i > 0 { assert(a1[i - 1] == a[i] && b1[i - 1] == b[i]); }
        }
    }
}

//@ PROPS C13
proof fn lemma_sorted_strings_unique(a: Seq<String>, b: Seq<String>)
    requires sorted_strings(a), sorted_strings(b), a.to_set() == b.to_set(),
    ensures a == b,
    decreases a.len(),
{
    broadcast use axiom_str_lt_order;
    if a.len() == 0 {
        if b.len() > 0 { assert(b.to_set().contains(b[0])); assert(a.to_set().contains(b[0])); }
        assert(a =~= b);
    } else {
        assert(a.to_set().contains(a[0]));
        assert(b.to_set().contains(a[0]));
        let j = choose|j: int| 0 <= j < b.len() && b[j] == a[0];
        assert(b.to_set().contains(b[0]));
        assert(a.to_set().contains(b[0]));
        let k = choose|k: int| 0 <= k < a.len() && a[k] == b[0];
        if j > 0 {
            assert(str_lt(b[0]@, b[j]@));
            if k > 0 { assert(str_lt(a[0]@, a[k]@)); }
            assert(false);
        }
        assert(a[0] == b[0]);
        let a1 = a.skip(1);
        let b1 = b.skip(1);
        assert forall|i: int, jj: int| 0 <= i < jj < a1.len() implies str_lt((#[trigger] a1[i])@, (#[trigger] a1[jj])@) by {
            assert(a1[i] == a[i + 1] && a1[jj] == a[jj + 1]);
        }
        assert forall|i: int, jj: int| 0 <= i < jj < b1.len() implies str_lt((#[trigger] b1[i])@, (#[trigger] b1[jj])@) by {
            assert(b1[i] == b[i + 1] && b1[jj] == b[jj + 1]);
        }
        assert forall|x: String| a1.to_set().contains(x) <==> b1.to_set().contains(x) by {
            if a1.to_set().contains(x) {
                let i = choose|i: int| 0 <= i < a1.len() && a1[i] == x;
                assert(a[i + 1] == x);
                assert(str_lt(a[0]@, a[i + 1]@));
                assert(a.to_set().contains(x));
                assert(b.to_set().contains(x));
                let m = choose|m: int| 0 <= m < b.len() && b[m] == x;
                assert(m > 0);
                assert(b1[m - 1] == x);
            }
            if b1.to_set().contains(x) {
                let i = choose|i: int| 0 <= i < b1.len() && b1[i] == x;
                assert(b[i + 1] == x);
                assert(str_lt(b[0]@, b[i + 1]@));
                assert(b.to_set().contains(x));
                assert(a.to_set().contains(x));
                let m = choose|m: int| 0 <= m < a.len() && a[m] == x;
                assert(m > 0);
                assert(a1[m - 1] == x);
            }
        }
        assert(a1.to_set() =~= b1.to_set());
        lemma_sorted_strings_unique(a1, b1);
        assert(a =~= b) by {
            assert forall|i: int| 0 <= i < a.len() implies a[i] == b[i] by {
                if i > 0 { assert(a1[i - 1] == a[i] && b1[i - 1] == b[i]); }
            }
            assert(a.len() == a1.len() + 1 && b.len() == b1.len() + 1);
        }
    }
}

/// what sorted_names returns IS the canonical enumeration
//@ PROPS C13
pub broadcast proof fn lemma_sorted_names_is_canon(v: Seq<&String>, s: Set<String>)
    requires strictly_sorted(v), enumerates(v, s),
    ensures #![trigger derefs(v), canon(s)] derefs(v) == canon(s), derefs(v).len() == v.len(),
{
    broadcast use axiom_str_lt_order;
    let d = derefs(v);
    assert forall|i: int, j: int| 0 <= i < j < d.len() implies str_lt((#[trigger] d[i])@, (#[trigger] d[j])@) by {
        assert(d[i] == *v[i] && d[j] == *v[j]);
    }
    assert(d.no_duplicates()) by {
        assert forall|i: int, j: int| 0 <= i < d.len() && 0 <= j < d.len() && i != j implies d[i] != d[j] by {
            if i < j { assert(str_lt(d[i]@, d[j]@)); } else { assert(str_lt(d[j]@, d[i]@)); }
        }
    }
    assert(d.to_set() =~= s) by {
        assert forall|x: String| d.to_set().contains(x) <==> s.contains(x) by {
            if d.to_set().contains(x) { let i = choose|i: int| 0 <= i < d.len() && d[i] == x; assert(*v[i] == x); }
            if s.contains(x) { let i = choose|i: int| 0 <= i < v.len() && *#[trigger] v[i] == x; assert(d[i] == x); }
        }
    }
    let c = canon(s);
    assert(sorted_strings(c) && c.no_duplicates() && c.to_set() == s);
    lemma_sorted_strings_unique(d, c);
}

// ------------------------------------------------------------------ the properties
// Postcondition of topological_sort_types, all in terms of the abstract graph.
pub open spec fn topo_post(g: Graph, roots: Set<String>, r: Seq<String>) -> bool {
    &&& r.no_duplicates()
    &&& forall|t: String| roots.contains(t) ==> r.contains(t)
    &&& closed(g, r, Set::<String>::empty())
    &&& ordered(g, r)
    &&& from_roots(g, roots, r)
}

pub open spec fn on_common_cycle(g: Graph, u: String, v: String) -> bool {
    reaches(g, u, v) && reaches(g, v, u)
}

pub open spec fn acyclic(g: Graph) -> bool {
    forall|u: String, v: String| #[trigger] edge(g, u, v) ==> !reaches(g, v, u)
}

proof fn lemma_closed_path(g: Graph, r: Seq<String>, p: Seq<String>, k: int)
    requires closed(g, r, Set::<String>::empty()), is_path(g, p), r.contains(p[0]), 0 <= k < p.len(),
    ensures r.contains(p[k]),
    decreases k,
{
    if k > 0 {
        lemma_closed_path(g, r, p, k - 1);
        let i = choose|i: int| 0 <= i < r.len() && r[i] == p[k - 1];
        assert(edge(g, p[k - 1], p[k - 1 + 1]));
        assert(edge(g, r[i], p[k]));
    }
}

//@ PROPS C20
/// C20: "returns each requested type and each of its transitive dependencies exactly once"
pub proof fn lemma_C20_exactly_the_reachable_set_once(g: Graph, roots: Set<String>, r: Seq<String>)
    requires topo_post(g, roots, r),
    ensures
        r.no_duplicates(),
        forall|v: String| r.contains(v) <==> exists|t: String| roots.contains(t) && reaches(g, t, v),
{
    assert forall|v: String| r.contains(v) <==> exists|t: String| roots.contains(t) && reaches(g, t, v) by {
        if r.contains(v) {
            let i = choose|i: int| 0 <= i < r.len() && r[i] == v;
            assert(exists|t: String| roots.contains(t) && reaches(g, t, r[i]));
        }
        if exists|t: String| roots.contains(t) && reaches(g, t, v) {
            let t = choose|t: String| roots.contains(t) && reaches(g, t, v);
            let p = choose|p: Seq<String>| is_path(g, p) && p[0] == t && p.last() == v;
            lemma_closed_path(g, r, p, p.len() - 1);
        }
    }
}

//@ PROPS C20
/// C20: "every dependency before its dependents whenever the two are not on a common cycle"
/// (per recorded dependency edge u -> v; see DESIGN.md for the reading)
pub proof fn lemma_C20_dependency_first_unless_common_cycle(g: Graph, roots: Set<String>, r: Seq<String>, i: int, j: int)
    requires topo_post(g, roots, r), 0 <= i < r.len(), 0 <= j < r.len(), edge(g, r[i], r[j]),
    ensures j < i || on_common_cycle(g, r[i], r[j]),
{
    lemma_edge_reaches(g, r[i], r[j]);
    if !(exists|k: int| 0 <= k < i && r[k] == r[j]) {
        assert(reaches(g, r[j], r[i]));
    } else {
        let k = choose|k: int| 0 <= k < i && r[k] == r[j];
        assert(k == j);
    }
}

//@ PROPS C20
/// every recorded dependency of an emitted type is itself emitted
pub proof fn lemma_C20_dependencies_are_emitted(g: Graph, roots: Set<String>, r: Seq<String>, i: int, v: String)
    requires topo_post(g, roots, r), 0 <= i < r.len(), edge(g, r[i], v),
    ensures r.contains(v),
{
}

//@ PROPS C09 C20
/// C09(a): on an acyclic graph every recorded dependency strictly precedes its dependent,
/// for every iteration order of the hash collections (the proof never fixes one).
pub proof fn lemma_C09_acyclic_dependencies_first(g: Graph, roots: Set<String>, r: Seq<String>, i: int, v: String)
    requires topo_post(g, roots, r), acyclic(g), 0 <= i < r.len(), edge(g, r[i], v),
    ensures exists|j: int| 0 <= j < i && r[j] == v,
{
}

proof fn lemma_dag_path_order(g: Graph, roots: Set<String>, r: Seq<String>, p: Seq<String>, k: int)
    requires topo_post(g, roots, r), acyclic(g), is_path(g, p), r.contains(p[0]), 1 <= k < p.len(),
    ensures
        r.contains(p[k]),
        idx(r, p[k]) < idx(r, p[0]),
    decreases k,
{
    lemma_closed_path(g, r, p, k);
    lemma_closed_path(g, r, p, k - 1);
    let a = idx(r, p[k - 1]);
    assert(edge(g, p[k - 1], p[k - 1 + 1]));
    assert(edge(g, r[a], p[k]));
    lemma_C09_acyclic_dependencies_first(g, roots, r, a, p[k]);
    let j = choose|j: int| 0 <= j < a && r[j] == p[k];
    assert(idx(r, p[k]) == j);
    if k > 1 {
        lemma_dag_path_order(g, roots, r, p, k - 1);
    }
}

//@ PROPS C20
/// On DAGs the per-edge reading and the transitive reading coincide.
pub proof fn lemma_C20_transitive_on_dags(g: Graph, roots: Set<String>, r: Seq<String>, u: String, v: String)
    requires topo_post(g, roots, r), acyclic(g), r.contains(u), reaches(g, u, v), u != v,
    ensures r.contains(v), idx(r, v) < idx(r, u),
{
    let p = choose|p: Seq<String>| is_path(g, p) && p[0] == u && p.last() == v;
    lemma_dag_path_order(g, roots, r, p, p.len() - 1);
}

//@ AUTO-FREE-FNS
} // verus!
fn main() {}
